#!/usr/bin/env python3
"""Rewrites section 9.6 of DESIGN.md from seeded/results.json, seeded/reverts.json and the seeded meta files."""
import json, glob, os, re
V = os.path.dirname(os.path.dirname(os.path.abspath(__file__)))
res = json.load(open(f"{V}/seeded/results.json"))
rev = json.load(open(f"{V}/seeded/reverts.json")) if os.path.exists(f"{V}/seeded/reverts.json") else {}
rows = []
for label in sorted(res):
    target = label.split("/")[0]
    meta = json.load(open(f"{V}/seeded/{label}/meta.json"))
    r = res[label]
    caught = [p for p, v in sorted(r.items()) if isinstance(v, dict) and v.get("rc") == 1]
    tk = (r.get(target) or {}).get("violations") or []
    need = (meta.get("needs_to_manifest") or "").replace("\n", " ").replace("|", "/")
    if len(need) > 170:
        need = need[:167] + "..."
    summ = (meta.get("summary") or "").replace("\n", " ").replace("|", "/")
    summ = summ[:150] + ("..." if len(summ) > 150 else "")
    rows.append(f"| {label} | {summ} | {need} | {'yes' if target in caught else '**NO**'}: `{tk[0] if tk else '-'}` | {', '.join(p for p in caught if p != target) or '-'} |")
out = []
out.append("### 9.6 Validation of the machinery: seeded changes, reverted fixes, determinism\n")
out.append("`./selftest seeded` applies every change under `/verif/seeded/<id>/<variant>/patch.diff` to a scratch worktree of")
out.append("`/repo` (never to `/repo` itself) and runs the quick tier of the checks with `VERIF_REPO=<worktree>`.")
out.append(f"The {len(res)} changes were written in eight rounds by independent sub-agents that saw only the text of one property (rounds 2 to 8")
out.append("also one-paragraph summaries of the earlier changes to avoid) and a scratch worktree - nothing from `/verif`.")
out.append("Each was confirmed by the builder before being kept: the patch applies, the repository's whole suite (51 tests + 6")
out.append("doc-tests) passes with it, its demonstration fails with it and passes without it (`meta.json` records the commands).")
out.append("C18/a was re-applied by hand after the D9 fix rewrote the same lines (both patches are kept).\n")
n_target = sum(1 for l in res if (res[l].get(l.split('/')[0]) or {}).get('rc') == 1)
out.append(f"Result: **{n_target} of {len(res)}** seeded changes are reported (exit 1, VIOLATION line, replay reproduces) by the quick tier of")
out.append("their *target* property's check; the last column lists the other properties' checks that also report them.")
out.append("Changes first missed by their target check and what was strengthened because of them: C14/a (sibling tags 0/128")
out.append("added to the C14 alphabet), C09/d (JSON forms of Evaluation/Point added to the C09 entry points), C13/c (calibrated")
out.append("forged-proof synthesis, then a wider calibration family), C13/e (an honest verification interleaved with every")
out.append("tampered one: a per-thread memo keyed on too little), C10/f (keys created on one thread and used on another); the")
out.append("C04/h (a larger candidate family for the near-collision histories: two clients whose randomness agree in 4 bytes); the")
out.append("descriptions of further round-2..4 changes were used to add the sweeps and histories of section 9.5 before those")
out.append("changes were run. Round 5 (variants i, j): on the first pass the target checks as they stood caught 18 of the")
out.append("36; 13 were missed (C02/i, C02/j, C03/i, C06/j, C07/j, C10/i, C11/j, C12/i, C13/i, C15/j, C16/i, C17/j, C18/i); for")
out.append("C03/j the coalition check bailed out on shares with two y values and tripped its own vacuity guard (exit 2: a")
out.append("machinery error, not a detection); four runs hit a harness that did not compile because it was being edited")
out.append("meanwhile (exit 2) - re-run, two of them were caught by the existing checks (C09/j, C18/j) and two were further")
out.append("misses (C08/j, C09/i). So 16 of the 36 needed new machinery. The checks added")
out.append("because of them are the 'fifth round' list of section 9.5 (object reuse, travelled keys, sparse keys, neighbour")
out.append("classes, framing ambiguity, out-parameters, point padding, algebraic adversary, call histories, value equality,")
out.append("layout-valid-but-never-dealt encodings, shortened chunks, tag-list shapes, JSON structure, mixed batches, refused")
out.append("requests, near-colliding tags); each is a dimension, not the mutant's input. Round 6 (variants k, l; the agents")
out.append("were also given the list of defect families already used and six unused directions): the additions are the")
out.append("'sixth round' list of section 9.5; several were written from the directions before the changes were run. Round 7")
out.append("(variants m, n; seven further directions; the C03 agent found one change only): see the 'seventh round' list.")
out.append("Round 8 (variants o, p; three agents found one change only) was run against the checks as they stood: 17 of 31")
out.append("completed runs caught, 14 missed (C01/o?, C02/o?, C02/p?, C06/p, C08/o, C09/o, C09/p, C10/p, C11/p, C13/o, C16/o,")
out.append("C16/p, C18/p and the build-configuration family before the second build existed); see the 'eighth round' list.")
out.append("")
out.append("**Not caught: C04/g and C17/k (the same limit).** C17/k compresses a derivation key longer than one cipher block")
out.append("(166 bytes) with a digest under a new private label, so a measurement M1 longer than 166 bytes and the 32-byte")
out.append("measurement digest(M1) derive the same randomness - and nothing else collides. C04/g is the same construction on the")
out.append("epoch: it replaces an epoch longer than 64 bytes by a digest computed with a new private")
out.append("label before it enters the derivation, so the epoch E and the 32-byte epoch digest(E) collide - and nothing else")
out.append("does. The colliding partner can only be named by evaluating the private function the change introduces; no bounded")
out.append("enumeration of inputs that is independent of the changed code contains that pair (2^-256 by chance). This is the")
out.append("limit of the technique for injectivity statements over unbounded byte strings (see section 6): the check decides the")
out.append("enumerated family, and relations between inputs that exist only through code added by a change are outside it. A")
out.append("code-aware oracle (a reference implementation of the documented derivation, compared output by output) would catch")
out.append("it, at the price of raising an alarm on every legitimate change of the derivation; the property does not fix the")
out.append("derivation, so the harness deliberately has no such oracle.")
out.append("")
out.append("The reverted D7 fix first produced a harness panic instead of a")
out.append("violation (ff's `sqrt_ratio` trips a debug assertion under the wrong generator) - calls into the code under test")
out.append("are now guarded there and harness errors no longer mask violations found elsewhere.\n")
out.append("| change | what it does | needs, to manifest | caught by target check (first key) | also caught by |")
out.append("|---|---|---|---|---|")
out.extend(rows)
out.append("")
out.append("**Reverted fixes** (`./selftest reverts`): each `fix:` commit of `/repo` reversed in a scratch worktree must be")
out.append("reported again by the check of the property it repaired.\n")
out.append("| reverted commit | reported by |")
out.append("|---|---|")
for k in sorted(rev):
    caught = [p for p, v in sorted(rev[k].items()) if isinstance(v, dict) and v.get("rc") == 1]
    out.append(f"| {k} | {', '.join(caught) or '**nothing**'} |")
out.append("")
out.append("**Determinism** (`./selftest determinism`): every quick check twice with `VERIF_SEED=1` gives identical")
out.append("evaluation counts, distinct-case counts and outcome sets; `VERIF_SEED=12345` gives the same verdicts. (The first")
out.append("run exposed run-dependent counts in C14 - the BFS frontier came out of a `HashMap` in process-random order, which")
out.append("decided which of two arrivals at a state was visited in full; the frontier is now sorted by digest.)\n")
out.append("**State carried between calls.** Several seeded changes keep state in a `thread_local`/static. A violation that")
out.append("depends on what the same worker thread executed earlier does not reproduce when its case is replayed alone; the")
out.append("engine then replays the cases that preceded it on that thread (on a fresh thread) and, if the violation returns,")
out.append("writes them into the replay file (`thread_history`); only if that fails too is the run a machinery error (exit 2).\n")
text = "\n".join(out)
p = f"{V}/DESIGN.md"
s = open(p).read()
a = s.find("### 9.6 Validation of the machinery")
if a >= 0:
    s = s[:a].rstrip("\n") + "\n\n" + text
else:
    s = s.rstrip("\n") + "\n\n" + text
open(p, "w").write(s)
print("section 9.6 written:", len(rows), "rows")
