//! Scripted replacement for `getrandom` 0.2.17 (harness builds only).
//!
//! Every entropy request of the code under test (`OsRng`, `thread_rng` seeding)
//! ends up in [`getrandom`]. The answer is, per thread:
//!   1. bytes of the *script* (a finite byte queue set by the harness), then
//!   2. a deterministic SplitMix64 stream keyed by the case key set with
//!      [`verif::reset`] ("fresh, independent" entropy, reproducible and
//!      independent of the worker thread a case happens to run on).
//! Every request is logged with the group id the harness set around the API
//! call, so that the harness knows which bytes each call consumed ("entropy
//! accounting") and can replay them into a later call to force a collision.
use core::fmt;
use core::mem::MaybeUninit;
use core::num::NonZeroU32;

#[derive(Copy, Clone, Eq, PartialEq)]
pub struct Error(NonZeroU32);

impl Error {
  pub const INTERNAL_START: u32 = 1 << 31;
  pub const CUSTOM_START: u32 = (1 << 31) + (1 << 30);
  pub const UNSUPPORTED: Error = Error(unsafe { NonZeroU32::new_unchecked(1 << 31) });
  pub const UNEXPECTED: Error = Error(unsafe { NonZeroU32::new_unchecked((1 << 31) + 2) });
  #[inline]
  pub fn raw_os_error(self) -> Option<i32> {
    if self.0.get() < Self::INTERNAL_START {
      Some(self.0.get() as i32)
    } else {
      None
    }
  }
  #[inline]
  pub const fn code(self) -> NonZeroU32 {
    self.0
  }
}
impl fmt::Debug for Error {
  fn fmt(&self, f: &mut fmt::Formatter<'_>) -> fmt::Result {
    write!(f, "Error({})", self.0.get())
  }
}
impl fmt::Display for Error {
  fn fmt(&self, f: &mut fmt::Formatter<'_>) -> fmt::Result {
    write!(f, "getrandom shim error {}", self.0.get())
  }
}
impl From<NonZeroU32> for Error {
  fn from(code: NonZeroU32) -> Self {
    Self(code)
  }
}
impl std::error::Error for Error {}
impl From<Error> for std::io::Error {
  fn from(err: Error) -> Self {
    std::io::Error::new(std::io::ErrorKind::Other, err)
  }
}

#[macro_export]
macro_rules! register_custom_getrandom {
  ($path:path) => {};
}

pub fn getrandom(dest: &mut [u8]) -> Result<(), Error> {
  verif::serve(dest);
  Ok(())
}

pub fn getrandom_uninit(dest: &mut [MaybeUninit<u8>]) -> Result<&mut [u8], Error> {
  for b in dest.iter_mut() {
    b.write(0);
  }
  // SAFETY: every byte was initialised just above.
  let s = unsafe { core::slice::from_raw_parts_mut(dest.as_mut_ptr() as *mut u8, dest.len()) };
  verif::serve(s);
  Ok(s)
}

pub mod verif {
  use std::cell::RefCell;
  use std::collections::VecDeque;

  /// One logged entropy request.
  #[derive(Clone, Debug, PartialEq, Eq)]
  pub struct Request {
    pub group: u32,
    pub bytes: Vec<u8>,
    /// how many of the bytes came from the script (rest: default stream)
    pub scripted: usize,
  }

  struct State {
    key: u64,
    counter: u64,
    script: VecDeque<u8>,
    group: u32,
    log: Vec<Request>,
    logging: bool,
    total: u64,
  }

  thread_local! {
    static ST: RefCell<State> = RefCell::new(State {
      key: 0, counter: 0, script: VecDeque::new(), group: 0, log: Vec::new(), logging: false, total: 0,
    });
  }

  fn splitmix(mut z: u64) -> u64 {
    z = z.wrapping_add(0x9E3779B97F4A7C15);
    z = (z ^ (z >> 30)).wrapping_mul(0xBF58476D1CE4E5B9);
    z = (z ^ (z >> 27)).wrapping_mul(0x94D049BB133111EB);
    z ^ (z >> 31)
  }

  pub(crate) fn serve(dest: &mut [u8]) {
    ST.with(|st| {
      let mut st = st.borrow_mut();
      let mut scripted = 0;
      for b in dest.iter_mut() {
        if let Some(x) = st.script.pop_front() {
          *b = x;
          scripted += 1;
        } else {
          let word = splitmix(st.key ^ splitmix(st.counter / 8));
          *b = (word >> (8 * (st.counter % 8))) as u8;
          st.counter += 1;
        }
      }
      st.total += dest.len() as u64;
      if st.logging {
        let group = st.group;
        st.log.push(Request { group, bytes: dest.to_vec(), scripted });
      }
    })
  }

  /// Start a new case: default stream keyed by `key`, empty script and log.
  pub fn reset(key: u64) {
    ST.with(|st| {
      let mut st = st.borrow_mut();
      st.key = splitmix(key ^ 0x5741_5253_5645_5249);
      st.counter = 0;
      st.script.clear();
      st.group = 0;
      st.log.clear();
      st.logging = true;
      st.total = 0;
    })
  }
  /// Replace the script (bytes served before the default stream resumes).
  pub fn set_script(bytes: &[u8]) {
    ST.with(|st| {
      let mut st = st.borrow_mut();
      st.script.clear();
      st.script.extend(bytes.iter().copied());
    })
  }
  /// Drop whatever is left of the script; returns how many bytes were left.
  pub fn clear_script() -> usize {
    ST.with(|st| {
      let mut st = st.borrow_mut();
      let n = st.script.len();
      st.script.clear();
      n
    })
  }
  pub fn set_group(g: u32) {
    ST.with(|st| st.borrow_mut().group = g)
  }
  pub fn log_len() -> usize {
    ST.with(|st| st.borrow().log.len())
  }
  pub fn log() -> Vec<Request> {
    ST.with(|st| st.borrow().log.clone())
  }
  /// Concatenated bytes of all requests logged under `group`.
  pub fn group_bytes(group: u32) -> Vec<u8> {
    ST.with(|st| {
      st.borrow().log.iter().filter(|r| r.group == group).flat_map(|r| r.bytes.iter().copied()).collect()
    })
  }
  pub fn total_bytes() -> u64 {
    ST.with(|st| st.borrow().total)
  }
}
