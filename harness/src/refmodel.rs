//! Independent, deliberately boring reference models: big-integer field
//! arithmetic, Shamir evaluation / interpolation, and a from-scratch parser and
//! printer of the documented wire layouts.
use num_bigint::BigUint;
use num_traits::{One, Zero};

pub fn p() -> BigUint {
  (BigUint::one() << 128) + BigUint::from(12451u32)
}
pub fn q() -> BigUint {
  // (p-1)/2
  (p() - BigUint::one()) >> 1
}
pub fn big(n: u128) -> BigUint {
  BigUint::from(n)
}
pub fn le24(n: &BigUint) -> [u8; 24] {
  let b = n.to_bytes_le();
  assert!(b.len() <= 24, "value does not fit 24 bytes");
  let mut out = [0u8; 24];
  out[..b.len()].copy_from_slice(&b);
  out
}
pub fn from_le(b: &[u8]) -> BigUint {
  BigUint::from_bytes_le(b)
}
pub fn addm(a: &BigUint, b: &BigUint) -> BigUint {
  (a + b) % p()
}
pub fn subm(a: &BigUint, b: &BigUint) -> BigUint {
  ((a + p()) - (b % p())) % p()
}
pub fn mulm(a: &BigUint, b: &BigUint) -> BigUint {
  (a * b) % p()
}
pub fn negm(a: &BigUint) -> BigUint {
  (p() - (a % p())) % p()
}
pub fn powm(a: &BigUint, e: &BigUint) -> BigUint {
  a.modpow(e, &p())
}
pub fn invm(a: &BigUint) -> Option<BigUint> {
  if (a % p()).is_zero() {
    None
  } else {
    Some(a.modpow(&(p() - BigUint::from(2u32)), &p()))
  }
}
/// Miller-Rabin with fixed bases (deterministic for our purposes; n odd > 3)
pub fn is_probable_prime(n: &BigUint) -> bool {
  let one = BigUint::one();
  let two = BigUint::from(2u32);
  if *n < two {
    return false;
  }
  for sp in [2u32, 3, 5, 7, 11, 13, 17, 19, 23, 29, 31, 37] {
    let spb = BigUint::from(sp);
    if *n == spb {
      return true;
    }
    if (n % &spb).is_zero() {
      return false;
    }
  }
  let nm1 = n - &one;
  let mut d = nm1.clone();
  let mut s = 0;
  while (&d % &two).is_zero() {
    d >>= 1;
    s += 1;
  }
  'bases: for a in [2u32, 3, 5, 7, 11, 13, 17, 19, 23, 29, 31, 37, 41, 43, 47, 53, 59, 61, 67, 71, 73, 79, 83, 89, 97, 101, 103, 107, 109, 113, 127, 131, 137, 139, 149, 151, 157, 163, 167, 173] {
    let mut x = BigUint::from(a).modpow(&d, n);
    if x == one || x == nm1 {
      continue;
    }
    for _ in 0..s - 1 {
      x = (&x * &x) % n;
      if x == nm1 {
        continue 'bases;
      }
    }
    return false;
  }
  true
}

// ---------------------------------------------------------------- Shamir

/// evaluate polynomial given by coefficients c[0] + c[1] x + ... at x
pub fn horner(coeffs_low_first: &[BigUint], x: &BigUint) -> BigUint {
  let mut acc = BigUint::zero();
  for c in coeffs_low_first.iter().rev() {
    acc = addm(&mulm(&acc, x), c);
  }
  acc
}
/// full Lagrange interpolation: coefficients (low first) of the unique polynomial of degree < n
/// through the n points (distinct x required)
pub fn interpolate_coeffs(points: &[(BigUint, BigUint)]) -> Vec<BigUint> {
  let n = points.len();
  let mut result = vec![BigUint::zero(); n];
  for i in 0..n {
    // basis polynomial l_i(x) = prod_{j!=i} (x - x_j)/(x_i - x_j)
    let mut num = vec![BigUint::one()]; // coefficients low first
    let mut den = BigUint::one();
    for j in 0..n {
      if j == i {
        continue;
      }
      // num *= (x - x_j)
      let mut next = vec![BigUint::zero(); num.len() + 1];
      for (k, c) in num.iter().enumerate() {
        next[k + 1] = addm(&next[k + 1], c);
        next[k] = subm(&next[k], &mulm(c, &points[j].0));
      }
      num = next;
      den = mulm(&den, &subm(&points[i].0, &points[j].0));
    }
    let scale = mulm(&points[i].1, &invm(&den).expect("distinct x"));
    for (k, c) in num.iter().enumerate() {
      result[k] = addm(&result[k], &mulm(c, &scale));
    }
  }
  result
}
pub fn lagrange_at_zero(points: &[(BigUint, BigUint)]) -> BigUint {
  let mut acc = BigUint::zero();
  for i in 0..points.len() {
    let mut num = BigUint::one();
    let mut den = BigUint::one();
    for j in 0..points.len() {
      if i != j {
        num = mulm(&num, &points[j].0);
        den = mulm(&den, &subm(&points[j].0, &points[i].0));
      }
    }
    acc = addm(&acc, &mulm(&points[i].1, &mulm(&num, &invm(&den).expect("distinct x"))));
  }
  acc
}

// ---------------------------------------------------------------- layouts (independent parser / printer)

#[derive(Clone, Debug, PartialEq, Eq)]
pub struct ShamirShare {
  pub x: BigUint,
  pub y: Vec<BigUint>,
}
#[derive(Clone, Debug, PartialEq, Eq)]
pub struct AdssShare {
  pub threshold: u32,
  pub s: ShamirShare,
  pub c: Vec<u8>,
  pub d: Vec<u8>,
  pub j: Vec<u8>, // 64 bytes
}
#[derive(Clone, Debug, PartialEq, Eq)]
pub struct Report {
  pub ciphertext: Vec<u8>,
  pub share: AdssShare,
  pub tag: Vec<u8>,
}

fn rd_u32(b: &[u8], at: usize) -> Option<u32> {
  if b.len() < at + 4 {
    return None;
  }
  Some((b[at] as u32) | (b[at + 1] as u32) << 8 | (b[at + 2] as u32) << 16 | (b[at + 3] as u32) << 24)
}
/// length-prefixed chunk at offset `at`; returns (chunk, offset after chunk)
fn rd_chunk(b: &[u8], at: usize) -> Option<(&[u8], usize)> {
  let len = rd_u32(b, at)? as u64;
  let start = at as u64 + 4;
  let end = start + len;
  if end > b.len() as u64 {
    return None;
  }
  Some((&b[start as usize..end as usize], end as usize))
}
pub fn parse_u32(b: &[u8]) -> Option<u32> {
  if b.len() != 4 {
    None
  } else {
    rd_u32(b, 0)
  }
}
/// documented behaviour of `load_bytes`: the first length-prefixed chunk, trailing bytes ignored
pub fn parse_chunk(b: &[u8]) -> Option<Vec<u8>> {
  rd_chunk(b, 0).map(|(c, _)| c.to_vec())
}
/// Shamir share: x || y_1 || ... ; every element a 24-byte LE integer < p; a trailing partial
/// element (< 24 bytes) is ignored
pub fn parse_shamir(b: &[u8]) -> Option<ShamirShare> {
  if b.len() < 24 {
    return None;
  }
  let pp = p();
  let x = from_le(&b[..24]);
  if x >= pp {
    return None;
  }
  let mut y = vec![];
  let n = (b.len() - 24) / 24;
  for i in 0..n {
    let v = from_le(&b[24 + 24 * i..48 + 24 * i]);
    if v >= pp {
      return None;
    }
    y.push(v);
  }
  Some(ShamirShare { x, y })
}
pub fn print_shamir(s: &ShamirShare) -> Vec<u8> {
  let mut out = le24(&s.x).to_vec();
  for y in &s.y {
    out.extend_from_slice(&le24(y));
  }
  out
}
/// ADSS share: threshold u32 LE | chunk(S) | chunk(C) | chunk(D) | J (exactly 64 bytes, nothing after)
pub fn parse_adss(b: &[u8]) -> Option<AdssShare> {
  let threshold = rd_u32(b, 0)?;
  let (s, at) = rd_chunk(b, 4)?;
  let (c, at) = rd_chunk(b, at)?;
  let (d, at) = rd_chunk(b, at)?;
  if b.len() - at != 64 {
    return None;
  }
  let j = b[at..].to_vec();
  Some(AdssShare { threshold, s: parse_shamir(s)?, c: c.to_vec(), d: d.to_vec(), j })
}
pub fn put_chunk(out: &mut Vec<u8>, c: &[u8]) {
  out.extend_from_slice(&(c.len() as u32).to_le_bytes());
  out.extend_from_slice(c);
}
pub fn print_adss(s: &AdssShare) -> Vec<u8> {
  let mut out = s.threshold.to_le_bytes().to_vec();
  put_chunk(&mut out, &print_shamir(&s.s));
  put_chunk(&mut out, &s.c);
  put_chunk(&mut out, &s.d);
  out.extend_from_slice(&s.j);
  out
}
/// report: chunk(ciphertext) | chunk(share) | chunk(tag); trailing bytes ignored
pub fn parse_report(b: &[u8]) -> Option<Report> {
  let (ct, at) = rd_chunk(b, 0)?;
  let (sh, at) = rd_chunk(b, at)?;
  let (tag, _at) = rd_chunk(b, at)?;
  Some(Report { ciphertext: ct.to_vec(), share: parse_adss(sh)?, tag: tag.to_vec() })
}
pub fn print_report(r: &Report) -> Vec<u8> {
  let mut out = vec![];
  put_chunk(&mut out, &r.ciphertext);
  put_chunk(&mut out, &print_adss(&r.share));
  put_chunk(&mut out, &r.tag);
  out
}

/// field map of an encoded ADSS share: (name, start, len)
pub fn adss_field_map(b: &[u8]) -> Option<Vec<(&'static str, usize, usize)>> {
  let mut m = vec![("threshold", 0usize, 4usize)];
  let (s, at_c) = rd_chunk(b, 4)?;
  m.push(("S.len", 4, 4));
  m.push(("S.x", 8, 24.min(s.len())));
  if s.len() > 24 {
    m.push(("S.y", 32, s.len() - 24));
  }
  let (c, at_d) = rd_chunk(b, at_c)?;
  m.push(("C.len", at_c, 4));
  if !c.is_empty() {
    m.push(("C", at_c + 4, c.len()));
  }
  let (d, at_j) = rd_chunk(b, at_d)?;
  m.push(("D.len", at_d, 4));
  if !d.is_empty() {
    m.push(("D", at_d + 4, d.len()));
  }
  m.push(("J", at_j, b.len() - at_j));
  Some(m)
}
