//! Input generation for the decoder properties (C08, C09): annotated base
//! encodings and exhaustive single-fault / boundary / splice mutation families.
use crate::refmodel as rm;
use num_bigint::BigUint;
use num_traits::One;

#[derive(Clone, Debug, PartialEq)]
pub enum Kind {
  /// 4-byte LE length prefix of a chunk (value = chunk length)
  Len,
  /// 4-byte LE plain value (threshold)
  U32,
  /// 24-byte field element
  Elem,
  /// opaque bytes
  Data,
}
#[derive(Clone, Debug)]
pub struct Field {
  pub name: String,
  pub off: usize,
  pub len: usize,
  pub kind: Kind,
  /// offsets of the enclosing chunks' length prefixes (outermost first)
  pub parents: Vec<usize>,
}

fn rd_u32(b: &[u8], at: usize) -> usize {
  u32::from_le_bytes(b[at..at + 4].try_into().unwrap()) as usize
}

pub fn fields_shamir(b: &[u8], base: usize, end: usize, parents: &[usize], pre: &str) -> Vec<Field> {
  let mut v = vec![];
  let mut at = base;
  let mut i = 0;
  while at + 24 <= end {
    v.push(Field { name: format!("{}{}", pre, if i == 0 { "x".to_string() } else { format!("y{}", i) }), off: at, len: 24, kind: Kind::Elem, parents: parents.to_vec() });
    at += 24;
    i += 1;
  }
  if at < end {
    v.push(Field { name: format!("{}partial", pre), off: at, len: end - at, kind: Kind::Data, parents: parents.to_vec() });
  }
  let _ = b;
  v
}
pub fn fields_adss(b: &[u8], base: usize, parents: &[usize], pre: &str) -> Vec<Field> {
  let mut v = vec![Field { name: format!("{}threshold", pre), off: base, len: 4, kind: Kind::U32, parents: parents.to_vec() }];
  let s_len_at = base + 4;
  let s_len = rd_u32(b, s_len_at);
  v.push(Field { name: format!("{}S.len", pre), off: s_len_at, len: 4, kind: Kind::Len, parents: parents.to_vec() });
  let mut p2 = parents.to_vec();
  p2.push(s_len_at);
  v.extend(fields_shamir(b, s_len_at + 4, s_len_at + 4 + s_len, &p2, &format!("{}S.", pre)));
  let c_len_at = s_len_at + 4 + s_len;
  let c_len = rd_u32(b, c_len_at);
  v.push(Field { name: format!("{}C.len", pre), off: c_len_at, len: 4, kind: Kind::Len, parents: parents.to_vec() });
  let mut p3 = parents.to_vec();
  p3.push(c_len_at);
  v.push(Field { name: format!("{}C", pre), off: c_len_at + 4, len: c_len, kind: Kind::Data, parents: p3 });
  let d_len_at = c_len_at + 4 + c_len;
  let d_len = rd_u32(b, d_len_at);
  v.push(Field { name: format!("{}D.len", pre), off: d_len_at, len: 4, kind: Kind::Len, parents: parents.to_vec() });
  let mut p4 = parents.to_vec();
  p4.push(d_len_at);
  v.push(Field { name: format!("{}D", pre), off: d_len_at + 4, len: d_len, kind: Kind::Data, parents: p4 });
  let j_at = d_len_at + 4 + d_len;
  v.push(Field { name: format!("{}J", pre), off: j_at, len: 64, kind: Kind::Data, parents: parents.to_vec() });
  v
}
pub fn fields_report(b: &[u8]) -> Vec<Field> {
  let ct_len = rd_u32(b, 0);
  let mut v = vec![Field { name: "ct.len".into(), off: 0, len: 4, kind: Kind::Len, parents: vec![] }, Field { name: "ct".into(), off: 4, len: ct_len, kind: Kind::Data, parents: vec![0] }];
  let sh_len_at = 4 + ct_len;
  let sh_len = rd_u32(b, sh_len_at);
  v.push(Field { name: "share.len".into(), off: sh_len_at, len: 4, kind: Kind::Len, parents: vec![] });
  v.extend(fields_adss(b, sh_len_at + 4, &[sh_len_at], "share."));
  let tag_len_at = sh_len_at + 4 + sh_len;
  let tag_len = rd_u32(b, tag_len_at);
  v.push(Field { name: "tag.len".into(), off: tag_len_at, len: 4, kind: Kind::Len, parents: vec![] });
  v.push(Field { name: "tag".into(), off: tag_len_at + 4, len: tag_len, kind: Kind::Data, parents: vec![tag_len_at] });
  v
}

pub fn len_boundary_values(actual: usize) -> Vec<u32> {
  let a = actual as u32;
  let mut v = vec![0u32, 1, a.wrapping_sub(1), a, a.wrapping_add(1), 23, 24, 25, 47, 48, 63, 64, 65, 1 << 16, (1u32 << 31) - 1, 1 << 31, u32::MAX - 4, u32::MAX - 3, u32::MAX - 2, u32::MAX - 1, u32::MAX];
  v.sort();
  v.dedup();
  v
}
pub fn bad_elems() -> Vec<[u8; 24]> {
  let one = BigUint::one();
  vec![rm::le24(&(rm::p() - &one)), rm::le24(&rm::p()), rm::le24(&(rm::p() + &one)), rm::le24(&((&one << 192usize) - &one)), [0u8; 24]]
}
pub const BYTE_FAULTS: [&str; 5] = ["^01", "^80", "+1", "=00", "=ff"];
pub fn byte_fault(b: u8, f: &str) -> u8 {
  match f {
    "^01" => b ^ 1,
    "^80" => b ^ 0x80,
    "+1" => b.wrapping_add(1),
    "=00" => 0,
    _ => 0xff,
  }
}

/// Every single-fault mutation of one annotated base encoding. Each item: (description, bytes).
pub fn mutations(base: &[u8], fields: &[Field]) -> Vec<(String, Vec<u8>)> {
  let mut out: Vec<(String, Vec<u8>)> = vec![("identity".into(), base.to_vec())];
  for n in 0..base.len() {
    out.push((format!("prefix {}", n), base[..n].to_vec()));
  }
  for f in fields {
    match f.kind {
      Kind::Len | Kind::U32 => {
        let actual = rd_u32(base, f.off);
        for v in len_boundary_values(actual) {
          let mut b = base.to_vec();
          b[f.off..f.off + 4].copy_from_slice(&v.to_le_bytes());
          out.push((format!("{}={}", f.name, v), b));
        }
      }
      Kind::Elem => {
        for e in bad_elems() {
          let mut b = base.to_vec();
          b[f.off..f.off + 24].copy_from_slice(&e);
          out.push((format!("{}=elem {}", f.name, rm::from_le(&e)), b));
        }
      }
      Kind::Data => {}
    }
  }
  for off in 0..base.len() {
    for flt in BYTE_FAULTS {
      let nb = byte_fault(base[off], flt);
      if nb != base[off] {
        let mut b = base.to_vec();
        b[off] = nb;
        out.push((format!("byte {} {}", off, flt), b));
      }
    }
  }
  // trailing / inserted garbage at every nesting level, with and without fixing up the enclosing lengths
  for g in [1usize, 23, 24, 48] {
    for fill in [0x01u8, 0xEE] {
      let garbage = vec![fill; g];
      let mut b = base.to_vec();
      b.extend_from_slice(&garbage);
      out.push((format!("append {}x{:02x}", g, fill), b));
      for f in fields {
        if f.parents.is_empty() || !(f.kind == Kind::Data || f.kind == Kind::Elem) {
          continue;
        }
        // only at the END of a chunk: the field must be the last of its innermost parent
        let parent = *f.parents.last().unwrap();
        let chunk_end = parent + 4 + rd_u32(base, parent);
        if f.off + f.len != chunk_end {
          continue;
        }
        for fix in [true, false] {
          let mut b = base.to_vec();
          let at = f.off + f.len;
          for (i, x) in garbage.iter().enumerate() {
            b.insert(at + i, *x);
          }
          if fix {
            for &p in &f.parents {
              let v = rd_u32(&b, p) + g;
              b[p..p + 4].copy_from_slice(&(v as u32).to_le_bytes());
            }
          }
          out.push((format!("insert {}x{:02x} at end of {} (lengths {})", g, fill, f.name, if fix { "adjusted" } else { "stale" }), b));
        }
      }
    }
  }
  // the inverse: every nested chunk shortened from its end (1, 23, 24 bytes, to 1 byte, to nothing) with all
  // enclosing lengths ADJUSTED, so that the framing stays consistent and only the content is too short
  for f in fields {
    if f.kind != Kind::Len {
      continue;
    }
    let clen = rd_u32(base, f.off);
    let (start, end) = (f.off + 4, f.off + 4 + clen);
    if end > base.len() {
      continue;
    }
    let mut cuts: Vec<usize> = vec![1, 23, 24, 25, clen.saturating_sub(1), clen];
    cuts.retain(|&c| c >= 1 && c <= clen);
    cuts.sort();
    cuts.dedup();
    for cut in cuts {
      let mut b = base.to_vec();
      b.drain(end - cut..end);
      // this chunk's own length and every enclosing chunk's length
      for &p in f.parents.iter().chain(std::iter::once(&f.off)) {
        let v = rd_u32(&b, p).saturating_sub(cut);
        b[p..p + 4].copy_from_slice(&(v as u32).to_le_bytes());
      }
      let _ = start;
      out.push((format!("{}: last {} byte(s) of the chunk removed (lengths adjusted, {} left)", f.name, cut, clen - cut), b));
    }
  }
  out
}

/// all ordered splices of two encodings at their field boundaries
pub fn splices(a: &[u8], fa: &[Field], b: &[u8], fb: &[Field]) -> Vec<(String, Vec<u8>)> {
  let mut out = vec![];
  let mut ca: Vec<usize> = fa.iter().map(|f| f.off).chain(fa.iter().map(|f| f.off + f.len)).collect();
  ca.sort();
  ca.dedup();
  let mut cb: Vec<usize> = fb.iter().map(|f| f.off).chain(fb.iter().map(|f| f.off + f.len)).collect();
  cb.sort();
  cb.dedup();
  for &x in &ca {
    for &y in &cb {
      let mut v = a[..x.min(a.len())].to_vec();
      v.extend_from_slice(&b[y.min(b.len())..]);
      out.push((format!("splice a[..{}] + b[{}..]", x, y), v));
    }
  }
  out
}

/// all byte strings of length 0..=max_len over the alphabet, chunk `part` of `parts`
pub fn short_strings(alphabet: &[u8], max_len: usize, part: usize, parts: usize, mut f: impl FnMut(&[u8])) {
  let mut idx = 0usize;
  crate::mc::for_each_seq(alphabet.len(), max_len, |s| {
    idx += 1;
    if idx % parts == part {
      let b: Vec<u8> = s.iter().map(|&i| alphabet[i]).collect();
      f(&b);
    }
  });
}
