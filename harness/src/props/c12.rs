//! C12 — the PPOPRF output depends only on (server key, tag, input), never on the blinding.
use crate::ggmx::parse_export;
use crate::mc::*;
use crate::sut::*;
use curve25519_dalek::ristretto::CompressedRistretto;
use curve25519_dalek::scalar::Scalar;
use ppoprf::ppoprf as pp;
use ppoprf::PPRF;
use serde_json::{json, Value};
use std::collections::HashMap;

pub fn tag_lists() -> Vec<Vec<u8>> {
  vec![vec![0, 1, 7, 255], vec![7, 3], vec![1, 1, 2], vec![255, 128, 0], vec![9]]
}
pub fn inputs() -> Vec<Vec<u8>> {
  let mut long1 = prbytes(21, 40);
  let mut long2 = long1.clone();
  long2[39] ^= 1;
  let mut big1 = prbytes(22, 4096);
  let mut big2 = big1.clone();
  big2[4095] ^= 0x80;
  let mut v = vec![vec![], b"a".to_vec(), b"b".to_vec(), prbytes(20, 64), long1.clone(), long2.clone(), big1.clone(), big2.clone(), prbytes(23, 33), b"some_test_input".to_vec()];
  // and the same prefix-sharing pairs again in the opposite order
  std::mem::swap(&mut long1, &mut long2);
  std::mem::swap(&mut big1, &mut big2);
  v.push(long1);
  v.push(long2);
  v.push(big1);
  v.push(big2);
  // inputs equal to the labels the protocol uses internally
  v.push(b"ppoprf_derive_client_input".to_vec());
  v.push(b"ppoprf_finalize".to_vec());
  v
}

#[derive(Clone, Debug)]
enum Blind {
  Fresh(u32),
  Craft(&'static str, [u8; 32]),
}
fn blindings() -> Vec<Blind> {
  let mut one = [0u8; 32];
  one[0] = 1;
  let mut two = [0u8; 32];
  two[0] = 2;
  let lm1 = (Scalar::ZERO - Scalar::ONE).to_bytes();
  let mut p252 = [0u8; 32];
  p252[31] = 0x10;
  // scalars with structure: a single bit at a 64-bit word boundary, repeated bytes, the low half zero
  let bit = |k: usize| {
    let mut b = [0u8; 32];
    b[k / 8] = 1 << (k % 8);
    b
  };
  let mut rep = [1u8; 32];
  rep[31] = 0x01;
  let mut hi = [0u8; 32];
  for b in hi.iter_mut().skip(16) {
    *b = 0xff;
  }
  hi[31] = 0x0f;
  vec![
    Blind::Craft("1", one),
    Blind::Fresh(0),
    Blind::Fresh(1),
    Blind::Fresh(2),
    Blind::Craft("2", two),
    Blind::Craft("l-1", lm1),
    Blind::Craft("2^252", p252),
    Blind::Craft("2^64", bit(64)),
    Blind::Craft("2^128", bit(128)),
    Blind::Craft("2^192", bit(192)),
    Blind::Craft("0x01 repeated", rep),
    Blind::Craft("2^252 - 2^128 (low half zero)", hi),
  ]
}

/// one full client/server exchange with a scripted blinding; returns (blinded, unblinded, finalised)
fn exchange(server: &pp::Server, md: u8, input: &[u8], b: &Blind, verifiable: bool) -> Result<([u8; 32], [u8; 32], [u8; 32]), String> {
  match b {
    Blind::Fresh(_) => getrandom::verif::set_script(&[]),
    Blind::Craft(_, s) => {
      let mut wide = [0u8; 64];
      wide[..32].copy_from_slice(s);
      getrandom::verif::set_script(&wide);
    }
  }
  let r = guard(|| {
    let (blinded, r) = pp::Client::blind(input);
    // every other request carries the blinding factor through its public conversions while the
    // request is in flight (CurveScalar -> Scalar -> bytes -> CurveScalar)
    let r = if verifiable { r } else { pp::CurveScalar::from(Scalar::from(r).to_bytes()) };
    getrandom::verif::clear_script();
    let ev = server.eval(&blinded, md, verifiable).map_err(|e| format!("eval: {}", e))?;
    if verifiable && !pp::Client::verify(&server.get_public_key(), &blinded, &ev, md) {
      return Err("proof does not verify".to_string());
    }
    let un = pp::Client::unblind(&ev.output, &r);
    let mut out = [0u8; 32];
    pp::Client::finalize(input, md, &un, &mut out);
    Ok((*blinded.as_bytes(), *un.as_bytes(), out))
  });
  getrandom::verif::clear_script();
  r.unwrap_or_else(|p| Err(format!("panic: {}", p)))
}

fn run_server(cx: &mut CaseCx, case: &Value) {
  let tl = tag_lists()[case["tags"].as_u64().unwrap() as usize].clone();
  cx.entropy(10 + case["key"].as_u64().unwrap_or(0));
  let server = match guard(|| pp::Server::new(tl.clone())) {
    Ok(Ok(s)) => s,
    other => {
      cx.viol("C12/server-new-failed", format!("Server::new({:?}) failed: {:?}", tl, other.map(|r| r.map(|_| ()).map_err(|e| e.to_string()))), json!({"tags": tl}));
      return;
    }
  };
  let mut tags = tl.clone();
  tags.sort();
  tags.dedup();
  // independent formula: (k + PRF(tag))^-1 * H(input), with k from the key-sync export and PRF(tag) via the hook
  let k_scalar: Option<Scalar> = bincode::serialize(&server.get_private_key()).ok().and_then(|b| parse_export(&b)).and_then(|e| Option::from(Scalar::from_canonical_bytes(e.oprf_key)));
  if k_scalar.is_none() {
    cx.note("server key not readable from the key-sync export: independent exponent formula skipped");
  }
  let ins = inputs();
  let bl = blindings();
  // (server,tag,input) -> finalised output, for injectivity
  let mut finals: HashMap<[u8; 32], (u8, usize)> = HashMap::new();
  let mut unbl: HashMap<[u8; 32], (u8, usize)> = HashMap::new();
  let d = |md: u8, ii: usize, b: &Blind, ver: bool| json!({"server_tags": tl, "tag": md, "input": hexs(&ins[ii]), "input_index": ii, "blinding": format!("{:?}", b).chars().take(24).collect::<String>(), "verifiable": ver});
  for &md in &tags {
    for (ii, input) in ins.iter().enumerate() {
      let mut h_point: Option<[u8; 32]> = None;
      let mut direct: Option<[u8; 32]> = None;
      let mut final0: Option<[u8; 32]> = None;
      let mut blinded_seen: Vec<[u8; 32]> = vec![];
      for b in &bl {
        for verifiable in [false, true] {
          cx.eval();
          let (blinded, un, fin) = match exchange(&server, md, input, b, verifiable) {
            Ok(x) => x,
            Err(e) => {
              cx.viol("C12/exchange-failed", format!("honest exchange failed: {}", e), d(md, ii, b, verifiable));
              continue;
            }
          };
          cx.nontrivial(fnv_str(&format!("{:?}|{}|{}|{:?}|{}", tl, md, ii, b, verifiable)));
          if let Blind::Craft("1", _) = b {
            // blinding factor 1: the request IS the hashed input point; the server's answer to it is the reference
            if h_point.is_none() {
              h_point = Some(blinded);
              direct = guard(|| server.eval(&pp::Point::from(&blinded[..]), md, false).ok().map(|e| *e.output.as_bytes())).ok().flatten();
              if let (Some(k), Some(hp)) = (k_scalar, CompressedRistretto(blinded).decompress()) {
                let mut leaf = [0u8; 32];
                // the ingredients are read from the export and the hook: use them only if they reproduce the
                // PUBLIC key (k*G = base point, PRF(tag)*G = tag point) - otherwise the derivation changed
                let pkb = server.get_public_key().serialize_to_bincode().unwrap_or_default();
                let slot = (0..).map(|i| 40 + 33 * i).take_while(|&at| at + 33 <= pkb.len()).find(|&at| pkb[at] == md).map(|at| at + 1);
                let g = curve25519_dalek::constants::RISTRETTO_BASEPOINT_POINT;
                let ingredients_ok = server.verif_pprf().eval(&[md], &mut leaf).is_ok()
                  && pkb.len() >= 40
                  && (k * g).compress().to_bytes()[..] == pkb[..32]
                  && slot.map(|at| (Scalar::from_bytes_mod_order(leaf) * g).compress().to_bytes()[..] == pkb[at..at + 32]).unwrap_or(false);
                if !ingredients_ok {
                  cx.count("formula_ingredients_unobservable", 1);
                } else {
                  let want = ((k + Scalar::from_bytes_mod_order(leaf)).invert() * hp).compress().to_bytes();
                  cx.eval();
                  if direct != Some(want) {
                    cx.viol("C12/exponent-formula", format!("Server::eval(H(input), tag {}) is not (k + PRF(tag))^-1 * H(input)", md), d(md, ii, b, verifiable));
                  }
                  cx.count("formula_checks", 1);
                }
              }
            }
          } else if Some(blinded) == h_point {
            cx.viol("C12/request-equals-input-point", "a blinded request equals the unblinded input point although the blinding is not 1", d(md, ii, b, verifiable));
          }
          if let Some(dv) = direct {
            if un != dv {
              cx.viol("C12/unblinded-differs-from-direct", format!("the unblinded result differs from the server's evaluation of the unblinded input point (tag {})", md), d(md, ii, b, verifiable));
            }
          }
          match final0 {
            None => final0 = Some(fin),
            Some(f0) => {
              if f0 != fin {
                cx.viol("C12/output-depends-on-request", "the finalised output differs between two requests for the same (server, tag, input)", d(md, ii, b, verifiable));
              }
            }
          }
          if let Blind::Fresh(_) = b {
            if !verifiable {
              if blinded_seen.contains(&blinded) {
                cx.viol("C12/blinding-not-fresh", "two requests for one input under fresh entropy carry the same blinded point", d(md, ii, b, verifiable));
              }
              blinded_seen.push(blinded);
            }
          }
        }
      }
      // injectivity over (tag, input) for this server (inputs 10.. repeat earlier ones in another order)
      if let (Some(f), Some(dv)) = (final0, direct) {
        let canon_ii = ins.iter().position(|x| x == input).unwrap();
        if let Some(&(t2, i2)) = finals.get(&f) {
          if (t2, i2) != (md, canon_ii) {
            cx.viol("C12/outputs-collide", format!("(tag {}, input #{}) and (tag {}, input #{}) finalise to the same output", md, canon_ii, t2, i2), d(md, ii, &bl[0], false));
          }
        }
        finals.insert(f, (md, canon_ii));
        if let Some(&(t2, i2)) = unbl.get(&dv) {
          if (t2, i2) != (md, canon_ii) {
            cx.viol("C12/evaluations-collide", format!("(tag {}, input #{}) and (tag {}, input #{}) evaluate to the same point", md, canon_ii, t2, i2), d(md, ii, &bl[0], false));
          }
        }
        unbl.insert(dv, (md, canon_ii));
      }
    }
  }
  cx.count("distinct_outputs", finals.len() as u64);
  cx.outcome(format!("tags {:?}: {} outputs", tl, finals.len()));
  cx.sample(json!({"server_tags": tl, "inputs": ins.len(), "blindings": bl.len(), "distinct_outputs": finals.len()}));
}

/// outputs differ between independently keyed servers
fn run_cross_server(cx: &mut CaseCx, _case: &Value) {
  let mut seen: HashMap<[u8; 32], usize> = HashMap::new();
  for s in 0..4usize {
    cx.entropy(100 + s as u64);
    let server = pp::Server::new(vec![0, 1, 7, 255]).expect("server");
    for md in [0u8, 7] {
      for (ii, input) in inputs().iter().enumerate().take(6) {
        cx.eval();
        cx.nontrivial(fnv_str(&format!("{}|{}|{}", s, md, ii)));
        if let Ok((_, _, fin)) = exchange(&server, md, input, &Blind::Fresh(0), false) {
          if let Some(&s2) = seen.get(&fin) {
            if s2 != s {
              cx.viol("C12/servers-collide", format!("independently keyed servers {} and {} give the same output for (tag {}, input #{})", s2, s, md, ii), json!({"tag": md, "input_index": ii}));
            }
          }
          seen.insert(fin, s);
        }
      }
    }
  }
  cx.count("distinct_outputs", seen.len() as u64);
  cx.outcome("cross-server");
}


/// the output for (server, tag, input) does not depend on punctures of OTHER tags in the key's history
/// punctures of tags the server never published do not touch the outputs of its published tags - however many
fn run_unregistered_punctures(cx: &mut CaseCx, case: &Value) {
  let tags: Vec<u8> = vec![0, 1, 2];
  cx.entropy(905 + case["order"].as_u64().unwrap());
  let mut server = pp::Server::new(tags.clone()).expect("server");
  let input = b"unregistered punctures".to_vec();
  let mut base: HashMap<u8, [u8; 32]> = HashMap::new();
  for &t in &tags {
    if let Ok((_, _, fin)) = exchange(&server, t, &input, &Blind::Fresh(0), false) {
      base.insert(t, fin);
    }
  }
  let orders: Vec<Vec<u8>> = vec![vec![200, 201, 202, 203, 204], vec![255, 3, 128, 64, 32, 16], vec![3, 4, 5], vec![200, 1, 201, 202]];
  let order = orders[case["order"].as_u64().unwrap() as usize % orders.len()].clone();
  let mut punctured: Vec<u8> = vec![];
  for &p in &order {
    if server.puncture(p).is_err() {
      cx.viol("C12/puncture-failed", format!("puncture({}) failed", p), json!({"punctured_in_order": punctured}));
      return;
    }
    punctured.push(p);
    for &t in &tags {
      if punctured.contains(&t) {
        continue;
      }
      for verifiable in [false, true] {
        cx.eval();
        cx.nontrivial(fnv_str(&format!("{:?}|{}|{}", punctured, t, verifiable)));
        match exchange(&server, t, &input, &Blind::Fresh(1), verifiable) {
          Ok((_, _, fin)) => {
            if Some(&fin) != base.get(&t) {
              cx.viol("C12/output-depends-on-puncture-history/unregistered", format!("a server publishing the tags {:?}: the output for tag {} changed after {} punctures {:?} (tags it never published among them)", tags, t, punctured.len(), punctured), json!({"tag": t, "punctured_in_order": punctured, "verifiable": verifiable}));
              return;
            }
            cx.count("stable_outputs", 1);
          }
          Err(e) => {
            cx.viol("C12/exchange-failed/unregistered", format!("exchange for the live tag {} failed after puncturing {:?}: {}", t, punctured, e), json!({"tag": t, "punctured_in_order": punctured}));
            return;
          }
        }
      }
    }
  }
  cx.outcome("stable across unregistered punctures");
}

fn run_puncture_stability(cx: &mut CaseCx, case: &Value) {
  let tags: Vec<u8> = vec![0, 1, 2, 6, 7, 64, 128, 192, 255];
  cx.entropy(900 + case["order"].as_u64().unwrap());
  let mut server = pp::Server::new(tags.clone()).expect("server");
  let input = b"stable input".to_vec();
  let mut base: HashMap<u8, [u8; 32]> = HashMap::new();
  for &t in &tags {
    if let Ok((_, _, fin)) = exchange(&server, t, &input, &Blind::Fresh(0), false) {
      base.insert(t, fin);
    }
  }
  // puncture orders: ascending, descending, and rotations of the tag list
  let mut order = tags.clone();
  let o = case["order"].as_u64().unwrap() as usize;
  order.rotate_left(o % tags.len());
  if o >= tags.len() {
    order.reverse();
  }
  let mut punctured: Vec<u8> = vec![];
  for &p in &order {
    if server.puncture(p).is_err() {
      cx.viol("C12/puncture-failed", format!("puncture({}) failed", p), json!({"punctured_in_order": punctured}));
      return;
    }
    punctured.push(p);
    for &t in &tags {
      if punctured.contains(&t) {
        continue;
      }
      for verifiable in [false, true] {
        cx.eval();
        cx.nontrivial(fnv_str(&format!("{:?}|{}|{}", punctured, t, verifiable)));
        match exchange(&server, t, &input, &Blind::Fresh(1), verifiable) {
          Ok((_, _, fin)) => {
            if Some(&fin) != base.get(&t) {
              cx.viol("C12/output-depends-on-puncture-history", format!("the output for tag {} changed after puncturing other tags {:?}", t, punctured), json!({"tag": t, "punctured_in_order": punctured, "verifiable": verifiable}));
              return;
            }
            cx.count("stable_outputs", 1);
          }
          Err(e) => {
            cx.viol("C12/exchange-failed", format!("exchange for the unpunctured tag {} failed after puncturing {:?}: {}", t, punctured, e), json!({"tag": t, "punctured_in_order": punctured, "verifiable": verifiable}));
            return;
          }
        }
      }
    }
  }
  cx.outcome("stable across punctures");
}


/// Outputs do not depend on HOW MUCH of the key is left: servers that retain only one or two subtrees of the
/// tag tree (everything else punctured) still finalise every live tag to its original output.
fn run_sparse_keys(cx: &mut CaseCx, case: &Value) {
  use super::c10::{all_nodes, node_pairs};
  cx.entropy(950);
  let server = pp::Server::new((0..=255u8).collect()).expect("server");
  let input = b"sparse key input".to_vec();
  let part = case["part"].as_u64().unwrap() as usize;
  let parts = case["parts"].as_u64().unwrap() as usize;
  let mut shapes: Vec<Vec<crate::ggmx::Node>> = all_nodes().into_iter().map(|n| vec![n]).collect();
  shapes.extend(node_pairs().into_iter().map(|(a, b)| vec![a, b]));
  let mut base: HashMap<u8, [u8; 32]> = HashMap::new();
  for (si, shape) in shapes.iter().enumerate() {
    if si % parts != part {
      continue;
    }
    let live: Vec<u8> = (0..=255u8).filter(|&x| shape.iter().any(|n| n.covers(x))).collect();
    let mut probes: Vec<u8> = vec![live[0], live[live.len() - 1], live[live.len() / 2]];
    for n in shape {
      probes.push(n.leaves()[0]);
    }
    probes.sort();
    probes.dedup();
    for &t in &probes {
      if !base.contains_key(&t) {
        match exchange(&server, t, &input, &Blind::Fresh(0), false) {
          Ok((_, _, fin)) => {
            base.insert(t, fin);
          }
          Err(e) => {
            cx.viol("C12/exchange-failed", format!("exchange for tag {} on a fresh server failed: {}", t, e), json!({"tag": t}));
            return;
          }
        }
      }
    }
    let mut s = server.clone();
    let mut order: Vec<u8> = (0..=255u8).filter(|x| !live.contains(x)).collect();
    if si % 2 == 1 {
      order.reverse();
    }
    for &x in &order {
      let _ = s.puncture(x);
    }
    for &t in &probes {
      for verifiable in [false, true] {
        if verifiable && t != probes[0] {
          continue;
        }
        cx.eval();
        match exchange(&s, t, &input, &Blind::Fresh(1), verifiable) {
          Ok((_, _, fin)) => {
            if Some(&fin) != base.get(&t) {
              cx.viol("C12/output-depends-on-puncture-history/sparse-key", format!("the output for tag {} changed after all tags outside the subtree(s) {:?} were punctured ({} punctures)", t, shape, order.len()), json!({"tag": t, "retained_subtrees": format!("{:?}", shape), "punctures": order.len(), "verifiable": verifiable}));
              return;
            }
            cx.count("stable_outputs", 1);
          }
          Err(e) => {
            cx.viol("C12/exchange-failed/sparse-key", format!("exchange for the unpunctured tag {} failed after all tags outside the subtree(s) {:?} were punctured: {}", t, shape, e), json!({"tag": t, "retained_subtrees": format!("{:?}", shape), "verifiable": verifiable}));
            return;
          }
        }
      }
    }
    cx.nontrivial(fnv_str(&format!("{:?}", shape)));
  }
  cx.outcome("sparse keys stable");
}


/// Server::eval is a function of (point, tag) alone: for every ordered pair of requests from a family that
/// contains chained points (an earlier OUTPUT sent back as a request), special points and repeated points, the
/// answer to the second request equals the answer it gets on a fresh clone.
fn run_evaluation_order(cx: &mut CaseCx, _case: &Value) {
  cx.entropy(970);
  let tags = [0u8, 1, 255];
  let server = pp::Server::new(tags.to_vec()).expect("server");
  let p0 = pp::Client::blind(b"chain start").0;
  let mut points: Vec<(String, pp::Point)> = vec![("a client request".into(), p0.clone()), ("another client request".into(), pp::Client::blind(b"other").0)];
  // chains: the output for (p0, tag 1) sent back, and the output of that
  if let Ok(e1) = server.eval(&p0, 1, false) {
    points.push(("the earlier output for (request, tag 1) sent back as a request".into(), e1.output.clone()));
    if let Ok(e2) = server.eval(&e1.output, 1, false) {
      points.push(("the output of the output".into(), e2.output.clone()));
    }
    if let Ok(e3) = server.eval(&e1.output, 0, false) {
      points.push(("the output sent back under another tag".into(), e3.output.clone()));
    }
  }
  points.push(("the neutral element".into(), pp::Point::from(&[0u8; 32][..])));
  let items: Vec<(usize, u8)> = (0..points.len()).flat_map(|i| tags.iter().map(move |&t| (i, t))).collect();
  let answer = |s: &pp::Server, it: &(usize, u8), verifiable: bool| -> Option<[u8; 32]> { guard(|| s.eval(&points[it.0].1, it.1, verifiable).ok().map(|e| *e.output.as_bytes())).ok().flatten() };
  let baseline: Vec<Option<[u8; 32]>> = items.iter().map(|it| answer(&server.clone(), it, false)).collect();
  if baseline.iter().filter(|b| b.is_some()).count() < items.len() - 3 {
    cx.viol("C12/exchange-failed", "a fresh server refuses requests of the family", json!({}));
    return;
  }
  for (a, ia) in items.iter().enumerate() {
    for (b, ib) in items.iter().enumerate() {
      for verifiable in [false, true] {
        let s = server.clone();
        let _ = answer(&s, ia, verifiable);
        let got = answer(&s, ib, false);
        cx.eval();
        cx.nontrivial(fnv_str(&format!("{}|{}|{}", a, b, verifiable)));
        if got != baseline[b] {
          cx.viol("C12/output-depends-on-earlier-request", format!("the answer for ({}, tag {}) differs when the server answered ({}, tag {}{}) just before", points[ib.0].0, ib.1, points[ia.0].0, ia.1, if verifiable { ", with proof" } else { "" }), json!({"first": [points[ia.0].0, ia.1], "second": [points[ib.0].0, ib.1], "first_verifiable": verifiable}));
          return;
        }
        cx.count("ordered_pairs", 1);
      }
    }
  }
  cx.outcome("evaluation is a function of (point, tag)");
}


/// One blinded request, one blinding factor, used MORE THAN ONCE: the same request evaluated under several
/// tags and by several servers, each answer unblinded with the same factor (twice, in both orders) - every
/// unblinded point equals the server's evaluation of the unblinded input point, every finalised output equals
/// the one a fresh single-use exchange gives.
fn run_blinding_reuse(cx: &mut CaseCx, _case: &Value) {
  cx.entropy(980);
  let tags = [0u8, 1, 7];
  let servers: Vec<pp::Server> = (0..2).map(|_| pp::Server::new(tags.to_vec()).expect("server")).collect();
  for input in [&b"reused blinding"[..], b"", b"another input"] {
    // reference: single-use exchanges
    let mut want: HashMap<(usize, u8), [u8; 32]> = HashMap::new();
    for (si, s) in servers.iter().enumerate() {
      for &t in &tags {
        if let Ok((_, _, fin)) = exchange(s, t, input, &Blind::Fresh(0), false) {
          want.insert((si, t), fin);
        }
      }
    }
    let (blinded, r) = pp::Client::blind(input);
    let mut order: Vec<(usize, u8)> = vec![];
    for si in 0..servers.len() {
      for &t in &tags {
        order.push((si, t));
      }
    }
    // every (server, tag) answered for the SAME blinded request, unblinded with the SAME factor; then again reversed
    for pass in 0..2 {
      let ord: Vec<(usize, u8)> = if pass == 0 { order.clone() } else { order.iter().rev().cloned().collect() };
      for (k, (si, t)) in ord.iter().enumerate() {
        cx.eval();
        cx.nontrivial(fnv_str(&format!("{}|{}|{}|{}", hexs(input), pass, si, t)));
        let ev = match guard(|| servers[*si].eval(&blinded, *t, k % 2 == 0)) {
          Ok(Ok(ev)) => ev,
          _ => {
            cx.viol("C12/exchange-failed", format!("eval for tag {} failed", t), json!({"tag": t}));
            return;
          }
        };
        let un = match guard(|| pp::Client::unblind(&ev.output, &r)) {
          Ok(u) => u,
          Err(p) => {
            cx.viol("C12/unblind-panicked", p, json!({"use_number": pass * order.len() + k + 1}));
            return;
          }
        };
        let mut fin = [0u8; 32];
        pp::Client::finalize(input, *t, &un, &mut fin);
        if Some(&fin) != want.get(&(*si, *t)) {
          cx.viol("C12/blinding-factor-single-use", format!("use number {} of one blinding factor (the same blinded request answered by server {} under tag {}): the unblinded / finalised result differs from a single-use exchange{}", pass * order.len() + k + 1, si, t, if un.as_bytes() == &[0u8; 32] { " (the unblinded point is the neutral element)" } else { "" }), json!({"use_number": pass * order.len() + k + 1, "server": si, "tag": t, "input": hexs(input)}));
          return;
        }
        cx.count("reused_blinding_ok", 1);
      }
    }
  }
  cx.outcome("blinding reuse");
}


/// E-env on the blinding: the blinding factor is a function of the client's OS entropy alone - and of at least
/// its first 128 bits. Same scripted entropy => same blinded request (whatever the input was before); each
/// single-bit variant of the first 16 bytes => a new blinded request (pairwise distinct).
fn run_blinding_entropy(cx: &mut CaseCx, _case: &Value) {
  for input in [&b"entropy probe"[..], b""] {
    let base = prbytes(0xB11D, 64);
    let point = |script: &[u8]| -> Option<([u8; 32], u64)> {
      getrandom::verif::set_script(script);
      let before = getrandom::verif::total_bytes();
      let r = guard(|| pp::Client::blind(input).0);
      let used = getrandom::verif::total_bytes() - before;
      getrandom::verif::clear_script();
      r.ok().map(|p| (*p.as_bytes(), used))
    };
    let (p0, used) = match point(&base) {
      Some(x) => x,
      None => return,
    };
    cx.count("entropy_bytes_per_blinding", used);
    cx.eval();
    // another request in between, then the same entropy again
    let _ = point(&prbytes(0xB11E, 64));
    if point(&base).map(|x| x.0) != Some(p0) {
      cx.viol("C12/blinding-depends-on-history", "with identical entropy the same input is blinded to another point: the blinding factor depends on something else than the client's fresh entropy", json!({"input": hexs(input)}));
      return;
    }
    cx.count("replayed_entropy_gives_same_request", 1);
    let mut seen: HashMap<[u8; 32], String> = HashMap::new();
    seen.insert(p0, "base".into());
    for byte in 0..16 {
      for bit in [0x01u8, 0x10, 0x80] {
        let mut b = base.clone();
        b[byte] ^= bit;
        cx.eval();
        cx.nontrivial(fnv_str(&format!("{}|{}|{}", hexs(input), byte, bit)));
        if let Some((p, _)) = point(&b) {
          if let Some(prev) = seen.insert(p, format!("byte {} ^ {:#04x}", byte, bit)) {
            cx.viol(
              "C12/blinding-ignores-entropy",
              format!("two requests whose OS entropy differs (byte {} ^ {:#04x} vs {}) are blinded to the SAME point: the blinding factor does not use at least 128 bits of the entropy it is given ({} bytes consumed per blinding), so requests for one input repeat and can be linked", byte, bit, prev, used),
              json!({"byte": byte, "bit": bit, "entropy_bytes_consumed": used, "input": hexs(input)}),
            );
            return;
          }
        }
      }
    }
    cx.count("entropy_variants_distinct", 48);
  }
  cx.outcome("blinding uses its entropy");
}

/// unbounded repetitions (bounded here: 300) of one request on one thread stay fresh
fn run_freshness(cx: &mut CaseCx, _case: &Value) {
  cx.entropy(950);
  let mut seen: HashMap<[u8; 32], usize> = HashMap::new();
  let inputs = [b"repeated input".to_vec(), prbytes(5, 40)];
  for n in 0..300usize {
    let input = &inputs[n % 2];
    cx.eval();
    cx.nontrivial(n as u64);
    let (blinded, _r) = pp::Client::blind(input);
    if let Some(prev) = seen.insert(*blinded.as_bytes(), n) {
      cx.viol("C12/blinding-not-fresh", format!("request {} carries exactly the blinded point of request {} (fresh entropy for every request): requests are linkable", n, prev), json!({"request": n, "same_as_request": prev}));
      return;
    }
  }
  cx.count("fresh_requests", seen.len() as u64);
  cx.outcome("300 requests fresh");
}


/// the finalised output depends on EVERY part of (input, tag, unblinded point), for every input length
fn run_finalize(cx: &mut CaseCx, case: &Value) {
  let lo = case["lo"].as_u64().unwrap() as usize;
  let hi = case["hi"].as_u64().unwrap() as usize;
  let p1: [u8; 32] = (curve25519_dalek::constants::RISTRETTO_BASEPOINT_POINT * Scalar::from(7u64)).compress().to_bytes();
  let fin = |input: &[u8], md: u8, pt: &[u8; 32]| -> Option<[u8; 32]> {
    let mut out = [0u8; 32];
    guard(|| pp::Client::finalize(input, md, &pp::Point::from(&pt[..]), &mut out)).ok()?;
    Some(out)
  };
  for len in lo..hi {
    let input = prbytes(0xF1 + len as u64, len);
    let base = match fin(&input, 7, &p1) {
      Some(b) => b,
      None => {
        cx.viol("C12/finalize-panicked", format!("finalize panicked for an input of {} bytes", len), json!({"input_len": len}));
        continue;
      }
    };
    cx.nontrivial(len as u64);
    // the output is written through a caller buffer: what the buffer held before must not matter (a client
    // looping over requests with one array; a buffer that holds the previous output)
    for (what, fill) in [("0xff bytes", [0xffu8; 32]), ("the previous output", base), ("pseudo-random bytes", { let mut b = [0u8; 32]; b.copy_from_slice(&prbytes(len as u64, 32)); b })] {
      let mut out = fill;
      cx.eval();
      if guard(|| pp::Client::finalize(&input, 7, &pp::Point::from(&p1[..]), &mut out)).is_ok() && out != base {
        cx.viol("C12/output-depends-on-buffer", format!("input length {}: finalize into a buffer that held {} gives another output than into a zeroed buffer{} - the output is not a function of (key, tag, input)", len, what, if out == [0u8; 32] { " (all zero)" } else { "" }), json!({"input_len": len, "buffer_held": what}));
        return;
      }
      cx.count("dirty_buffer_probes", 1);
    }
    let mut seen: HashMap<[u8; 32], String> = HashMap::new();
    seen.insert(base, "base".into());
    let mut check = |cx: &mut CaseCx, what: String, v: Option<[u8; 32]>| {
      cx.eval();
      if let Some(v) = v {
        if let Some(prev) = seen.insert(v, what.clone()) {
          cx.viol("C12/finalize-ignores-part", format!("input length {}: the finalised output is the same for [{}] and [{}]: it does not depend on all of (input, tag, unblinded point)", len, prev, what), json!({"input_len": len, "a": prev, "b": what}));
        }
      }
    };
    // every byte of the point (another server / another key gives another point)
    for k in 0..32 {
      let mut q = p1;
      q[k] ^= 0x01;
      check(cx, format!("point byte {} flipped", k), fin(&input, 7, &q));
    }
    for md in [0u8, 6, 8, 135, 255] {
      check(cx, format!("tag {}", md), fin(&input, md, &p1));
    }
    // every byte of the input (bounded stride for long inputs), and neighbours in length
    let step = if len > 64 { 7 } else { 1 };
    let mut idx: Vec<usize> = (0..len).step_by(step).chain(len.checked_sub(1)).collect();
    idx.dedup();
    for k in idx {
      let mut i2 = input.clone();
      i2[k] ^= 0x80;
      check(cx, format!("input byte {} flipped", k), fin(&i2, 7, &p1));
    }
    let mut longer = input.clone();
    longer.push(0);
    check(cx, "input + one zero byte".into(), fin(&longer, 7, &p1));
    if len > 0 {
      check(cx, "input without its last byte".into(), fin(&input[..len - 1], 7, &p1));
    }
  }
  cx.outcome("finalize sensitive to all parts");
}

/// a replica that punctured MORE tags than an independently keyed leader imports the leader's state: same outputs
fn run_foreign_import(cx: &mut CaseCx, _case: &Value) {
  cx.entropy(970);
  let leader = pp::Server::new(vec![0, 1, 2, 7]).expect("server");
  let mut leader_p = leader.clone();
  let _ = leader_p.puncture(1);
  let mut replica = pp::Server::new(vec![0, 1, 2, 7, 9]).expect("server");
  for t in [0u8, 2, 7, 9, 200] {
    let _ = replica.puncture(t);
  }
  for (name, exporter) in [("fresh leader", &leader), ("leader with one puncture", &leader_p)] {
    for (rname, mut target) in [("replica with more punctures (other key)", replica.clone()), ("fresh replica", pp::Server::new(vec![3]).expect("server"))] {
      let bytes = bincode::serialize(&exporter.get_private_key()).expect("export");
      let st: pp::ServerKeyState = bincode::deserialize(&bytes).expect("state");
      target.set_private_key(st);
      for md in [0u8, 1, 2, 7, 9] {
        for verifiable in [false, true] {
          let a = exchange(exporter, md, b"same input", &Blind::Fresh(0), verifiable);
          let b = exchange(&target, md, b"same input", &Blind::Fresh(1), verifiable);
          cx.eval();
          cx.nontrivial(fnv_str(&format!("{}|{}|{}|{}", name, rname, md, verifiable)));
          match (a, b) {
            (Ok(x), Ok(y)) => {
              if x.2 != y.2 {
                cx.viol("C12/output-differs-after-key-sync", format!("{} -> {}: same server key (imported state), tag {} and input, different PPOPRF output", name, rname, md), json!({"exporter": name, "importer": rname, "tag": md, "verifiable": verifiable}));
              } else {
                cx.count("synced_outputs_equal", 1);
              }
            }
            (Err(_), Err(_)) => cx.count("both_refuse", 1),
            (x, y) => cx.viol("C12/output-differs-after-key-sync", format!("{} -> {}: tag {}: exporter {:?}, importer {:?}", name, rname, md, x.map(|_| "answers").map_err(|e| e), y.map(|_| "answers").map_err(|e| e)), json!({"exporter": name, "importer": rname, "tag": md, "verifiable": verifiable})),
          }
        }
      }
    }
  }
  cx.outcome("foreign import");
}

pub fn spec() -> PropSpec {
  PropSpec {
    id: "C12",
    level: "exploration",
    assumptions: vec![
      "blinding scalars are invertible: the zero scalar (only producible by scripting 64 entropy bytes = 0 mod l) is excluded from the blinding alphabet",
      "unlinkability is decided structurally relative to the entropy model: fresh entropy => pairwise distinct requests, none equal to the input point unless the blinding is 1",
      "H(input) is OBSERVED by scripting the blinding factor 1 (no replica of the hash-to-group derivation); the exponent formula uses the key-sync export and the hook",
    ],
    thorough_budget_s: 900,
    checks: vec![
      Check {
        name: "exchanges",
        rule: "per server (tag lists [0,1,7,255], [7,3] unsorted, [1,1,2] with a repeat, [255,128,0], [9]; thorough: 3 keys each): every registered tag x 16 inputs (two of them equal to the protocol's internal labels; empty, 1 byte, 64 B, 4 KiB, pairs sharing a 39-byte / 4095-byte prefix requested back-to-back in both orders) x 12 blindings (crafted 1, 2, l-1, 2^252, 2^64, 2^128, 2^192, 0x01 repeated, 2^252-2^128; 3 fresh) x {verifiable, not; the non-verifiable requests carry the blinding factor through its public scalar/byte conversions before unblinding}: unblinded == server's evaluation of the input point == (k+PRF(tag))^-1 H(input); finalised output equal across all requests; injective over (tag, input); requests fresh and != input point; distinct = exchanges",
        gen: |tier| {
          let mut v = vec![];
          for t in 0..tag_lists().len() {
            for key in 0..(if tier.thorough() { 3 } else { 1 }) {
              v.push(json!({"tags": t, "key": key}));
            }
          }
          v
        },
        run: run_server,
        min_counts: &[("evaluations", 1000), ("formula_checks", 50), ("distinct_outputs", 50)],
      },
      Check {
        name: "puncture-history",
        rule: "server with tags {0,1,2,6,7,64,128,192,255}: all tags punctured one by one in 18 orders (every rotation of the tag list, forwards and reversed); after every puncture every remaining tag still finalises to its original output, verifiable and not",
        gen: |_| (0..18u64).map(|o| json!({"order": o})).collect(),
        run: run_puncture_stability,
        min_counts: &[("stable_outputs", 1000)],
      },
      Check {
        name: "sparse-keys",
        rule: "server with all 256 tags: for EVERY tree node (510) and every disjoint pair from a 24-node family, all tags outside those subtrees are punctured (ascending / descending alternately, up to 255 punctures); the first, middle, last live tag and the first tag of each retained subtree still finalise to the outputs of the unpunctured server (one of them also with a proof)",
        gen: |_| (0..32u64).map(|i| json!({"part": i, "parts": 32})).collect(),
        run: run_sparse_keys,
        min_counts: &[("stable_outputs", 1500)],
      },
      Check { name: "evaluation-order", rule: "requests = 6 points (two client requests, an earlier OUTPUT sent back as a request, the output of that, the output under another tag, the neutral element) x 3 tags: for EVERY ordered pair of requests (first with and without proof) the second answer equals the one a fresh clone gives (no memo keyed on too little, no state left by a request)", gen: |_| vec![json!({})], run: run_evaluation_order, min_counts: &[("ordered_pairs", 500)] },
      Check {
        name: "process-histories",
        rule: "clients and servers are separate PROCESSES: 12 fresh processes that each perform a different first operation (nothing, blind, finalize, eval, verifiable eval, verify, local randomness, share, report, adss share, GGM eval, field inversion) and then the same observation script under the same entropy: blinded requests, evaluations, unblinded and finalised outputs, proofs, public key and GGM values are identical in all of them",
        gen: |_| vec![json!({})],
        run: |cx, _| crate::probe::process_order_check(cx, "C12", &|l: &str| l.starts_with("blinded") || l.starts_with("evaluation") || l.starts_with("proof") || l.starts_with("public key") || l.starts_with("ggm")),
        min_counts: &[("process_histories_agree", 12)],
      },
      Check { name: "blinding-reuse", rule: "ONE blinded request and ONE blinding factor used 12 times per input (2 servers x 3 tags, then the same in reverse order; alternately with a proof): every unblinded answer finalises to the output of a fresh single-use exchange with that server and tag (3 inputs incl. empty)", gen: |_| vec![json!({})], run: run_blinding_reuse, min_counts: &[("reused_blinding_ok", 36)] },
      Check { name: "blinding-entropy", rule: "E-env: scripted 64-byte entropy answer for Client::blind (2 inputs): the same answer gives the same blinded request (also after another request in between); each of 48 single-bit variants in the first 16 bytes gives a new blinded request, pairwise distinct (a blinding factor drawn from fewer than 128 bits of entropy repeats after 2^k requests, far beyond any repetition count)", gen: |_| vec![json!({})], run: run_blinding_entropy, min_counts: &[("entropy_variants_distinct", 96), ("replayed_entropy_gives_same_request", 2)] },
      Check {
        name: "unregistered-punctures",
        rule: "a server publishing the tags {0,1,2}: punctures of tags it never published (5 in a row; 6 spread over the tree; 3 neighbours; mixed with one published tag), more of them than it has published tags: after every puncture every live published tag still finalises to its original output, with and without proof",
        gen: |_| (0..4u64).map(|o| json!({"order": o})).collect(),
        run: run_unregistered_punctures,
        min_counts: &[("stable_outputs", 80)],
      },
      Check { name: "repeated-requests", rule: "300 consecutive requests for two alternating inputs on one thread under fresh entropy: all blinded points pairwise distinct", gen: |_| vec![json!({})], run: run_freshness, min_counts: &[("fresh_requests", 300)] },
      Check {
        name: "finalize-sensitivity",
        rule: "Client::finalize for EVERY input length 0..=320: written into a buffer that held 0xff / the previous output / pseudo-random bytes it equals the output written into a zeroed buffer; the output changes when any single byte of the unblinded point, the tag, any input byte (stride 7 above 64 bytes) or the input length changes (pairwise distinct outputs per length)",
        gen: |_| (0..16u64).map(|i| json!({"lo": i * 20, "hi": i * 20 + 20 + (i == 15) as u64})).collect(),
        run: run_finalize,
        min_counts: &[("evaluations", 10_000)],
      },
      Check {
        name: "key-sync-import",
        rule: "state of a leader (fresh / one puncture) imported into a fresh replica and into a replica of ANOTHER key that has punctured more tags: every tag, verifiable and not, gives the leader's output or is refused by both",
        gen: |_| vec![json!({})],
        run: run_foreign_import,
        min_counts: &[("synced_outputs_equal", 10)],
      },
      Check { name: "cross-server", rule: "4 independently keyed servers x 2 tags x 6 inputs: all finalised outputs distinct", gen: |_| vec![json!({})], run: run_cross_server, min_counts: &[("distinct_outputs", 40)] },
    ],
  }
}
