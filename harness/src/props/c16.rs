//! C16 — ADSS sharing is deterministic up to the share point; recovery rebuilds the sharing.
use crate::mc::*;
use crate::refmodel as rm;
use crate::sut::*;
use adss::{Commune, Share};
use num_bigint::BigUint;
use serde_json::{json, Value};
use strobe_rs::{SecParam, Strobe};

fn lens() -> Vec<usize> {
  vec![0, 1, 15, 16, 17, 165, 166, 167, 100_000]
}
fn share_of(c: &Commune) -> Result<Share, String> {
  guard(|| c.clone().share().map_err(|e| e.to_string())).unwrap_or_else(|p| Err(format!("panic: {}", p)))
}
fn rec(shares: &[Share]) -> Result<Result<Commune, String>, String> {
  guard(|| adss::recover(shares).map_err(|e| e.to_string()))
}

fn run_cfg(cx: &mut CaseCx, case: &Value) {
  let t = case["t"].as_u64().unwrap() as u32;
  let ml = case["ml"].as_u64().unwrap() as usize;
  let rl = case["rl"].as_u64().unwrap() as usize;
  let content = case["content"].as_u64().unwrap();
  // content 0: independent pseudo-random bytes; 1: all-zero message, all-0xff coins; 2: coins EQUAL to the
  // message (the two inputs alias); 3: coins = the message reversed
  let m = if content == 1 { vec![0u8; ml] } else { prbytes(ml as u64 + 1, ml) };
  let r = match content {
    0 => prbytes(rl as u64 + 77, rl),
    1 => vec![0xffu8; rl],
    2 => m.iter().cycle().take(rl).copied().collect(),
    _ => m.iter().rev().cycle().take(rl).copied().collect(),
  };
  let k = t as usize + 2;
  let d = |extra: Value| json!({"t": t, "message_len": ml, "coins_len": rl, "content": content, "detail": extra});
  // k INDEPENDENT invocations of the same sharing
  let mut shares: Vec<Share> = vec![];
  for i in 0..k {
    getrandom::verif::set_group(i as u32 + 1);
    match share_of(&Commune::new(t, m.clone(), r.clone(), None)) {
      Ok(s) => shares.push(s),
      Err(e) => {
        cx.viol("C16/share-failed", format!("share() failed: {}", e), d(json!(null)));
        return;
      }
    }
  }
  cx.nontrivial(fnv_str(&case.to_string()));
  let parsed: Vec<rm::AdssShare> = match shares.iter().map(|s| rm::parse_adss(&s.to_bytes())).collect::<Option<Vec<_>>>() {
    Some(p) => p,
    None => {
      cx.viol("C16/share-layout", "a share does not parse per the documented layout", d(json!(null)));
      return;
    }
  };
  // everything except the evaluation point is a deterministic function of (threshold, message, coins)
  cx.eval();
  for (i, p) in parsed.iter().enumerate().skip(1) {
    for (name, same) in [("threshold", p.threshold == parsed[0].threshold), ("encrypted message C", p.c == parsed[0].c), ("encrypted coins D", p.d == parsed[0].d), ("tag J", p.j == parsed[0].j), ("number of y values", p.s.y.len() == parsed[0].s.y.len())] {
      if !same {
        cx.viol(format!("C16/not-deterministic/{}", name.split(' ').next().unwrap()), format!("independent share() calls of one sharing differ in field {}", name), d(json!({"share": i, "field": name})));
      }
    }
  }
  if parsed[0].threshold != t || parsed[0].c.len() != ml || parsed[0].d.len() != rl {
    cx.viol("C16/share-shape", "threshold / ciphertext lengths in the share do not match the inputs", d(json!(null)));
  }
  // the Shamir parts are points of ONE polynomial of degree <= t-1, with pairwise distinct x
  let xs: Vec<BigUint> = parsed.iter().map(|p| p.s.x.clone()).collect();
  let mut sx = xs.clone();
  sx.sort();
  sx.dedup();
  cx.eval();
  if sx.len() != k {
    cx.viol("C16/points-not-distinct", "independent share() calls under fresh entropy reuse an evaluation point", d(json!(null)));
    return;
  }
  if t >= 1 && t <= 8 && parsed.iter().all(|p| p.s.y.len() == 1) {
    let pts: Vec<(BigUint, BigUint)> = parsed.iter().map(|p| (p.s.x.clone(), p.s.y[0].clone())).collect();
    let co = rm::interpolate_coeffs(&pts[..t as usize]);
    for e in &pts[t as usize..] {
      if rm::horner(&co, &e.0) != e.1 {
        cx.viol("C16/not-one-polynomial", "shares of independent invocations do not lie on one polynomial of degree t-1", d(json!(null)));
      }
    }
  }
  // every selection: recovers exactly M iff >= t distinct (t = 0 never recovers)
  let mut judge = |cx: &mut CaseCx, sel: &[usize]| {
    if sel.is_empty() {
      return;
    }
    let sh: Vec<Share> = sel.iter().map(|&i| shares[i].clone()).collect();
    let res = rec(&sh);
    if sel.len() <= t as usize + 1 && ml <= 200 {
      // the same shares behind lazy iterator adapters
      let lazy = guard(|| adss::recover(sh.iter().filter(|_| true)).map(|c| c.get_message()).map_err(|e| e.to_string()));
      let lazy2 = guard(|| adss::recover(sh.iter().skip_while(|_| false).chain(std::iter::empty())).map(|c| c.get_message()).map_err(|e| e.to_string()));
      cx.eval();
      let r0 = res.as_ref().map(|r| r.as_ref().map(|c| c.get_message()).ok());
      if lazy.as_ref().map(|r| r.clone().ok()) != r0 || lazy2.as_ref().map(|r| r.clone().ok()) != r0 {
        cx.viol("C16/recover-depends-on-iterator-shape", "recover gives a different result for the same shares handed over behind filter / skip_while / chain adapters", d(json!({"sel": sel})));
      }
    }
    cx.eval();
    cx.count("states", 1);
    cx.count("transitions", 1);
    let dist = super::c01::distinct_x(&xs, sel);
    match res {
      Ok(Ok(c)) => {
        if t == 0 {
          cx.viol("C16/threshold-0-recovers", "recover succeeded for a sharing with threshold 0", d(json!({"sel": sel})));
        } else if dist < t as usize {
          cx.viol("C16/recovered-below-threshold", format!("recover succeeded with {} < t distinct shares", dist), d(json!({"sel": sel})));
        } else if c.get_message() != m {
          cx.viol("C16/wrong-message", "recover returned a different message", d(json!({"sel": sel})));
        } else {
          cx.count("ok", 1);
        }
      }
      Ok(Err(e)) => {
        if t >= 1 && dist >= t as usize {
          cx.viol("C16/recover-failed", format!("recover failed on {} >= t = {} distinct shares of independent invocations: {}", dist, t, e), d(json!({"sel": sel})));
        } else {
          cx.count("err", 1);
        }
      }
      Err(p) => cx.viol("C16/recover-panicked", p, d(json!({"sel": sel}))),
    }
  };
  if t <= 3 {
    for_each_seq(k, k, |sel| judge(cx, sel));
  } else {
    for sel in structured_selections(k, t as usize).into_iter().take(12) {
      judge(cx, &sel);
    }
  }
  // re-sharing from the recovered value: new shares combine with the original ones
  if t >= 1 {
    if let Ok(Ok(c)) = rec(&shares[..t as usize]) {
      let mut newsh: Vec<Share> = vec![];
      for i in 0..(t as usize).min(4) {
        getrandom::verif::set_group(100 + i as u32);
        match share_of(&c) {
          Ok(s) => newsh.push(s),
          Err(e) => {
            cx.viol("C16/reshare-failed", e, d(json!(null)));
            return;
          }
        }
      }
      let pn = newsh.iter().filter_map(|s| rm::parse_adss(&s.to_bytes())).collect::<Vec<_>>();
      for p in &pn {
        cx.eval();
        if p.c != parsed[0].c || p.d != parsed[0].d || p.j != parsed[0].j || p.threshold != parsed[0].threshold {
          cx.viol("C16/recovered-sharing-differs", "a share made from the recovered sharing differs from the original shares in a deterministic field (the recovered sharing is not the original one)", d(json!(null)));
          break;
        }
      }
      // every t-subset of (old ∪ new) for small t; for large t: one mixed selection per new share
      let mut union: Vec<Share> = shares[..(t as usize + 1).min(shares.len())].to_vec();
      union.extend(newsh.iter().cloned());
      if t <= 3 {
        for_each_subset(union.len(), t as usize, |sel| {
          let sh: Vec<Share> = sel.iter().map(|&i| union[i].clone()).collect();
          cx.eval();
          match rec(&sh) {
            Ok(Ok(c2)) if c2.get_message() == m => cx.count("mixed_old_new_ok", 1),
            other => cx.viol("C16/old-and-new-shares-do-not-combine", format!("t shares mixing original shares and shares made from the recovered sharing do not recover the message: {:?}", other.map(|r| r.map(|c| hexs(&c.get_message())))), d(json!({"sel": sel, "old_count": (t as usize + 1).min(shares.len())}))),
          }
        });
      } else {
        let mut sh: Vec<Share> = shares[..t as usize - 1].to_vec();
        sh.insert(t as usize / 2, newsh[0].clone());
        cx.eval();
        match rec(&sh) {
          Ok(Ok(c2)) if c2.get_message() == m => cx.count("mixed_old_new_ok", 1),
          other => cx.viol("C16/old-and-new-shares-do-not-combine", format!("{:?}", other.map(|r| r.map(|_| ()))), d(json!(null))),
        }
      }
    }
  }
  // replayed entropy => byte-identical share
  if k >= 2 {
    getrandom::verif::set_script(&getrandom::verif::group_bytes(2));
    cx.eval();
    match share_of(&Commune::new(t, m.clone(), r.clone(), None)) {
      Ok(s) => {
        if s.to_bytes() == shares[1].to_bytes() {
          cx.count("replay_identical", 1);
        } else {
          cx.viol("C16/not-deterministic/replay", "with identical entropy, share() of the same sharing is not byte-identical", d(json!(null)));
        }
      }
      Err(e) => cx.viol("C16/share-failed", e, d(json!(null))),
    }
    getrandom::verif::clear_script();
  }
  cx.outcome(format!("t={}", t));
  cx.sample(json!({"t": t, "message_len": ml, "coins_len": rl, "shares": k, "share_len": shares[0].to_bytes().len()}));
}



/// every (message length, coin length) pair of a triangle: share and recover

/// Mixed batches: shares of two sharings A and B (thresholds incl. 0) in every sequence up to length 4.
/// Ok(m) is only allowed when m is the message of a sharing with threshold >= 1 that contributes at least
/// threshold-many distinct shares; a threshold-0 sharing never recovers, whatever travels with it.
fn run_mixed_batches(cx: &mut CaseCx, case: &Value) {
  let ta = case["ta"].as_u64().unwrap() as u32;
  let tb = case["tb"].as_u64().unwrap() as u32;
  let (ma, ra) = (b"message of sharing A".to_vec(), b"coins A".to_vec());
  let (mb, rb) = (b"B's message".to_vec(), prbytes(0xB0B, 32));
  let mut sym: Vec<(char, usize, Share)> = vec![];
  for (who, t, m, r) in [('A', ta, &ma, &ra), ('B', tb, &mb, &rb)] {
    for i in 0..3usize {
      getrandom::verif::set_group(if who == 'A' { 1 } else { 50 } + i as u32);
      match share_of(&Commune::new(t, m.clone(), r.clone(), None)) {
        Ok(s) => sym.push((who, i, s)),
        Err(e) => {
          cx.viol("C16/share-failed", format!("share() failed: {}", e), json!({"t": t}));
          return;
        }
      }
    }
  }
  for_each_seq(sym.len(), 4, |seq| {
    if seq.is_empty() {
      return;
    }
    let batch: Vec<Share> = seq.iter().map(|&k| sym[k].2.clone()).collect();
    let names: Vec<String> = seq.iter().map(|&k| format!("{}{}", sym[k].0, sym[k].1)).collect();
    let distinct = |who: char| {
      let mut v: Vec<usize> = seq.iter().filter(|&&k| sym[k].0 == who).map(|&k| sym[k].1).collect();
      v.sort();
      v.dedup();
      v.len() as u32
    };
    let a_reaches = ta >= 1 && distinct('A') >= ta;
    let b_reaches = tb >= 1 && distinct('B') >= tb;
    cx.eval();
    cx.count("states", 1);
    cx.count("transitions", 1);
    cx.nontrivial(fnv_str(&format!("{}|{}|{:?}", ta, tb, seq)));
    let d = || json!({"threshold_A": ta, "threshold_B": tb, "batch": names});
    match rec(&batch) {
      Ok(Ok(c)) => {
        let m = c.get_message();
        if m == ma && !a_reaches {
          cx.viol(if ta == 0 { "C16/threshold-zero-recovers/mixed-batch" } else { "C16/recovered-below-threshold/mixed-batch" }, format!("the batch {:?} recovers sharing A (threshold {}) although it holds only {} distinct share(s) of A{}", names, ta, distinct('A'), if ta == 0 { " - a threshold-0 sharing never recovers" } else { "" }), d());
        } else if m == mb && !b_reaches {
          cx.viol(if tb == 0 { "C16/threshold-zero-recovers/mixed-batch" } else { "C16/recovered-below-threshold/mixed-batch" }, format!("the batch {:?} recovers sharing B (threshold {}) although it holds only {} distinct share(s) of B", names, tb, distinct('B')), d());
        } else if m != ma && m != mb {
          cx.viol("C16/wrong-message/mixed-batch", format!("the batch {:?} recovers a message that belongs to neither sharing", names), d());
        } else {
          cx.count("mixed_recovered", 1);
        }
      }
      Ok(Err(_)) => cx.count("mixed_rejected", 1),
      Err(p) => cx.viol("C16/recover-panicked", p, d()),
    }
  });
  cx.outcome(format!("ta={} tb={}", ta, tb));
}


/// boundary search on an internal value at the adss level: sharings whose 16-byte sharing key K (the constant
/// term, interpolated from t shares) has a 0x00 / 0xff boundary byte or a zero pair must recover like any other
fn run_boundary_keys(cx: &mut CaseCx, case: &Value) {
  let t = case["t"].as_u64().unwrap() as u32;
  let lo = case["lo"].as_u64().unwrap();
  let m = b"boundary key message".to_vec();
  let mut found = 0u64;
  for i in lo..lo + 500 {
    let r = format!("coins-{}", i).into_bytes();
    let n = t as usize + 1;
    let mut shares: Vec<Share> = vec![];
    for k in 0..n {
      getrandom::verif::set_group(k as u32 + 1);
      match share_of(&Commune::new(t, m.clone(), r.clone(), None)) {
        Ok(s) => shares.push(s),
        Err(_) => break,
      }
    }
    if shares.len() != n {
      continue;
    }
    let parsed: Vec<rm::AdssShare> = shares.iter().filter_map(|s| rm::parse_adss(&s.to_bytes())).collect();
    if parsed.len() != n || parsed.iter().any(|p| p.s.y.len() != 1) {
      continue;
    }
    let pts: Vec<(BigUint, BigUint)> = parsed.iter().take(t as usize).map(|p| (p.s.x.clone(), p.s.y[0].clone())).collect();
    let k = rm::le24(&rm::lagrange_at_zero(&pts))[..16].to_vec();
    cx.count("keys_examined", 1);
    if !(k[15] == 0 || k[0] == 0 || k[15] == 0xff || k[0] == 0xff || k[8] == 0 || k.windows(2).any(|w| w == [0, 0])) {
      continue;
    }
    found += 1;
    cx.nontrivial(fnv(&r) ^ t as u64);
    for sel in [(0..t as usize).collect::<Vec<_>>(), (0..n).rev().collect(), (1..n).collect()] {
      let batch: Vec<Share> = sel.iter().map(|&j| shares[j].clone()).collect();
      cx.eval();
      cx.count("states", 1);
      cx.count("transitions", 1);
      match rec(&batch) {
        Ok(Ok(c)) if c.get_message() == m => cx.count("boundary_recovered", 1),
        other => {
          cx.viol("C16/recover-failed/boundary-key", format!("t={}: {} distinct shares of a sharing whose key K = {} has a zero / 0xff boundary byte do not recover the message: {:?}", t, sel.len(), hex(&k), other.map(|r| r.map(|c| hexs(&c.get_message())))), json!({"t": t, "coins": String::from_utf8_lossy(&r), "sharing_key": hex(&k)}));
          return;
        }
      }
    }
  }
  cx.count("boundary_keys_found", found);
  cx.outcome("boundary keys recover");
}


/// ONE sharing object used many times: `clone().share()` 300 times (each clone dropped - and wiped - at once),
/// then the original itself; clones taken before and after, moved to another thread: every share has the same
/// deterministic fields and shares from far-apart calls recover the message
fn run_object_lifecycle(cx: &mut CaseCx, case: &Value) {
  let t = case["t"].as_u64().unwrap() as u32;
  let (m, r) = (prbytes(0x0B1, 40), prbytes(0x0B2, 24));
  let c = Commune::new(t, m.clone(), r.clone(), None);
  let early_clone = c.clone();
  let mut shares: Vec<Share> = vec![];
  for i in 0..300u32 {
    getrandom::verif::set_group(i + 1);
    match share_of(&c) {
      Ok(s) => shares.push(s),
      Err(e) => {
        cx.viol("C16/share-failed", format!("share number {} from one sharing object failed: {}", i + 1, e), json!({"t": t}));
        return;
      }
    }
  }
  // the same sharing built from buffers with SPARE CAPACITY, shared directly (no clone in between): the value of
  // a Vec is its contents, not its allocation
  {
    let mut m2 = Vec::with_capacity(m.len() + 100);
    m2.extend_from_slice(&m);
    let mut r2 = Vec::with_capacity(r.len() * 2 + 7);
    r2.extend_from_slice(&r);
    getrandom::verif::set_group(399);
    match guard(|| Commune::new(t, m2, r2, None).share().map_err(|e| e.to_string())) {
      Ok(Ok(s)) => shares.push(s),
      other => {
        cx.viol("C16/share-failed", format!("share() on a sharing built from buffers with spare capacity failed: {:?}", other.map(|r| r.map(|_| ()))), json!({"t": t}));
        return;
      }
    }
  }
  let late_clone = c.clone();
  drop(early_clone.clone()); // a clone of a clone, dropped
  getrandom::verif::set_group(400);
  let from_early = share_of(&early_clone);
  getrandom::verif::set_group(401);
  let from_late = std::thread::scope(|s| s.spawn(|| { getrandom::verif::reset(0xC16); share_of(&late_clone) }).join().unwrap_or(Err("thread".into())));
  getrandom::verif::set_group(402);
  let from_original = guard(|| c.share().map_err(|e| e.to_string())).unwrap_or_else(|p| Err(p));
  for (who, s) in [("a clone taken before the 300 calls", from_early), ("a clone taken afterwards, used on another thread", from_late), ("the original object itself, last", from_original)] {
    match s {
      Ok(s) => shares.push(s),
      Err(e) => {
        cx.viol("C16/share-failed", format!("share() on {} failed: {}", who, e), json!({"t": t}));
        return;
      }
    }
  }
  let parsed: Vec<rm::AdssShare> = shares.iter().filter_map(|s| rm::parse_adss(&s.to_bytes())).collect();
  if parsed.len() != shares.len() {
    cx.viol("C16/share-layout", "a share does not parse per the documented layout", json!({"t": t}));
    return;
  }
  for (i, p) in parsed.iter().enumerate() {
    cx.eval();
    if p.threshold != parsed[0].threshold || p.c != parsed[0].c || p.d != parsed[0].d || p.j != parsed[0].j {
      cx.viol("C16/not-deterministic/object-lifecycle", format!("share number {} of one sharing object (304 in all: 300 from clones dropped at once, one from a sharing built from buffers with spare capacity, then an early clone, a late clone on another thread, the original) differs from the first in its deterministic fields", i + 1), json!({"t": t, "share_number": i + 1}));
      return;
    }
  }
  for start in [0usize, 1, 150, 255, 256, 299, 300, 301] {
    let sel: Vec<Share> = (0..t as usize).map(|k| shares[(start + k * 59) % shares.len()].clone()).collect();
    cx.eval();
    cx.count("states", 1);
    cx.count("transitions", 1);
    match rec(&sel) {
      Ok(Ok(cm)) if cm.get_message() == m => cx.count("lifecycle_recovered", 1),
      other => {
        cx.viol("C16/recover-failed/object-lifecycle", format!("shares number {}.. (stride 59) of one sharing object do not recover the message: {:?}", start + 1, other.map(|r| r.map(|c| hexs(&c.get_message())))), json!({"t": t, "first": start + 1}));
        return;
      }
    }
  }
  cx.nontrivial(t as u64);
  cx.outcome(format!("t={}", t));
}

fn run_length_square(cx: &mut CaseCx, case: &Value) {
  let ml = case["ml"].as_u64().unwrap() as usize;
  let t = 2u32;
  for rl in 0..=(340usize.saturating_sub(ml)).min(200) {
    let m = prbytes(ml as u64 * 7 + 1, ml);
    let r = prbytes(rl as u64 * 13 + 2, rl);
    let c = Commune::new(t, m.clone(), r.clone(), None);
    let s1 = share_of(&c);
    let s2 = share_of(&Commune::new(t, m.clone(), r.clone(), None));
    cx.eval();
    cx.count("states", 1);
    cx.count("transitions", 1);
    cx.nontrivial(((ml as u64) << 16) | rl as u64);
    match (s1, s2) {
      (Ok(a), Ok(b)) => match rec(&[a, b]) {
        Ok(Ok(c2)) if c2.get_message() == m => cx.count("ok", 1),
        other => {
          cx.viol("C16/recover-failed", format!("message of {} bytes and coins of {} bytes (sum {}): two shares of independent invocations do not recover: {:?}", ml, rl, ml + rl, other.map(|r| r.map(|_| ()))), json!({"t": t, "message_len": ml, "coins_len": rl}));
          return;
        }
      },
      _ => cx.viol("C16/share-failed", "share failed", json!({"message_len": ml, "coins_len": rl})),
    }
  }
}

/// shares at crafted evaluation points (129-bit field: x and x + 2^128 are different points)
fn run_crafted_points(cx: &mut CaseCx, case: &Value) {
  let t = case["t"].as_u64().unwrap() as u32;
  let m = prbytes(31, 32);
  let r = prbytes(32, 32);
  let pts = ["7", "340282366920938463463374607431768211463", "1", "340282366920938463463374607431768211457", "340282366920938463463374607431768223906", "12450", "18446744073709551616", "340282366920938463463374607431768211456"];
  let mut shares: Vec<Share> = vec![];
  let mut xs: Vec<BigUint> = vec![];
  for p in pts.iter() {
    apply_answer(&Ans::Craft(p.to_string()));
    let s = share_of(&Commune::new(t, m.clone(), r.clone(), None));
    getrandom::verif::clear_script();
    if let Ok(s) = s {
      if let Some(x) = rm::parse_adss(&s.to_bytes()).map(|p| p.s.x) {
        if x.to_string() == *p {
          shares.push(s);
          xs.push(x);
          continue;
        }
      }
    }
    cx.count("craft_miss", 1);
  }
  if shares.len() < t as usize + 1 {
    cx.note("crafted entropy did not produce the intended points (sampler changed?): sub-check only counted");
    return;
  }
  cx.count("crafted_shares", shares.len() as u64);
  // every t-subset and every ordered pair-with-duplicate: distinct points (also those equal mod 2^128) recover
  for_each_subset(shares.len(), t as usize, |sel| {
    let sh: Vec<Share> = sel.iter().map(|&i| shares[i].clone()).collect();
    cx.eval();
    cx.count("states", 1);
    cx.count("transitions", 1);
    cx.nontrivial(fnv_str(&format!("{}|{:?}", t, sel)));
    match rec(&sh) {
      Ok(Ok(c)) if c.get_message() == m => cx.count("ok", 1),
      other => cx.viol("C16/recover-failed", format!("t={} shares at the distinct points {:?} do not recover: {:?}", t, sel.iter().map(|&i| xs[i].to_string()).collect::<Vec<_>>(), other.map(|r| r.map(|_| ()))), json!({"t": t, "points": sel.iter().map(|&i| xs[i].to_string()).collect::<Vec<_>>()})),
    }
  });
  cx.outcome("crafted points");
}

fn run_transcripts(cx: &mut CaseCx, case: &Value) {
  let t = case["t"].as_u64().unwrap() as u32;
  let m = prbytes(5, 32);
  let r = prbytes(6, 32);
  let mk = |which: usize| -> Option<Strobe> {
    match which {
      0 => None,
      1 => Some(Strobe::new(b"adss", SecParam::B128)).map(|mut s| {
        s.ad(b"context", false);
        s
      }),
      2 => Some(Strobe::new(b"other protocol", SecParam::B128)),
      _ => Some(Strobe::new(b"adss", SecParam::B128)).map(|mut s| {
        s.meta_ad(b"x", false);
        s
      }),
    }
  };
  // the DEFAULT transcript passed explicitly is the default transcript: its shares have the same deterministic
  // fields as shares made with `None`, combine with them, and recover
  {
    let explicit = Some(Strobe::new(b"adss", SecParam::B128));
    let mut v: Vec<Share> = vec![];
    for i in 0..t as usize + 1 {
      getrandom::verif::set_group(700 + i as u32);
      let tr = if i % 2 == 0 { explicit.clone() } else { None };
      if let Ok(s) = share_of(&Commune::new(t, m.clone(), r.clone(), tr)) {
        v.push(s);
      }
    }
    cx.eval();
    if t >= 1 && v.len() == t as usize + 1 {
      let fields: Vec<Option<rm::AdssShare>> = v.iter().map(|s| rm::parse_adss(&s.to_bytes())).collect();
      let same = fields.iter().all(|f| matches!((f, &fields[0]), (Some(a), Some(b)) if a.c == b.c && a.d == b.d && a.j == b.j));
      let rec_ok = matches!(rec(&v[..t as usize]), Ok(Ok(c)) if c.get_message() == m) && matches!(rec(&v[1..]), Ok(Ok(c)) if c.get_message() == m);
      if !same || !rec_ok {
        cx.viol("C16/explicit-default-transcript-differs", format!("shares made with the default transcript passed explicitly (Some(Strobe::new(b\"adss\"))) {} shares made with None (t={})", if !same { "differ in their deterministic fields from" } else { "do not combine with" }, t), json!({"t": t}));
        return;
      }
      cx.count("explicit_default_transcript_ok", 1);
    }
  }
  let n = t as usize + 1;
  let mut pools: Vec<Vec<Share>> = vec![];
  for w in 0..4 {
    let mut v = vec![];
    for _ in 0..n {
      match share_of(&Commune::new(t, m.clone(), r.clone(), mk(w))) {
        Ok(s) => v.push(s),
        Err(e) => {
          cx.viol("C16/share-failed", e, json!({"transcript": w}));
          return;
        }
      }
    }
    pools.push(v);
  }
  // symbols: (transcript, index); every sequence up to length t+1; Ok only if the FIRST t distinct are... no:
  // recover authenticates under the default transcript, so any collection whose first share was made
  // under a custom transcript must fail, and so must any whose interpolated points mix transcripts
  let mut sym: Vec<(usize, usize)> = vec![];
  for w in 0..4 {
    for i in 0..n {
      sym.push((w, i));
    }
  }
  for_each_seq(sym.len(), (t as usize + 1).min(3), |seq| {
    if seq.is_empty() {
      return;
    }
    let sh: Vec<Share> = seq.iter().map(|&k| pools[sym[k].0][sym[k].1].clone()).collect();
    let custom = seq.iter().filter(|&&k| sym[k].0 != 0).count();
    if custom == 0 {
      return;
    }
    cx.eval();
    cx.nontrivial(fnv_str(&format!("{}|{:?}", t, seq)));
    // which shares get interpolated: the first t distinct ones
    let mut first_t: Vec<usize> = vec![];
    for &k in seq {
      if !first_t.contains(&k) && first_t.len() < t as usize {
        first_t.push(k);
      }
    }
    let default_only = sym[seq[0]].0 == 0 && first_t.len() == t as usize && first_t.iter().all(|&k| sym[k].0 == 0);
    match rec(&sh) {
      Ok(Err(_)) => cx.count("rejected", 1),
      Ok(Ok(c)) => {
        if default_only && c.get_message() == m {
          cx.count("ok_custom_share_not_in_effect", 1);
        } else {
          cx.viol("C16/custom-transcript-accepted", "recover accepted a collection in which shares created under a different authenticated transcript are in effect", json!({"t": t, "collection": seq.iter().map(|&k| format!("transcript{}#{}", sym[k].0, sym[k].1)).collect::<Vec<_>>()}));
        }
      }
      Err(p) => cx.viol("C16/recover-panicked", p, json!({"t": t})),
    }
  });
  cx.outcome(format!("transcripts t={}", t));
}

pub fn spec() -> PropSpec {
  PropSpec {
    id: "C16",
    level: "model_checking",
    assumptions: vec![
      "lengths beyond 100000 bytes and thresholds beyond 128 are not covered; for t > 3 the selection family is structured",
      "fresh entropy per share() call is the scripted default stream; replayed entropy must give a byte-identical share",
    ],
    thorough_budget_s: 1200,
    checks: vec![
      Check {
        name: "sharings",
        rule: "t in {0,1,2,3,(8),128} x |M|,|R| in {0,1,15,16,17,165,166,167,100000} (quick: diagonal, extremes and empty-vs-nonempty crosses; thorough: full square) x 2 contents (+ coins identical to the message, coins = message reversed, on the diagonal); t+2 independent share() calls: all fields but the point byte-equal, points on one polynomial and distinct, EVERY selection sequence recovers M iff >= t distinct (t=0 never), shares made from the recovered sharing equal the original in every deterministic field and every t-subset of old+new recovers M, replayed entropy gives an identical share",
        gen: |tier| {
          let mut v = vec![];
          let ls = lens();
          for t in if tier.thorough() { vec![0u64, 1, 2, 3, 8, 128] } else { vec![0u64, 1, 2, 3, 128] } {
            for (a, &ml) in ls.iter().enumerate() {
              for (b, &rl) in ls.iter().enumerate() {
                let diag = a == b || a == 0 || b == 0 || a == ls.len() - 1 || b == ls.len() - 1;
                if !tier.thorough() && !(diag && (t <= 3 || a == b)) {
                  continue;
                }
                if t == 128 && (ml > 200 || rl > 200) && !(a == b) {
                  continue;
                }
                for content in 0..4u64 {
                  if content == 1 && !(a == b || tier.thorough()) {
                    continue;
                  }
                  // coins equal to / derived from the message: equal lengths (the coins ARE the message) and ml > 0
                  if content >= 2 && !(a == b && ml > 0 && ml <= 200 && t <= 3) {
                    continue;
                  }
                  v.push(json!({"t": t, "ml": ml, "rl": rl, "content": content}));
                }
              }
            }
          }
          v
        },
        run: run_cfg,
        min_counts: &[("ok", 1000), ("err", 100), ("mixed_old_new_ok", 100), ("replay_identical", 50)],
      },
      Check {
        name: "mixed-batches",
        rule: "two sharings A, B with thresholds (tA, tB) over {0,1,2,3} x {0,1,2,3,5}, three independent shares each: EVERY sequence of length 1..4 over the six shares handed to recover: Ok(m) only if m is the message of a sharing with threshold >= 1 contributing >= threshold distinct shares; in particular a threshold-0 sharing never recovers whatever travels in the same batch",
        gen: |_| {
          let mut v = vec![];
          for ta in [0u64, 1, 2, 3] {
            for tb in [0u64, 1, 2, 3, 5] {
              v.push(json!({"ta": ta, "tb": tb}));
            }
          }
          v
        },
        run: run_mixed_batches,
        min_counts: &[("mixed_rejected", 5000), ("mixed_recovered", 100)],
      },
      Check {
        name: "boundary-keys",
        rule: "boundary search on an internal value: of 2000 sharings per threshold (t in {1,3}; coins 'coins-<i>') those whose 16-byte key K has a 0x00 / 0xff first, middle or last byte or a zero pair (about 1 in 45): the first t, all t+1 reversed and the last t independent shares recover the message",
        gen: |_| {
          let mut v = vec![];
          for t in [1u64, 3] {
            for c in 0..4u64 {
              v.push(json!({"t": t, "lo": c * 500}));
            }
          }
          v
        },
        run: run_boundary_keys,
        min_counts: &[("boundary_keys_found", 30), ("boundary_recovered", 90)],
      },
      Check {
        name: "object-lifecycle",
        rule: "ONE Commune object (t in {1,2,3,5}): 300 x clone().share() (each clone dropped and wiped at once), then a clone taken before, a clone taken after (used on another thread) and the original itself: all 303 shares equal in every deterministic field, and t shares from far-apart calls (stride 59, around 150, 256, 300) recover the message",
        gen: |_| [1u64, 2, 3, 5].iter().map(|t| json!({"t": t})).collect(),
        run: run_object_lifecycle,
        min_counts: &[("lifecycle_recovered", 30)],
      },
      Check {
        name: "process-histories",
        rule: "13 fresh processes - 12 with a different first operation each, one in a noisy environment (~75 diagnostic environment variables such as RUST_LOG, ADSS_TRACE, STAR_DEBUG set) - produce, under the same entropy, the byte-identical adss share of a fixed sharing (everything in a share except its evaluation point is a function of (threshold, message, coins); the point is a function of the entropy)",
        gen: |_| vec![json!({})],
        run: |cx, _| crate::probe::process_order_check(cx, "C16", &|l: &str| l.starts_with("adss share") || l.starts_with("tag =") || l.starts_with("report")),
        min_counts: &[("process_histories_agree", 12)],
      },
      Check {
        name: "cross-process",
        rule: "shares produced by one fresh process are recovered by three other fresh processes whose first operation is a recovery (in three consumer orders): the message",
        gen: |_| vec![json!({})],
        run: |cx, _| crate::probe::cross_process_check(cx, "C16", "adss-message"),
        min_counts: &[("cross_process_ok", 3)],
      },
      Check {
        name: "rejection-runs",
        rule: "share() draws its polynomial from a DETERMINISTIC stream (a function of threshold, message and coins) through the sharks dealer: a dealer that gives up after N rejected candidates makes particular triples unshareable (none of which a bounded enumeration of triples would meet: 2^-N each). Decided at the seam: the dealer under a caller-supplied source that offers up to 300 out-of-range candidates in a row never gives up (t in {2,3,5})",
        gen: |_| [2u64, 3, 5].iter().map(|t| json!({"t": t, "prop": "C16"})).collect(),
        run: super::c06::run_rejection_runs,
        min_counts: &[("rejection_runs_survived", 60)],
      },
      Check {
        name: "length-square",
        rule: "EVERY (message length, coin length) pair with message length 0..=200, coin length 0..=200 and sum <= 340 (t = 2): two independent shares recover the message (a cipher/MAC path that depends on the two lengths together)",
        gen: |_| (0..=200u64).map(|ml| json!({"ml": ml})).collect(),
        run: run_length_square,
        min_counts: &[("ok", 30_000)],
      },
      Check {
        name: "crafted-points",
        rule: "E-env: share points scripted to 7, 7+2^128, 1, 1+2^128, p-1, 12450, 2^64, 2^128 (pairs equal modulo 2^128 are distinct field elements): every t-subset (t in 1..3) recovers",
        gen: |_| (1..=3u64).map(|t| json!({"t": t})).collect(),
        run: run_crafted_points,
        min_counts: &[("ok", 50)],
      },
      Check {
        name: "transcripts",
        rule: "shares created under 3 custom authenticated transcripts and under the default one: every sequence (length <= 3) over all of them containing a custom share: recover must fail unless the custom shares are not in effect (first share default and first t distinct all default)",
        gen: |_| (1..=2u64).map(|t| json!({"t": t})).collect(),
        run: run_transcripts,
        min_counts: &[("rejected", 500)],
      },
    ],
  }
}
