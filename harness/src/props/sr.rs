//! stateright 0.31 as a second engine (cross-check): the same real transition functions and
//! invariants wrapped in `stateright::Model`; its verdict and unique-state count must equal the
//! harness BFS's. Violations are latched into the state, so an `always` property decides.
use super::{c10, c14};
use crate::ggmx::*;
use crate::mc::*;
use ppoprf::ggm::GGM;
use ppoprf::PPRF;
use serde_json::{json, Value};
use stateright::{Checker, Model, Property};
use std::hash::{Hash, Hasher};

// ---------------------------------------------------------------- C10: punctured subsets of a domain

#[derive(Clone)]
pub struct GState {
  mask: u32,
  g: GGM,
  path: Vec<u8>,
  bad: Option<String>,
}
impl Hash for GState {
  fn hash<H: Hasher>(&self, h: &mut H) {
    self.mask.hash(h);
    self.bad.is_some().hash(h);
  }
}
impl PartialEq for GState {
  fn eq(&self, o: &Self) -> bool {
    self.mask == o.mask && self.bad.is_some() == o.bad.is_some()
  }
}
impl std::fmt::Debug for GState {
  fn fmt(&self, f: &mut std::fmt::Formatter<'_>) -> std::fmt::Result {
    write!(f, "punctured {:?} bad {:?}", self.path, self.bad)
  }
}
pub struct GModel {
  dom: Vec<u8>,
  g0: GGM,
  baseline: Vec<Option<[u8; 32]>>,
  seed: u64,
}
impl Model for GModel {
  type State = GState;
  type Action = usize;
  fn init_states(&self) -> Vec<GState> {
    vec![GState { mask: 0, g: self.g0.clone(), path: vec![], bad: None }]
  }
  fn actions(&self, _s: &GState, a: &mut Vec<usize>) {
    a.extend(0..self.dom.len());
  }
  fn next_state(&self, s: &GState, i: usize) -> Option<GState> {
    let x = self.dom[i];
    let mut g = s.g.clone();
    let ok = g.puncture(&[x]).is_ok();
    let already = s.mask >> i & 1 == 1;
    if !ok && already {
      return None; // refused re-puncture: no state change
    }
    let mut n = GState { mask: s.mask | 1 << i, g, path: s.path.clone(), bad: s.bad.clone() };
    n.path.push(x);
    if ok == already {
      n.bad = Some(format!("puncture({}) ok={} although already punctured={}", x, ok, already));
      return Some(n);
    }
    let mut sc = CaseCx::new(Tier::Quick, self.seed, "stateright", 0);
    c10::check_state(&mut sc, &n.g, &n.path, &self.baseline, false);
    if let Some(v) = sc.viols.first() {
      n.bad = Some(v.key.clone());
    }
    Some(n)
  }
  fn properties(&self) -> Vec<Property<Self>> {
    vec![Property::always("C10 invariant in every reachable state", |_, s: &GState| s.bad.is_none())]
  }
}

pub fn run_c10(cx: &mut CaseCx, case: &Value) {
  let (dname, dom) = c10::domains().into_iter().nth(case["domain"].as_u64().unwrap() as usize).unwrap();
  let (g0, baseline) = c10::setup_ggm(cx, 1);
  let n = dom.len() as u32;
  let model = GModel { dom: dom.clone(), g0: g0.clone(), baseline: baseline.clone(), seed: cx.seed };
  let threads = std::thread::available_parallelism().map(|n| n.get()).unwrap_or(4);
  let checker = model.checker().threads(threads).spawn_bfs().join();
  let unique = checker.unique_state_count() as u64;
  let generated = checker.state_count() as u64;
  let disc = checker.discovery("C10 invariant in every reachable state");
  cx.count("states", unique);
  cx.count("transitions", generated.saturating_sub(1));
  cx.evals(generated);
  cx.nontrivial(fnv_str(dname));
  if let Some(path) = disc {
    let last = path.last_state().clone();
    cx.viol(format!("C10/stateright/{}", last.bad.clone().unwrap_or_default()), format!("stateright found a reachable state violating the C10 invariant: {:?}", last), json!({"punctured_in_order": last.path, "domain": dname}));
  }
  // the harness BFS on the same domain must see the same state space: 2^n subsets, n*2^(n-1) successful punctures
  let expect_unique = 1u64 << n;
  let expect_generated = (n as u64) * (1u64 << (n - 1)) + 1;
  if cx.viols.is_empty() && (unique != expect_unique || generated != expect_generated) {
    panic!("engine disagreement: stateright explored {} unique / {} generated states, harness BFS model has {} / {}", unique, generated, expect_unique, expect_generated);
  }
  cx.count("engine_agreements", 1);
  cx.outcome(format!("{}: stateright {} unique / {} generated", dname, unique, generated));
  cx.sample(json!({"engine": "stateright 0.31 spawn_bfs", "domain": dname, "unique_states": unique, "generated_states": generated, "threads": threads}));
  let _ = eval_all;
}

// ---------------------------------------------------------------- C14: histories of server instances

#[derive(Clone)]
pub struct SState {
  st: c14::St,
  bad: Option<String>,
}
impl Hash for SState {
  fn hash<H: Hasher>(&self, h: &mut H) {
    c14::key_of(&self.st).hash(h);
    self.bad.is_some().hash(h);
  }
}
impl PartialEq for SState {
  fn eq(&self, o: &Self) -> bool {
    c14::key_of(&self.st) == c14::key_of(&o.st) && self.bad.is_some() == o.bad.is_some()
  }
}
impl std::fmt::Debug for SState {
  fn fmt(&self, f: &mut std::fmt::Formatter<'_>) -> std::fmt::Result {
    write!(f, "{:?} bad {:?}", c14::key_of(&self.st), self.bad)
  }
}
pub struct SModel {
  base: c14::Base,
  seed: u64,
}
impl Model for SModel {
  type State = SState;
  type Action = c14::Act;
  fn init_states(&self) -> Vec<SState> {
    vec![SState { st: c14::St { inst: vec![c14::Inst { s: self.base.initial.clone(), punct: Default::default() }], path: vec![], touched: vec![0] }, bad: None }]
  }
  fn actions(&self, s: &SState, a: &mut Vec<c14::Act>) {
    a.extend(c14::actions(&s.st));
  }
  fn next_state(&self, s: &SState, a: c14::Act) -> Option<SState> {
    let mut sc = CaseCx::new(Tier::Quick, self.seed, "stateright", 0);
    let n = c14::step(&s.st, &a, &mut sc);
    let mut bad = s.bad.clone().or_else(|| sc.viols.first().map(|v| v.key.clone()));
    match n {
      Some(n) => {
        let mut sc2 = CaseCx::new(Tier::Quick, self.seed, "stateright", 0);
        c14::visit(&n, &self.base, &mut sc2);
        bad = bad.or_else(|| sc2.viols.first().map(|v| v.key.clone()));
        Some(SState { st: n, bad })
      }
      None if bad.is_some() && s.bad.is_none() => Some(SState { st: s.st.clone(), bad }),
      None => None,
    }
  }
  fn properties(&self) -> Vec<Property<Self>> {
    vec![Property::always("C14 invariant in every reachable state", |_, s: &SState| s.bad.is_none())]
  }
}
pub fn run_c14(cx: &mut CaseCx, case: &Value) {
  let depth = case["depth"].as_u64().unwrap() as usize;
  let base = c14::setup(cx);
  let model = SModel { base, seed: cx.seed };
  // single-threaded BFS: states are first reached at minimal depth, as in the harness BFS
  let checker = model.checker().threads(1).target_max_depth(depth + 1).spawn_bfs().join();
  let unique = checker.unique_state_count() as u64;
  let generated = checker.state_count() as u64;
  cx.count("states", unique);
  cx.count("transitions", generated.saturating_sub(1));
  cx.evals(generated);
  cx.nontrivial(depth as u64);
  if let Some(path) = checker.discovery("C14 invariant in every reachable state") {
    let last = path.last_state().clone();
    cx.viol(format!("C14/stateright/{}", last.bad.clone().unwrap_or_default()), format!("stateright found a reachable state violating the C14 invariant: {:?}", last), json!({"history": serde_json::to_value(path.into_actions()).unwrap_or(json!(null))}));
  }
  // harness BFS on the same bound
  let mut sc = cx.scratch();
  let b2 = c14::setup(&sc);
  let init = c14::St { inst: vec![c14::Inst { s: b2.initial.clone(), punct: Default::default() }], path: vec![], touched: vec![0] };
  let stats = bfs(
    &mut sc,
    (c14::key_of(&init), init),
    depth,
    |_k, st, sc| c14::actions(st).iter().filter_map(|a| c14::step(st, a, sc)).map(|n| (c14::key_of(&n), n)).collect(),
    |_k, _a, _b, _sc| {},
    |_k, _st, _sc| {},
    |_k, _st| {},
  );
  if cx.viols.is_empty() && sc.viols.is_empty() && stats.states != unique {
    panic!("engine disagreement at depth {}: stateright {} unique states, harness BFS {}", depth, unique, stats.states);
  }
  cx.count("engine_agreements", 1);
  cx.outcome(format!("depth {}: stateright {} unique / {} generated; harness BFS {} states", depth, unique, generated, stats.states));
  cx.sample(json!({"engine": "stateright 0.31 spawn_bfs (1 thread, target_max_depth)", "depth": depth, "unique_states": unique, "generated_states": generated, "harness_bfs_states": stats.states}));
}
