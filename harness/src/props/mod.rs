use crate::mc::PropSpec;
pub mod c07;

pub fn spec(id: &str) -> Option<PropSpec> {
  Some(match id {
    "C07" => c07::spec(),
    _ => return None,
  })
}
