use crate::mc::PropSpec;
pub mod c01;
pub mod c02;
pub mod c03;
pub mod c04;
pub mod c07;

pub fn spec(id: &str) -> Option<PropSpec> {
  Some(match id {
    "C01" => c01::spec(),
    "C02" => c02::spec(),
    "C03" => c03::spec(),
    "C04" => c04::spec(),
    "C07" => c07::spec(),
    _ => return None,
  })
}
