use crate::mc::PropSpec;
pub mod c01;
pub mod c02;
pub mod c03;
pub mod c04;
pub mod c05;
pub mod c06;
pub mod c07;
pub mod c08;
pub mod c09;
pub mod c10;
pub mod c11;
pub mod c12;
pub mod c13;
pub mod c14;
pub mod c15;
pub mod c16;
pub mod c17;
pub mod c18;
pub mod sr;

pub fn spec(id: &str) -> Option<PropSpec> {
  Some(match id {
    "C01" => c01::spec(),
    "C02" => c02::spec(),
    "C03" => c03::spec(),
    "C04" => c04::spec(),
    "C05" => c05::spec(),
    "C06" => c06::spec(),
    "C07" => c07::spec(),
    "C08" => c08::spec(),
    "C09" => c09::spec(),
    "C10" => c10::spec(),
    "C11" => c11::spec(),
    "C12" => c12::spec(),
    "C13" => c13::spec(),
    "C14" => c14::spec(),
    "C15" => c15::spec(),
    "C16" => c16::spec(),
    "C17" => c17::spec(),
    "C18" => c18::spec(),
    _ => return None,
  })
}
