//! C11 — forward security: a punctured key retains nothing that evaluates punctured tags.
//! Same explicit-state exploration as C10, on real `Server` objects, with the invariant on the
//! retained key material (hook) and on the exported / imported key state.
use super::c10::{domains, pset};
use crate::ggmx::*;
use crate::mc::*;
use ppoprf::ppoprf as pp;
use serde_json::{json, Value};
use std::collections::{BTreeMap, HashSet};

pub struct St {
  pub s: pp::Server,
  pub path: Vec<u8>,
}

pub fn export_bytes(s: &pp::Server) -> Result<Vec<u8>, String> {
  guard(|| bincode::serialize(&s.get_private_key()).map_err(|e| e.to_string())).unwrap_or_else(|p| Err(format!("panic: {}", p)))
}
pub fn import_into(target: &mut pp::Server, bytes: &[u8]) -> Result<(), String> {
  let st: pp::ServerKeyState = bincode::deserialize(bytes).map_err(|e| e.to_string())?;
  guard(|| target.set_private_key(st))
}

pub struct Ctx {
  pub baseline: Vec<Option<[u8; 32]>>,
  pub seeds: Option<BTreeMap<Node, [u8; 32]>>,
  pub initial: pp::Server,
}

/// the C11 invariant on one state
pub fn check_state(cx: &mut CaseCx, s: &pp::Server, path: &[u8], c: &Ctx, deep: bool) {
  let p = pset(path);
  let d = |extra: Value| json!({"punctured_in_order": path, "detail": extra});
  // 1. retained nodes through the hook
  let (nodes, _punct) = match hook_nodes(s.verif_pprf()) {
    Ok(x) => x,
    Err(e) => {
      cx.viol("C11/retained-node-malformed", e, d(json!(null)));
      return;
    }
  };
  cx.eval();
  for (n, _) in &nodes {
    if let Some(x) = n.leaves().into_iter().find(|&x| p.has(x)) {
      cx.viol("C11/retained-node-on-punctured-path", format!("the retained key still holds the tree node (depth {}, bits {:#010b}) on the path to the punctured input {}: its seed re-derives the punctured value", n.len, n.bits, x), d(json!({"node_depth": n.len, "node_bits": n.bits, "punctured_input": x})));
      return;
    }
  }
  let mut covered = [0u8; 256];
  for (n, _) in &nodes {
    for x in n.leaves() {
      covered[x as usize] += 1;
    }
  }
  for x in 0..=255u8 {
    if !p.has(x) && covered[x as usize] == 0 {
      cx.viol("C11/unpunctured-input-not-covered", format!("no retained node covers the unpunctured input {}", x), d(json!({"input": x})));
      return;
    }
  }
  if covered.iter().any(|&c| c > 1) {
    cx.count("cover_not_prefix_free", 1);
  }
  let mut ns: Vec<Node> = nodes.iter().map(|n| n.0).collect();
  ns.sort();
  if ns != model_cover(&p) {
    cx.count("cover_not_canonical", 1);
  } else {
    cx.count("cover_canonical", 1);
  }
  // 2. exported state: independent reader, no node on a punctured path, import reproduces the exporter
  let bytes = match export_bytes(s) {
    Ok(b) => b,
    Err(e) => {
      cx.viol("C11/export-failed", e, d(json!(null)));
      return;
    }
  };
  cx.eval();
  match parse_export(&bytes) {
    Some(exp) => {
      cx.count("exports_parsed", 1);
      let mut en: Vec<(Node, Vec<u8>)> = vec![];
      for (b, seed) in &exp.prefixes {
        match Node::from_bools(b) {
          Some(n) => en.push((n, seed.clone())),
          None => cx.viol("C11/export-node-malformed", "exported prefix of length 0 or > 8", d(json!(null))),
        }
      }
      for (n, _) in &en {
        if let Some(x) = n.leaves().into_iter().find(|&x| p.has(x)) {
          cx.viol("C11/exported-node-on-punctured-path", format!("the exported key state holds a node (depth {}) on the path to the punctured input {}", n.len, x), d(json!({"punctured_input": x})));
          return;
        }
      }
      let mut a = en.clone();
      a.sort();
      let mut b2 = nodes.clone();
      b2.sort();
      if a != b2 {
        cx.viol("C11/export-differs-from-retained", "the exported nodes are not the retained nodes", d(json!(null)));
      }
    }
    None => {
      cx.count("exports_unparsable", 1);
      cx.note("the key-state export did not parse with the independent reader (layout changed?): export-level node checks skipped for those states");
    }
  }
  // 3. no forbidden seed anywhere in the serialised state
  if let Some(seeds) = &c.seeds {
    let forbidden: HashSet<[u8; 32]> = path.iter().flat_map(|&x| path_nodes(x)).filter_map(|n| seeds.get(&n).copied()).collect();
    cx.eval();
    for w in bytes.windows(32) {
      let w: [u8; 32] = w.try_into().unwrap();
      if forbidden.contains(&w) {
        cx.viol("C11/forbidden-seed-in-export", "the serialised post-puncture key state contains a seed on the path to a punctured input", d(json!({"seed": hex(&w)})));
        return;
      }
    }
    cx.count("seed_scans", 1);
  }
  if deep {
    // import into a fresh instance and into a follower that already holds the (unpunctured) key
    // followers with a history of their own: the parent state (one puncture behind), and one that has
    // punctured MORE than the exporter (all of the exporter's tags, their siblings and a few others)
    let mut parent = c.initial.clone();
    for &x in path.iter().take(path.len().saturating_sub(1)) {
      let _ = parent.puncture(x);
    }
    let mut ahead = c.initial.clone();
    for &x in path.iter() {
      for y in [x, x ^ 0x80, x ^ 0x40, x ^ 0x01] {
        let _ = ahead.puncture(y);
      }
    }
    for (who, mut target) in [("fresh instance", pp::Server::new(vec![9]).expect("server")), ("follower holding the earlier state", c.initial.clone()), ("follower holding the previous state (one puncture behind)", parent), ("follower that had punctured more tags than the exporter", ahead)] {
      cx.eval();
      if let Err(e) = import_into(&mut target, &bytes) {
        cx.viol("C11/import-failed", format!("import into a {} failed: {}", who, e), d(json!(null)));
        continue;
      }
      let mut tn = hook_nodes(target.verif_pprf()).map(|x| x.0).unwrap_or_default();
      tn.sort();
      let mut sn = nodes.clone();
      sn.sort();
      let tv = eval_all(target.verif_pprf());
      for x in 0..=255u8 {
        if p.has(x) && tv[x as usize].is_some() {
          cx.viol("C11/importer-evaluates-punctured", format!("a {} that imported the post-puncture state can still evaluate the punctured input {}", who, x), d(json!({"importer": who, "input": x})));
          return;
        }
        if !p.has(x) && tv[x as usize] != c.baseline[x as usize] {
          cx.viol("C11/importer-differs", format!("a {} that imported the state evaluates input {} differently", who, x), d(json!({"importer": who, "input": x})));
          return;
        }
      }
      if tn != sn {
        cx.viol("C11/importer-key-material-differs", format!("a {} that imported the state holds different key material than the exporter", who), d(json!({"importer": who})));
      }
      cx.count("imports_checked", 1);
      // the importer goes on puncturing: inputs it had punctured under its OLD key (live again in the adopted
      // state) and an input that was never touched - the puncture must take effect on the adopted key
      let mut again: Vec<u8> = path.iter().flat_map(|&x| [x ^ 0x80, x ^ 0x40, x ^ 0x01]).filter(|y| !p.has(*y)).take(3).collect();
      again.push((0..=255u8).rev().find(|y| !p.has(*y)).unwrap_or(0));
      for y in again {
        if p.has(y) {
          continue;
        }
        let mut t2 = target.clone();
        cx.eval();
        if guard(|| t2.puncture(y).is_ok()) != Ok(true) {
          cx.viol("C11/puncture-failed/after-import", format!("a {} that imported the state cannot puncture the live input {}", who, y), d(json!({"importer": who, "input": y})));
          continue;
        }
        let covered = hook_nodes(t2.verif_pprf()).map(|x| x.0).unwrap_or_default().iter().any(|(n, _)| n.covers(y));
        let mut o = [0u8; 32];
        let evaluates = {
          use ppoprf::PPRF;
          guard(|| t2.verif_pprf().eval(&[y], &mut o).is_ok()) == Ok(true)
        };
        if covered || evaluates {
          cx.viol("C11/retained-node-on-punctured-path/after-import", format!("a {} imported the state and then punctured input {}: the puncture reported success but the key still {} (an input the importer had punctured under its old key is live again in the adopted state and must be puncturable there)", who, y, if evaluates { "evaluates it" } else { "retains a node on its path" }), d(json!({"importer": who, "input": y})));
          return;
        }
        cx.count("importer_punctures_take_effect", 1);
      }
    }
    // through the public evaluation interface as well: a follower that answered for a tag just before it
    // imports the post-puncture state must refuse that tag right afterwards (no per-tag value may survive)
    let (probe, _r) = pp::Client::blind(b"c11 probe");
    for &x in path.iter().rev().take(3) {
      let mut follower = c.initial.clone();
      cx.eval();
      let before = guard(|| follower.eval(&probe, x, false).is_ok());
      if import_into(&mut follower, &bytes).is_err() {
        continue;
      }
      match guard(|| follower.eval(&probe, x, false).is_ok()) {
        Ok(false) => cx.count("follower_refuses_after_import", 1),
        Ok(true) => {
          cx.viol("C11/importer-evaluates-punctured", format!("a follower that evaluated tag {} (ok={:?}) and then imported the state in which {} is punctured still answers for it through Server::eval", x, before, x), d(json!({"input": x, "via": "Server::eval"})));
          return;
        }
        Err(p) => cx.viol("C11/eval-panicked", p, d(json!({"input": x}))),
      }
    }
  }
}

pub fn setup(cx: &mut CaseCx, sub: u64) -> Option<Ctx> {
  setup_with(cx, sub, (0..=255u8).collect())
}
/// `registered`: the tags in the server's public key (punctures of unregistered tags must prune the key just the same)
pub fn setup_with(cx: &mut CaseCx, sub: u64, registered: Vec<u8>) -> Option<Ctx> {
  cx.entropy(sub);
  let s = pp::Server::new(registered).ok()?;
  let baseline = eval_all(s.verif_pprf());
  let seeds = export_bytes(&s).ok().and_then(|b| parse_export(&b)).and_then(|e| all_seeds(&e, &baseline));
  if seeds.is_none() {
    cx.count("seed_replica_unavailable", 1);
    cx.note("the Strobe replica of the tree PRG did not reproduce the leaf values (derivation changed?): forbidden-seed scan skipped, never an alarm");
  } else {
    cx.count("seed_replica_validated", 1);
  }
  Some(Ctx { baseline, seeds, initial: s })
}

fn run_subsets(cx: &mut CaseCx, case: &Value) {
  let (dname, dom) = domains().into_iter().nth(case["domain"].as_u64().unwrap() as usize).unwrap();
  let few = case["registered"].as_str() == Some("few");
  let c = match if few { setup_with(cx, 1, vec![dom[0], dom[dom.len() - 1], 77]) } else { setup(cx, 1) } {
    Some(c) => c,
    None => return,
  };
  let deep_all = dom.len() <= 8 || case["deep"].as_bool().unwrap_or(false);
  let dom2 = dom.clone();
  let mut last: Vec<Vec<u8>> = vec![];
  let stats = bfs(
    cx,
    (0u32, St { s: c.initial.clone(), path: vec![] }),
    dom.len(),
    |mask, st, sc| {
      let mut succ = vec![];
      for (i, &x) in dom.iter().enumerate() {
        if mask >> i & 1 == 1 {
          continue;
        }
        let mut n = st.s.clone();
        sc.eval();
        match guard(|| n.puncture(x).is_ok()) {
          Ok(true) => {
            let mut path = st.path.clone();
            path.push(x);
            succ.push((mask | 1 << i, St { s: n, path }));
          }
          other => sc.viol("C11/puncture-failed", format!("puncture({}) = {:?}", x, other), json!({"punctured_in_order": st.path, "input": x})),
        }
      }
      succ
    },
    |_k, first, dup, sc| {
      // same punctured set through another order: identical exported state, else full invariant again
      sc.eval();
      if export_bytes(&first.s).ok().map(|b| sorted_export(&b)) != export_bytes(&dup.s).ok().map(|b| sorted_export(&b)) {
        sc.count("merge_key_material_differs", 1);
        check_state(sc, &dup.s, &dup.path, &c, false);
      }
    },
    |_k, st, sc| {
      let deep = deep_all || st.path.len() <= 2 || st.path.len() + 2 >= dom.len();
      check_state(sc, &st.s, &st.path, &c, deep);
      sc.nontrivial(fnv(&st.path.iter().copied().collect::<std::collections::BTreeSet<u8>>().into_iter().collect::<Vec<u8>>()));
    },
    |_k, st| {
      if st.path.len() + 1 >= dom2.len() && last.len() < 16 {
        last.push(st.path.clone());
      }
    },
  );
  cx.count("states", stats.states);
  cx.count("transitions", stats.transitions);
  cx.count("merges", stats.merges);
  // trace validation on a fresh server keyed by the same entropy
  if let Some(c2) = if few { setup_with(&mut cx.scratch(), 1, vec![dom2[0], dom2[dom2.len() - 1], 77]) } else { setup(&mut cx.scratch(), 1) } {
    for path in last.iter().take(8) {
      let mut s = c2.initial.clone();
      for &x in path {
        let _ = s.puncture(x);
      }
      check_state(cx, &s, path, &c, true);
      cx.count("traces_validated", 1);
    }
  }
  cx.outcome(format!("{}: {} states", dname, stats.states));
  cx.sample(json!({"domain": dname, "inputs": dom2, "states": stats.states, "transitions": stats.transitions, "merges": stats.merges, "level_sizes": stats.level_sizes}));
}
/// order-insensitive digest of an export (nodes sorted)
fn sorted_export(b: &[u8]) -> Vec<(Vec<bool>, Vec<u8>)> {
  match parse_export(b) {
    Some(e) => {
      let mut v = e.prefixes;
      v.sort();
      v
    }
    None => vec![(vec![], b.to_vec())],
  }
}

fn run_singles(cx: &mut CaseCx, case: &Value) {
  let c = match setup(cx, 1) {
    Some(c) => c,
    None => return,
  };
  let lo = case["lo"].as_u64().unwrap() as u8;
  for a in lo..=lo.saturating_add(15) {
    let mut s = c.initial.clone();
    // transcripts recorded BEFORE the puncture must not become keys to the punctured tag once the key state is
    // known: a proof whose nonce is a function of the key state and the request (the identical request on the
    // identical state gives the identical proof) lets whoever holds the exported state recompute the nonce r and
    // solve s = r - c*k for the tag key k. The nonce must come from fresh entropy.
    if a % 16 == 0 {
      let (probe, _r) = pp::Client::blind(b"recorded before the puncture");
      let p1 = guard(|| s.eval(&probe, a, true).ok().and_then(|e| e.proof.and_then(|p| p.serialize_to_bincode().ok()))).ok().flatten();
      let p2 = guard(|| s.eval(&probe, a, true).ok().and_then(|e| e.proof.and_then(|p| p.serialize_to_bincode().ok()))).ok().flatten();
      cx.eval();
      if p1.is_some() && p1 == p2 {
        cx.viol("C11/proof-nonce-derivable-from-key-state", format!("the identical request for tag {} answered twice by the identical server state carries the identical proof: the proof nonce is a function of the key state and the request, so a proof recorded before tag {} is punctured plus the post-puncture key state (which still holds every input of that function) yield the tag key", a, a), json!({"tag": a}));
        return;
      }
      cx.count("recorded_proofs_fresh", 1);
    }
    if guard(|| s.puncture(a).is_ok()) != Ok(true) {
      cx.viol("C11/puncture-failed", format!("puncture({}) failed on a fresh server", a), json!({"input": a}));
      continue;
    }
    check_state(cx, &s, &[a], &c, true);
    cx.count("states", 1);
    cx.count("transitions", 1);
    cx.nontrivial(a as u64);
    // its deepest-level sibling next: the covering node is then a leaf-level node
    let b = a ^ 0x80;
    if guard(|| s.puncture(b).is_ok()) == Ok(true) {
      check_state(cx, &s, &[a, b], &c, true);
      cx.count("states", 1);
      cx.count("transitions", 1);
    }
  }
  cx.outcome("singles + sibling");
}


/// Refused requests leave nothing behind in the key material: a wrong-length puncture / evaluation (refused)
/// followed by a valid puncture of the same or a neighbouring input must leave exactly the key material of
/// that valid puncture alone - in particular no node on the path to the punctured input.
fn run_refused_calls(cx: &mut CaseCx, case: &Value) {
  use ppoprf::PPRF;
  let c = match setup(cx, 1) {
    Some(c) => c,
    None => return,
  };
  let lo = case["lo"].as_u64().unwrap() as u8;
  let g0 = c.initial.verif_pprf().clone();
  let sorted = |g: &ppoprf::ggm::GGM| {
    let mut n = hook_nodes(g).map(|x| x.0).unwrap_or_default();
    n.sort();
    n
  };
  for a in lo..=lo.saturating_add(15) {
    // the key has some history already: one unrelated puncture
    for pre in [None, Some(a ^ 0x55)] {
      let mut base = g0.clone();
      let mut hist: Vec<u8> = vec![];
      if let Some(x) = pre {
        let _ = base.puncture(&[x]);
        hist.push(x);
      }
      for (what, bad) in [("an empty input", vec![]), ("a 2-byte input", vec![a, 0x5a]), ("a 3-byte input", vec![a, a, a]), ("a 33-byte input", vec![a; 33])] {
        let mut g = base.clone();
        cx.eval();
        let refused_p = guard(|| g.puncture(&bad).is_err());
        let refused_e = guard(|| g.eval(&bad, &mut [0u8; 32]).is_err());
        if refused_p != Ok(true) || refused_e != Ok(true) {
          cx.viol("C11/wrong-length-request-accepted", format!("puncture / eval of {} was not refused ({:?} / {:?})", what, refused_p, refused_e), json!({"punctured_in_order": hist, "request": what}));
          continue;
        }
        if sorted(&g) != sorted(&base) {
          cx.viol("C11/refused-request-changed-key-material", format!("a refused puncture of {} (first byte {}) changed the retained key material", what, a), json!({"punctured_in_order": hist, "request": what, "first_byte": a}));
          return;
        }
        for y in [a, a ^ 0x80, a ^ 0x01, a ^ 0x40] {
          if hist.contains(&y) {
            continue;
          }
          let mut g2 = g.clone();
          let mut r2 = base.clone();
          if g2.puncture(&[y]).is_err() || r2.puncture(&[y]).is_err() {
            cx.viol("C11/puncture-failed", format!("puncture({}) failed after a refused request", y), json!({"punctured_in_order": hist, "input": y}));
            continue;
          }
          cx.eval();
          let nodes = sorted(&g2);
          if let Some((n, _)) = nodes.iter().find(|(n, _)| n.covers(y)) {
            cx.viol("C11/retained-node-on-punctured-path/after-refused-request", format!("after a refused puncture of {} (first byte {}) and a valid puncture of {}, the key still retains a node (depth {}) on the path to {}", what, a, y, n.len, y), json!({"punctured_in_order": hist, "refused_request": what, "first_byte": a, "then_punctured": y}));
            return;
          }
          if nodes != sorted(&r2) {
            cx.viol("C11/refused-request-changed-key-material", format!("after a refused puncture of {} and a valid puncture of {}, the key material differs from the one of the valid puncture alone", what, y), json!({"punctured_in_order": hist, "refused_request": what, "then_punctured": y}));
            return;
          }
          cx.count("refused_then_punctured", 1);
        }
      }
    }
    cx.nontrivial(a as u64);
  }
  cx.count("states", 16);
  cx.count("transitions", 16);
  cx.outcome("refused calls leave nothing");
}


/// A relabelling adversary on the exported post-puncture state: every retained seed is placed, alone, at every
/// node on the path to a punctured input (a crafted key state handed to a fresh server); if the server then
/// evaluates the punctured input to its ORIGINAL value, the exported state still contains a seed from which
/// the punctured value can be recomputed - whatever label it is stored under. Independent of any replica of
/// the tree PRG: the server's own evaluation is the oracle.
fn run_relabelling(cx: &mut CaseCx, case: &Value) {
  let c = match setup(cx, 1) {
    Some(c) => c,
    None => return,
  };
  // printer self-validation on the honest export
  let honest = match export_bytes(&c.initial) {
    Ok(b) => b,
    Err(_) => return,
  };
  if parse_export(&honest).map(|e| print_export(&e)) != Some(honest.clone()) {
    cx.count("export_printer_unavailable", 1);
    cx.note("the independent printer of the key-sync export does not reproduce an honest export (layout changed?): relabelling check skipped, never an alarm");
    return;
  }
  // positive control of the forging technique: a seed of the UNPUNCTURED state, alone at its own label, must
  // make a fresh server evaluate the inputs below it to their original values
  {
    let e0 = parse_export(&honest).unwrap();
    let ok = e0.prefixes.iter().all(|(label, seed)| {
      let forged = Export { oprf_key: e0.oprf_key, base_pk: e0.base_pk, md_pks: e0.md_pks.clone(), prgs: e0.prgs.clone(), prefixes: vec![(label.clone(), seed.clone())], punctured: vec![], ggm_offset: 0 };
      let mut fresh = pp::Server::new(vec![9]).expect("server");
      if import_into(&mut fresh, &print_export(&forged)).is_err() {
        return false;
      }
      let x = Node::from_bools(label).map(|n| n.leaves()[0]).unwrap_or(0);
      let mut out = [0u8; 32];
      use ppoprf::PPRF;
      fresh.verif_pprf().eval(&[x], &mut out).is_ok() && Some(out) == c.baseline[x as usize]
    });
    if !ok {
      cx.count("export_printer_unavailable", 1);
      cx.note("a crafted single-node key state does not evaluate as expected on a fresh server (import validates more than the layout?): relabelling check skipped, never an alarm");
      return;
    }
  }
  cx.count("export_printer_validated", 1);
  let lo = case["lo"].as_u64().unwrap() as u8;
  for a in lo..=lo.saturating_add(15) {
    // histories: [a], [a, a^0x80], [a ^ 0x40, a], [a.wrapping_add(1), a]
    for hist in [vec![a], vec![a, a ^ 0x80], vec![a ^ 0x40, a], vec![a.wrapping_add(1), a]] {
      let mut s = c.initial.clone();
      for &x in &hist {
        let _ = s.puncture(x);
      }
      let exp = match export_bytes(&s).ok().and_then(|b| parse_export(&b)) {
        Some(e) => e,
        None => continue,
      };
      cx.nontrivial(fnv(&hist));
      for &x in &hist {
        let want = match c.baseline[x as usize] {
          Some(v) => v,
          None => continue,
        };
        for (label, seed) in &exp.prefixes {
          for target in path_nodes(x) {
            let forged = Export { oprf_key: exp.oprf_key, base_pk: exp.base_pk, md_pks: exp.md_pks.clone(), prgs: exp.prgs.clone(), prefixes: vec![(target.to_bools(), seed.clone())], punctured: vec![], ggm_offset: 0 };
            let mut fresh = pp::Server::new(vec![9]).expect("server");
            cx.eval();
            if import_into(&mut fresh, &print_export(&forged)).is_err() {
              cx.count("forged_states_refused", 1);
              continue;
            }
            let mut out = [0u8; 32];
            let got = guard(|| {
              use ppoprf::PPRF;
              fresh.verif_pprf().eval(&[x], &mut out).is_ok()
            });
            if got == Ok(true) && out == want {
              cx.viol(
                "C11/exported-seed-recomputes-punctured-value",
                format!("after puncturing {:?}, the exported key state holds (under the label of depth {}) a seed that, placed at the depth-{} node on the path to the punctured input {}, evaluates it to its original value: the punctured value can still be recomputed from the post-puncture state", hist, label.len(), target.len, x),
                json!({"punctured_in_order": hist, "input": x, "stored_under_label_depth": label.len(), "works_at_path_depth": target.len}),
              );
              return;
            }
            cx.count("relabelled_seeds_useless", 1);
          }
        }
      }
    }
  }
  cx.count("states", 64);
  cx.count("transitions", 64);
  cx.outcome("relabelling adversary fails");
}

/// An importer with a tag list OF ITS OWN (tags the sender never published), which goes on puncturing - its own
/// tags first. Whatever the importer keeps or re-publishes for those tags, nothing in its exported state or in
/// its public key may let the holder evaluate a punctured tag: (1) no 32-byte window is a seed or a leaf value
/// on a punctured path, (2) algebraically - no window, read as a scalar ts, gives (k + ts)^-1 * P equal to the
/// tag's evaluation of P (the formula is used only if it reproduces a real evaluation of a live tag).
fn run_importer_own_tags(cx: &mut CaseCx, case: &Value) {
  use curve25519_dalek::ristretto::CompressedRistretto;
  use curve25519_dalek::scalar::Scalar;
  let k = case["k"].as_u64().unwrap();
  let (sender_tags, importer_tags, punct): (Vec<u8>, Vec<u8>, Vec<u8>) = match k {
    0 => (vec![0, 1, 2], vec![0, 1, 2, 3, 4], vec![3, 4, 1]),
    1 => (vec![5], (0..=7).collect(), vec![0, 7, 6, 5]),
    2 => (vec![0, 1, 2, 3], vec![2, 3, 200, 255], vec![255, 200, 2, 0]),
    3 => (vec![128, 129], vec![0, 128, 255], vec![0, 255, 128]),
    4 => ((0..=255u8).collect(), vec![9], vec![9, 8]),
    _ => (vec![7], vec![7, 135, 6], vec![135, 6, 7]),
  };
  let c = match setup_with(cx, 60 + k, sender_tags.clone()) {
    Some(c) => c,
    None => return,
  };
  let bytes = match export_bytes(&c.initial) {
    Ok(b) => b,
    Err(_) => return,
  };
  let mut importer = match pp::Server::new(importer_tags.clone()) {
    Ok(s) => s,
    Err(_) => return,
  };
  let d = |extra: Value| json!({"sender_tags": sender_tags.len(), "importer_tags": importer_tags, "punctured_on_importer": punct, "detail": extra});
  if let Err(e) = import_into(&mut importer, &bytes) {
    cx.viol("C11/import-failed", format!("import into an instance with its own tag list failed: {}", e), d(json!(null)));
    return;
  }
  cx.nontrivial(0xc11_000 + k);
  let (probe, _r) = pp::Client::blind(b"c11 importer probe");
  let probe_pt = match CompressedRistretto(*probe.as_bytes()).decompress() {
    Some(p) => p,
    None => return,
  };
  let oprf_key = match parse_export(&bytes).and_then(|e| Option::<Scalar>::from(Scalar::from_canonical_bytes(e.oprf_key))) {
    Some(k) => Some(k),
    None => {
      cx.count("algebraic_scan_unavailable", 1);
      None
    }
  };
  let formula = |kk: &Scalar, leaf: &[u8; 32]| ((kk + Scalar::from_bytes_mod_order(*leaf)).invert() * probe_pt).compress().to_bytes();
  // positive control on a live tag of the sender
  let control = sender_tags.iter().find(|t| !punct.contains(t)).or(sender_tags.first()).copied();
  let formula_ok = match (oprf_key, control) {
    (Some(kk), Some(t)) => match (c.baseline[t as usize], guard(|| c.initial.eval(&probe, t, false).map(|e| *e.output.as_bytes()).map_err(|e| e.to_string()))) {
      (Some(leaf), Ok(Ok(real))) => formula(&kk, &leaf) == real,
      _ => false,
    },
    _ => false,
  };
  cx.count(if formula_ok { "evaluation_formula_validated" } else { "algebraic_scan_unavailable" }, 1);
  let mut done: Vec<u8> = vec![];
  for &x in &punct {
    cx.eval();
    match guard(|| importer.puncture(x).is_ok()) {
      Ok(true) => {}
      Ok(false) => {
        cx.count("importer_puncture_refused", 1);
        continue;
      }
      Err(p) => {
        cx.viol("C11/puncture-panicked", p, d(json!({"input": x})));
        return;
      }
    }
    done.push(x);
    // the key material and everything the importer hands out
    let covered = hook_nodes(importer.verif_pprf()).map(|n| n.0).unwrap_or_default().iter().any(|(n, _)| done.iter().any(|&y| n.covers(y)));
    if covered {
      cx.viol("C11/retained-node-on-punctured-path/own-tags", format!("an importer with its own tag list {:?} punctured {:?}: its key still retains a node on a punctured path", importer_tags, done), d(json!(null)));
      return;
    }
    let mut blob = export_bytes(&importer).unwrap_or_default();
    let mark = blob.len();
    blob.extend(guard(|| importer.get_public_key().serialize_to_bincode().unwrap_or_default()).unwrap_or_default());
    if let Some(seeds) = &c.seeds {
      let forbidden: HashSet<[u8; 32]> = done.iter().flat_map(|&y| path_nodes(y)).filter_map(|n| seeds.get(&n).copied()).collect();
      cx.eval();
      if let Some(at) = blob.windows(32).position(|w| forbidden.contains(<&[u8; 32]>::try_from(w).unwrap())) {
        cx.viol("C11/forbidden-seed-in-export/own-tags", format!("an importer created with its own tag list {:?} adopted the key of a sender that published {} tag(s) and punctured {:?}: the {} it hands out afterwards contains, at byte {}, a seed / leaf value on the path to a punctured input", importer_tags, sender_tags.len(), done, if at >= mark { "public key" } else { "exported key state" }, if at >= mark { at - mark } else { at }), d(json!({"offset": at})));
        return;
      }
      cx.count("seed_scans", 1);
    }
    if let (true, Some(kk)) = (formula_ok, oprf_key) {
      let wants: Vec<(u8, [u8; 32])> = done.iter().filter_map(|&y| c.baseline[y as usize].map(|leaf| (y, formula(&kk, &leaf)))).collect();
      cx.eval();
      for (at, w) in blob.windows(32).enumerate() {
        let w: [u8; 32] = w.try_into().unwrap();
        let cand = formula(&kk, &w);
        if let Some((y, _)) = wants.iter().find(|(_, v)| *v == cand) {
          cx.viol("C11/exported-value-evaluates-punctured-tag", format!("after the importer (own tag list {:?}) punctured {:?}, bytes {}.. of what it hands out, read as the tag scalar, evaluate the punctured tag {} to its original value", importer_tags, done, at, y), d(json!({"offset": at, "input": y})));
          return;
        }
      }
      cx.count("algebraic_scans", 1);
    }
    // ... and through the evaluation interface
    for &y in &done {
      if guard(|| importer.eval(&probe, y, false).is_ok()) == Ok(true) {
        cx.viol("C11/importer-evaluates-punctured", format!("an importer with its own tag list still answers for tag {} after puncturing it", y), d(json!({"input": y})));
        return;
      }
    }
    cx.count("own_tag_punctures_checked", 1);
  }
  cx.count("states", done.len() as u64 + 1);
  cx.count("transitions", done.len() as u64);
  cx.outcome(format!("importer own tags case {}", k));
}

pub fn spec() -> PropSpec {
  PropSpec {
    id: "C11",
    level: "model_checking",
    assumptions: vec![
      "one-wayness of the Strobe-based tree PRG is the trusted base: decided is the structural statement (no retained or exported node on the path to a punctured input, every unpunctured input covered, importer cannot evaluate punctured inputs, no path seed survives anywhere in the serialised state)",
      "retained nodes are observed through the add-only hook `verif-hooks` and, independently, by parsing the public key-sync export",
      "the forbidden-seed scan needs a Strobe replica of the tree PRG; it self-validates against the 256 leaf values and is skipped (counted, never an alarm) if it does not",
      "state space as C10: all subsets of the sub-domains; deep import checks on every state of 8-leaf domains and on the shallow and deep levels of 16-leaf domains",
    ],
    thorough_budget_s: 1800,
    checks: vec![
      Check {
        name: "subsets-bfs",
        rule: "explicit-state BFS over real Servers (all 256 tags registered; and again with only 3 tags registered, so that punctured tags are mostly unregistered): transition = Server::puncture(tag) for a tag of the domain; digest = punctured set with merge check on the exported state; invariant in every state: (hook) no retained node is an ancestor-or-self of a punctured leaf and every unpunctured leaf is covered; (export) same on the independently parsed key-sync export, export == retained; no seed of any node on a punctured path occurs at any offset of the export; import into a fresh server, into followers holding the initial / the previous state, and into a follower that had punctured more than the exporter: importer refuses exactly the punctured inputs, equal values, equal key material",
        gen: |tier| {
          let mut v: Vec<Value> = if tier.thorough() { (0..8).map(|d| json!({"domain": d})).collect() } else { (4..8).map(|d| json!({"domain": d})).collect() };
          // the same exploration on servers that register only 3 tags: most punctured tags are unregistered
          v.extend((4..8).map(|d| json!({"domain": d, "registered": "few"})));
          v
        },
        run: run_subsets,
        min_counts: &[("states", 1000), ("exports_parsed", 1000), ("imports_checked", 500), ("seed_scans", 1000), ("traces_validated", 4)],
      },
      Check {
        name: "refused-requests",
        rule: "on the puncturable key taken out of a server (fresh, and after one unrelated puncture): for EVERY first byte a, a refused puncture and evaluation of an empty / 2-byte / 3-byte / 33-byte input starting with a, then a valid puncture of a, a^0x80, a^0x01 or a^0x40: the refused request leaves the retained key material unchanged, and afterwards no retained node lies on the path to the punctured input - the key material equals that of the valid puncture alone",
        gen: |_| (0..16u64).map(|i| json!({"lo": i * 16})).collect(),
        run: run_refused_calls,
        min_counts: &[("refused_then_punctured", 5000)],
      },
      Check {
        name: "relabelling-adversary",
        rule: "for EVERY input a and the histories [a], [a, a^0x80], [a^0x40, a], [a+1, a]: each seed of the exported post-puncture state is placed alone at each of the 8 nodes on the path to each punctured input (crafted key state, independent printer self-validated on an honest export) and imported into a fresh server: the server must not evaluate the punctured input to its original value (a seed that recomputes a punctured value survives under whatever label)",
        gen: |_| (0..16u64).map(|i| json!({"lo": i * 16})).collect(),
        run: run_relabelling,
        min_counts: &[("relabelled_seeds_useless", 20_000), ("export_printer_validated", 16)],
      },
      Check {
        name: "importer-own-tags",
        rule: "6 (sender tag list, importer's OWN tag list, punctures on the importer) triples - the importer configured with tags the sender never published (superset, disjoint, sparse, single) - import, then puncture the importer's own tags first and a shared tag last; after every puncture: no retained node on a punctured path, no 32-byte window of the importer's exported state or public key is a seed / leaf value on a punctured path (Strobe replica of the tree, validated), no window read as tag scalar ts gives (k+ts)^-1 * P equal to the punctured tag's evaluation (formula validated against a real evaluation), Server::eval refuses",
        gen: |_| (0..6u64).map(|k| json!({"k": k})).collect(),
        run: run_importer_own_tags,
        min_counts: &[("own_tag_punctures_checked", 15), ("algebraic_scans", 10), ("seed_scans", 10)],
      },
      Check {
        name: "singles-and-siblings",
        rule: "every single tag punctured from a fresh server, then its deepest-level sibling (tag ^ 0x80): full invariant incl. import checks; for every 16th tag, before the puncture: the identical request answered twice carries two different proofs (a proof nonce that is a function of key state and request would make recorded proofs plus the post-puncture state give the tag key away)",
        gen: |_| (0..16u64).map(|i| json!({"lo": i * 16})).collect(),
        run: run_singles,
        min_counts: &[("states", 512)],
      },
    ],
  }
}
