//! C13 — evaluation proofs are complete, sound against tampering, and never reuse a nonce.
use crate::mc::*;
use crate::sut::*;
use curve25519_dalek::constants::RISTRETTO_BASEPOINT_POINT as G;
use curve25519_dalek::ristretto::{CompressedRistretto, RistrettoPoint};
use curve25519_dalek::scalar::Scalar;
use curve25519_dalek::traits::Identity;
use ppoprf::ppoprf as pp;
use serde_json::{json, Value};
use std::collections::HashMap;

const TAGS: [u8; 4] = [0, 1, 7, 255];

struct World {
  server: pp::Server,
  pk: pp::ServerPublicKey,
  pkb: Vec<u8>,
}
fn world(cx: &CaseCx, k: u64) -> World {
  cx.entropy(200 + k);
  let server = pp::Server::new(TAGS.to_vec()).expect("server");
  let pk = server.get_public_key();
  let pkb = pk.serialize_to_bincode().expect("pk");
  World { server, pk, pkb }
}
/// offset of the point of `md` inside the bincode form of the public key: base(32) | n u64 | (tag u8, point 32)*
pub fn tag_slot(pkb: &[u8], md: u8) -> Option<usize> {
  let n = u64::from_le_bytes(pkb[32..40].try_into().ok()?) as usize;
  (0..n).map(|i| 40 + 33 * i).find(|&at| pkb[at] == md).map(|at| at + 1)
}
fn pt(b: &[u8; 32]) -> pp::Point {
  pp::Point::from(&b[..])
}
fn ev_of(output: &[u8; 32], proof: &[u8]) -> Option<pp::Evaluation> {
  Some(pp::Evaluation { output: pt(output), proof: Some(pp::ProofDLEQ::load_from_bincode(proof).ok()?) })
}
fn add_g(b: &[u8; 32]) -> Option<[u8; 32]> {
  CompressedRistretto(*b).decompress().map(|p| (p + G).compress().to_bytes())
}

struct Honest {
  md: u8,
  blinded: [u8; 32],
  output: [u8; 32],
  proof: Vec<u8>,
}
/// honest evaluation of a GIVEN request point (e.g. the neutral element, which no client produces)
fn honest_point(w: &World, md: u8, point: &[u8; 32]) -> Result<Honest, String> {
  let blinded = pt(point);
  let ev = w.server.eval(&blinded, md, true).map_err(|e| e.to_string())?;
  let proof = ev.proof.as_ref().ok_or("no proof")?.serialize_to_bincode().map_err(|e| e.to_string())?;
  Ok(Honest { md, blinded: *point, output: *ev.output.as_bytes(), proof })
}
fn honest(w: &World, md: u8, input: &[u8]) -> Result<Honest, String> {
  let (blinded, _r) = pp::Client::blind(input);
  let ev = w.server.eval(&blinded, md, true).map_err(|e| e.to_string())?;
  let proof = ev.proof.as_ref().ok_or("no proof")?.serialize_to_bincode().map_err(|e| e.to_string())?;
  Ok(Honest { md, blinded: *blinded.as_bytes(), output: *ev.output.as_bytes(), proof })
}

fn run_completeness(cx: &mut CaseCx, case: &Value) {
  let w = world(cx, case["key"].as_u64().unwrap());
  let pk2 = pp::ServerPublicKey::load_from_bincode(&w.pkb);
  for &md in &TAGS {
    for (ii, input) in super::c12::inputs().iter().enumerate().take(10) {
      for rep in 0..2 {
        cx.eval();
        cx.nontrivial(fnv_str(&format!("{}|{}|{}|{}", case, md, ii, rep)));
        let d = || json!({"tag": md, "input_index": ii});
        let (blinded, _r) = pp::Client::blind(input);
        let ev = match guard(|| w.server.eval(&blinded, md, true)) {
          Ok(Ok(e)) => e,
          other => {
            cx.viol("C13/eval-failed", format!("{:?}", other.map(|r| r.map(|_| ()).map_err(|e| e.to_string()))), d());
            continue;
          }
        };
        if guard(|| pp::Client::verify(&w.pk, &blinded, &ev, md)) != Ok(true) {
          cx.viol("C13/complete/honest-rejected", "an honest verifiable evaluation does not verify", d());
          continue;
        }
        cx.count("honest_verified", 1);
        // after serialisation of evaluation, proof and public key
        let js = serde_json::to_string(&ev).unwrap_or_default();
        match serde_json::from_str::<pp::Evaluation>(&js) {
          Ok(ev2) => {
            if guard(|| pp::Client::verify(&w.pk, &blinded, &ev2, md)) != Ok(true) {
              cx.viol("C13/complete/json-roundtrip", "an honest evaluation restored from JSON does not verify", d());
            }
          }
          Err(e) => cx.viol("C13/complete/json-roundtrip", format!("honest evaluation does not restore from its JSON form: {}", e), d()),
        }
        // the whole evaluation through a NON-self-describing format (bincode, as used for keys and proofs) and
        // through JSON handed over as a parsed value
        match guard(|| bincode::serialize(&ev).map_err(|e| e.to_string()).and_then(|b| bincode::deserialize::<pp::Evaluation>(&b).map_err(|e| e.to_string()))) {
          Ok(Ok(ev4)) => {
            if guard(|| pp::Client::verify(&w.pk, &blinded, &ev4, md)) != Ok(true) {
              cx.viol("C13/complete/bincode-roundtrip", "an honest evaluation restored from bincode does not verify", d());
            }
            cx.count("evaluation_bincode_roundtrips", 1);
          }
          other => cx.viol("C13/complete/bincode-roundtrip", format!("an honest evaluation does not survive serialisation with bincode (the format the library uses for keys and proofs): {:?}", other.map(|r| r.map(|_| ()))), d()),
        }
        match guard(|| serde_json::to_value(&ev).map_err(|e| e.to_string()).and_then(|v| serde_json::from_value::<pp::Evaluation>(v).map_err(|e| e.to_string()))) {
          Ok(Ok(ev5)) => {
            if guard(|| pp::Client::verify(&w.pk, &blinded, &ev5, md)) != Ok(true) {
              cx.viol("C13/complete/json-roundtrip", "an honest evaluation restored from a JSON value does not verify", d());
            }
          }
          other => cx.viol("C13/complete/json-roundtrip", format!("an honest evaluation does not restore from its JSON value: {:?}", other.map(|r| r.map(|_| ()))), d()),
        }
        let pb = ev.proof.as_ref().unwrap().serialize_to_bincode().unwrap_or_default();
        match ev_of(ev.output.as_bytes(), &pb) {
          Some(ev3) => {
            if guard(|| pp::Client::verify(&w.pk, &blinded, &ev3, md)) != Ok(true) {
              cx.viol("C13/complete/proof-roundtrip", "a proof restored from bincode does not verify", d());
            }
          }
          None => cx.viol("C13/complete/proof-roundtrip", "honest proof does not restore from bincode", d()),
        }
        match &pk2 {
          Ok(k2) => {
            if guard(|| pp::Client::verify(k2, &blinded, &ev, md)) != Ok(true) {
              cx.viol("C13/complete/pk-roundtrip", "an honest evaluation does not verify against the public key restored from bincode", d());
            }
          }
          Err(e) => cx.viol("C13/complete/pk-roundtrip", format!("public key does not restore: {}", e), d()),
        }
      }
    }
  }
  cx.outcome("completeness");
}


/// completeness for servers covering large tag sets (up to the full 8-bit tag space), through the restored public key
fn run_completeness_big(cx: &mut CaseCx, case: &Value) {
  let n = case["tags"].as_u64().unwrap() as usize;
  cx.entropy(260 + n as u64);
  let tags: Vec<u8> = (0..n).map(|t| t as u8).collect();
  let server = match guard(|| pp::Server::new(tags.clone())) {
    Ok(Ok(s)) => s,
    _ => return,
  };
  let pk = server.get_public_key();
  let restored = pk.serialize_to_bincode().ok().and_then(|b| pp::ServerPublicKey::load_from_bincode(&b).ok());
  cx.nontrivial(n as u64);
  let d = json!({"tag_set_size": n});
  let k2 = match restored {
    Some(k) => k,
    None => {
      cx.viol("C13/complete/pk-roundtrip", format!("the public key of a server with {} tags does not restore from its serialised form, so no evaluation can be verified after transfer", n), d);
      return;
    }
  };
  for &md in [0usize, n / 2, n - 1].iter() {
    let md = md as u8;
    let (blinded, _) = pp::Client::blind(b"big tag set");
    cx.eval();
    match guard(|| server.eval(&blinded, md, true)) {
      Ok(Ok(ev)) => {
        if guard(|| pp::Client::verify(&k2, &blinded, &ev, md)) != Ok(true) || guard(|| pp::Client::verify(&pk, &blinded, &ev, md)) != Ok(true) {
          cx.viol("C13/complete/pk-roundtrip", format!("honest evaluation for tag {} of a {}-tag server does not verify (original or restored public key)", md, n), json!({"tag_set_size": n, "tag": md}));
        } else {
          cx.count("honest_verified", 1);
        }
      }
      other => cx.viol("C13/eval-failed", format!("{:?}", other.map(|r| r.map(|_| ()).map_err(|e| e.to_string()))), json!({"tag_set_size": n, "tag": md})),
    }
  }
}


/// the tag list handed to Server::new in every shape a caller may produce: unsorted, with repeats
/// (adjacent or not, at either end), descending, a single tag, the full space plus a repeat
fn run_tag_list_shapes(cx: &mut CaseCx, case: &Value) {
  let lists: Vec<Vec<u8>> = vec![
    vec![0, 1, 1, 2, 3],
    vec![3, 2, 1, 0],
    vec![5, 5],
    vec![1, 0, 1],
    vec![255, 0, 255, 1],
    vec![2, 2, 2, 7, 7, 9],
    vec![9, 7, 7, 2],
    vec![0, 0, 1, 2, 3, 4, 5, 6, 7, 8, 9, 10, 11, 12, 13, 14, 15, 16, 17],
    vec![7],
    (0..=255u8).chain([0u8, 128, 255]).collect(),
    (0..=255u8).rev().collect(),
    vec![128, 127, 129, 127],
  ];
  let li = case["list"].as_u64().unwrap() as usize % lists.len();
  let tags = lists[li].clone();
  cx.entropy(280 + li as u64);
  let server = match guard(|| pp::Server::new(tags.clone())) {
    Ok(Ok(s)) => s,
    other => {
      cx.count("server_refused_tag_list", 1);
      cx.note(format!("Server::new refused a tag list: {:?}", other.map(|r| r.map(|_| ()).map_err(|e| e.to_string()))));
      return;
    }
  };
  let pk = server.get_public_key();
  let pk2 = pk.serialize_to_bincode().ok().and_then(|b| pp::ServerPublicKey::load_from_bincode(&b).ok());
  let mut distinct = tags.clone();
  distinct.sort();
  distinct.dedup();
  let probe: Vec<u8> = if distinct.len() > 24 { distinct.iter().copied().filter(|t| *t < 4 || *t > 251 || (126..=130).contains(t)).collect() } else { distinct.clone() };
  for &md in &probe {
    let (blinded, _) = pp::Client::blind(b"tag list shapes");
    cx.eval();
    cx.nontrivial(fnv_str(&format!("{}|{}", li, md)));
    let d = json!({"tag_list": tags, "tag": md});
    let ev = match guard(|| server.eval(&blinded, md, true)) {
      Ok(Ok(ev)) => ev,
      other => {
        cx.viol("C13/eval-failed", format!("verifiable evaluation for the registered tag {} failed: {:?}", md, other.map(|r| r.map(|_| ()).map_err(|e| e.to_string()))), d);
        continue;
      }
    };
    if guard(|| pp::Client::verify(&pk, &blinded, &ev, md)) != Ok(true) {
      cx.viol("C13/complete/honest-rejected/tag-list", format!("the honest evaluation for tag {} of a server created with the tag list {:?} is rejected", md, tags), d);
      return;
    }
    if let Some(k2) = &pk2 {
      if guard(|| pp::Client::verify(k2, &blinded, &ev, md)) != Ok(true) {
        cx.viol("C13/complete/pk-roundtrip", format!("the honest evaluation for tag {} is rejected under the restored public key", md), d);
        return;
      }
    }
    cx.count("honest_verified", 1);
    // soundness across the tags of the same list: the evaluation for md verifies under no other tag
    // ... nor under a tag the server never published (small lists - one tag in particular: a verifier that
    // "resolves" the tag from a single-entry key accepts any claimed tag): every value 0..=255
    let others: Vec<u8> = if distinct.len() <= 8 { (0..=255u8).collect() } else { probe.iter().copied().chain([md.wrapping_add(1), md.wrapping_sub(1), md ^ 0x80]).collect() };
    for &other in &others {
      if other == md {
        continue;
      }
      if !distinct.contains(&other) {
        cx.count("unpublished_tag_claims", 1);
      }
      cx.eval();
      if guard(|| pp::Client::verify(&pk, &blinded, &ev, other)) == Ok(true) {
        cx.viol("C13/sound/tag-substitution-accepted/tag-list", format!("the evaluation computed for tag {} verifies as an evaluation for tag {} (server created with the tag list {:?})", md, other, tags), json!({"tag_list": tags, "computed_for": md, "verified_as": other}));
        return;
      }
      cx.count("cross_tag_rejected", 1);
    }
  }
  cx.outcome("tag list shapes");
  if li == 0 {
    cx.sample(json!({"lists": lists.len(), "example": tags}));
  }
}


/// Completeness after key synchronisation: whatever a server RETURNS as a verifiable evaluation verifies
/// against the key that server publishes - for followers whose own tag list equals, contains, is contained in,
/// overlaps or is disjoint from the leader's.
fn run_after_key_sync(cx: &mut CaseCx, _case: &Value) {
  use super::c11::{export_bytes, import_into};
  cx.entropy(290);
  let leader_tags: Vec<u8> = vec![1, 2, 3];
  let leader = pp::Server::new(leader_tags.clone()).expect("server");
  let lpk = leader.get_public_key();
  let bytes = match export_bytes(&leader) {
    Ok(b) => b,
    Err(_) => return,
  };
  let followers: Vec<(&str, Vec<u8>)> = vec![("the same tags", vec![1, 2, 3]), ("a subset", vec![2]), ("a superset", vec![0, 1, 2, 3, 4]), ("a shifted window", vec![2, 3, 4]), ("disjoint tags", vec![7, 8]), ("no tags", vec![]), ("the same tags, unsorted", vec![3, 1, 2])];
  for (fname, ftags) in followers {
    let mut f = match guard(|| pp::Server::new(ftags.clone())) {
      Ok(Ok(s)) => s,
      _ => continue,
    };
    // the follower has answered requests of its own before the sync
    let (warm, _) = pp::Client::blind(b"before sync");
    for &t in &ftags {
      let _ = guard(|| f.eval(&warm, t, true).is_ok());
    }
    if import_into(&mut f, &bytes).is_err() {
      cx.viol("C13/key-sync-import-failed", format!("a follower created with {} cannot import the leader's key state", fname), json!({"follower_tags": ftags}));
      continue;
    }
    let fpk = f.get_public_key();
    let mut all: Vec<u8> = leader_tags.iter().chain(ftags.iter()).copied().collect();
    all.extend([0u8, 5, 255]);
    all.sort();
    all.dedup();
    for &md in &all {
      let (blinded, _) = pp::Client::blind(b"after sync");
      cx.eval();
      cx.nontrivial(fnv_str(&format!("{}|{}", fname, md)));
      let d = || json!({"leader_tags": leader_tags, "follower_created_with": ftags, "tag": md});
      match guard(|| f.eval(&blinded, md, true)) {
        Ok(Ok(ev)) => {
          if guard(|| pp::Client::verify(&fpk, &blinded, &ev, md)) != Ok(true) {
            cx.viol("C13/complete/after-key-sync", format!("a follower (created with {}: {:?}) that imported the leader's key state returns a verifiable evaluation for tag {} that does NOT verify against the key the follower itself publishes", fname, ftags, md), d());
            return;
          }
          if leader_tags.contains(&md) && guard(|| pp::Client::verify(&lpk, &blinded, &ev, md)) != Ok(true) {
            cx.viol("C13/complete/after-key-sync", format!("the follower's evaluation for the leader's tag {} does not verify against the leader's public key", md), d());
            return;
          }
          if !leader_tags.contains(&md) {
            cx.count("answers_for_tags_the_leader_lacks", 1);
          }
          cx.count("synced_evaluations_verified", 1);
        }
        Ok(Err(_)) => {
          if leader_tags.contains(&md) {
            cx.viol("C13/complete/after-key-sync", format!("after importing the leader's state the follower (created with {}) refuses the leader's tag {}", fname, md), d());
            return;
          }
          cx.count("synced_refusals", 1);
        }
        Err(p) => cx.viol("C13/eval-panicked", p, d()),
      }
    }
  }
  cx.outcome("after key sync");
}


/// Completeness on servers that have PUNCTURED: after every ordered sequence of punctures from cousin families,
/// every live tag's verifiable evaluation still verifies against the public key published at creation.
fn run_completeness_after_punctures(cx: &mut CaseCx, case: &Value) {
  let fams: Vec<Vec<u8>> = vec![vec![0, 64, 128, 192], vec![1, 65, 129, 193], vec![0, 1, 2, 3], vec![252, 253, 254, 255], vec![0, 128, 1, 129]];
  let fam = fams[case["family"].as_u64().unwrap() as usize % fams.len()].clone();
  cx.entropy(270);
  let server = pp::Server::new((0..=255u8).collect()).expect("server");
  let pk = server.get_public_key();
  let (blinded, _) = pp::Client::blind(b"after punctures");
  let mut probes: Vec<u8> = fam.iter().flat_map(|&x| [x, x ^ 0x80, x ^ 0x40, x ^ 0x01]).collect();
  probes.sort();
  probes.dedup();
  for_each_seq(fam.len(), 3, |seq| {
    let mut d = seq.to_vec();
    d.sort();
    d.dedup();
    if seq.is_empty() || d.len() != seq.len() || !cx.viols.is_empty() {
      return;
    }
    let order: Vec<u8> = seq.iter().map(|&i| fam[i]).collect();
    let mut s = server.clone();
    for &t in &order {
      let _ = s.puncture(t);
    }
    cx.nontrivial(fnv(&order));
    // the key a client fetches AFTER the punctures still serves every live tag
    let pk_after = s.get_public_key();
    for &t in &probes {
      if order.contains(&t) {
        continue;
      }
      cx.eval();
      match guard(|| s.eval(&blinded, t, true)) {
        Ok(Ok(ev)) => {
          if guard(|| pp::Client::verify(&pk_after, &blinded, &ev, t)) != Ok(true) {
            cx.viol("C13/complete/honest-rejected/key-fetched-after-punctures", format!("after puncturing {:?} the honest verifiable evaluation for the live tag {} is rejected under the public key the server hands out NOW (it verifies under the key published at creation: {})", order, t, guard(|| pp::Client::verify(&pk, &blinded, &ev, t)) == Ok(true)), json!({"punctured_in_order": order, "tag": t}));
            return;
          }
          if guard(|| pp::Client::verify(&pk, &blinded, &ev, t)) != Ok(true) {
            cx.viol("C13/complete/honest-rejected/after-punctures", format!("after puncturing {:?} the honest verifiable evaluation for the live tag {} is rejected under the public key published at creation", order, t), json!({"punctured_in_order": order, "tag": t}));
            return;
          }
          cx.count("honest_verified", 1);
        }
        other => {
          cx.viol("C13/eval-failed", format!("after puncturing {:?} the verifiable evaluation for the live tag {} failed: {:?}", order, t, other.map(|r| r.map(|_| ()).map_err(|e| e.to_string()))), json!({"punctured_in_order": order, "tag": t}));
          return;
        }
      }
    }
  });
  cx.outcome("complete after punctures");
}


/// E-env on the proof nonce: it must be a fresh draw from the OS entropy source - not a function of the key and
/// the statement (a nonce that can be recomputed from the key state plus a recorded proof gives the tag key away:
/// k = (r - s) / c). Same scripted entropy => same proof; other entropy => another commitment; the identical
/// request asked twice under fresh entropy => two different proofs; entropy consumed per proof >= 32 bytes.
fn run_nonce_entropy(cx: &mut CaseCx, _case: &Value) {
  let w = world(cx, 0);
  for &md in TAGS.iter().take(2) {
    let (blinded, _) = pp::Client::blind(b"nonce entropy");
    let proof_with = |script: &[u8]| -> Option<(Vec<u8>, u64)> {
      getrandom::verif::set_script(script);
      let before = getrandom::verif::total_bytes();
      let r = guard(|| w.server.eval(&blinded, md, true).ok().and_then(|e| e.proof.and_then(|p| p.serialize_to_bincode().ok())));
      let used = getrandom::verif::total_bytes() - before;
      getrandom::verif::clear_script();
      r.ok().flatten().map(|p| (p, used))
    };
    let base = prbytes(0x90CE, 64);
    let (p0, used) = match proof_with(&base) {
      Some(x) => x,
      None => return,
    };
    cx.count("entropy_bytes_per_proof", used);
    cx.eval();
    cx.nontrivial(md as u64);
    if used < 32 {
      cx.viol("C13/nonce-not-fresh-entropy", format!("issuing a proof for tag {} consumed only {} bytes of OS entropy: the nonce is not a fresh 256-bit draw (a nonce derived from the key and the statement can be recomputed by whoever later obtains the key state)", md, used), json!({"tag": md, "entropy_bytes_consumed": used}));
      return;
    }
    if proof_with(&base).map(|x| x.0) != Some(p0.clone()) {
      cx.count("proof_depends_on_more_than_entropy", 1);
    }
    // the identical request under other entropy: another commitment (c and s both change)
    let mut seen: std::collections::HashSet<Vec<u8>> = std::collections::HashSet::new();
    seen.insert(p0[..32].to_vec());
    for byte in 0..16 {
      let mut b = base.clone();
      b[byte] ^= 0x40;
      cx.eval();
      if let Some((p, _)) = proof_with(&b) {
        if !seen.insert(p[..32].to_vec()) {
          cx.viol("C13/nonce-reused", format!("two proofs for the identical request (tag {}) issued under DIFFERENT OS entropy (byte {} differs) have the same challenge, i.e. the same commitments: the nonce does not depend on the entropy it is given", md, byte), json!({"tag": md, "entropy_byte": byte}));
          return;
        }
      }
    }
    cx.count("nonce_entropy_variants_distinct", 16);
  }
  cx.outcome("nonce is fresh entropy");
}

fn run_soundness(cx: &mut CaseCx, case: &Value) {
  let w = world(cx, 0);
  let w2 = world(cx, 1);
  let md = case["md"].as_u64().unwrap() as u8;
  let other_md = TAGS.iter().copied().find(|&t| t != md).unwrap();
  cx.entropy(300 + md as u64);
  let base_kind = case["base"].as_str().unwrap_or("client");
  let h = match base_kind {
    "identity" => honest_point(&w, md, &RistrettoPoint::identity().compress().to_bytes()),
    "basepoint" => honest_point(&w, md, &G.compress().to_bytes()),
    _ => honest(&w, md, b"input one"),
  };
  let h = match h {
    Ok(h) => h,
    Err(_) => return,
  };
  let h_other_input = honest(&w, md, b"input two").expect("honest");
  let h_other_tag = honest(&w, other_md, b"input one").expect("honest");
  let h_other_server = honest(&w2, md, b"input one").expect("honest");
  // sanity: the honest cell verifies
  let ev0 = ev_of(&h.output, &h.proof).expect("ev");
  if guard(|| pp::Client::verify(&w.pk, &pt(&h.blinded), &ev0, md)) != Ok(true) {
    cx.viol("C13/complete/honest-rejected", "honest evaluation does not verify", json!({"tag": md}));
    return;
  }
  let slot = tag_slot(&w.pkb, md).expect("slot");
  let other_slot = tag_slot(&w.pkb, other_md).expect("slot");
  let slot2 = tag_slot(&w2.pkb, md).expect("slot");
  let base: [u8; 32] = w.pkb[..32].try_into().unwrap();
  let tagp: [u8; 32] = w.pkb[slot..slot + 32].try_into().unwrap();
  let ident = RistrettoPoint::identity().compress().to_bytes();
  // replacements for a 32-byte component: named values + every single-bit flip
  let repl = |orig: &[u8; 32], named: Vec<(&'static str, Option<[u8; 32]>)>| -> Vec<(String, [u8; 32])> {
    let mut v: Vec<(String, [u8; 32])> = named.into_iter().filter_map(|(n, b)| b.map(|b| (n.to_string(), b))).collect();
    for bit in 0..256 {
      let mut b = *orig;
      b[bit / 8] ^= 1 << (bit % 8);
      v.push((format!("bit {} flipped", bit), b));
    }
    v.retain(|(_, b)| b != orig);
    v
  };
  let c_bytes: [u8; 32] = h.proof[..32].try_into().unwrap();
  let s_bytes: [u8; 32] = h.proof[32..64].try_into().unwrap();
  let sc_plus1 = |b: &[u8; 32]| Option::<Scalar>::from(Scalar::from_canonical_bytes(*b)).map(|s| (s + Scalar::ONE).to_bytes());
  let sc_neg = |b: &[u8; 32]| Option::<Scalar>::from(Scalar::from_canonical_bytes(*b)).map(|s| (Scalar::ZERO - s).to_bytes());
  // the same residue in a SECOND byte encoding: value + l (and + 2l) as 256-bit little-endian integers
  let sc_plus_order = |b: &[u8; 32], times: u32| -> Option<[u8; 32]> {
    let l = num_bigint::BigUint::from_bytes_le(&(Scalar::ZERO - Scalar::ONE).to_bytes()) + 1u32;
    let v = num_bigint::BigUint::from_bytes_le(b) + l * times;
    let mut bytes = v.to_bytes_le();
    if bytes.len() > 32 {
      return None;
    }
    bytes.resize(32, 0);
    bytes.try_into().ok()
  };
  let comps: Vec<(&'static str, Vec<(String, [u8; 32])>)> = vec![
    ("public key base point", repl(&base, vec![("other server's", Some(w2.pkb[..32].try_into().unwrap())), ("+G", add_g(&base)), ("identity", Some(ident)), ("tag point", Some(tagp))])),
    ("public key tag point", repl(&tagp, vec![("negated base point (entries cancel out)", CompressedRistretto(base).decompress().map(|b| (-b).compress().to_bytes())), ("other server's", Some(w2.pkb[slot2..slot2 + 32].try_into().unwrap())), ("other tag's", Some(w.pkb[other_slot..other_slot + 32].try_into().unwrap())), ("+G", add_g(&tagp)), ("identity", Some(ident)), ("base point", Some(base))])),
    ("input point", repl(&h.blinded, vec![("another honest request", Some(h_other_input.blinded)), ("+G", add_g(&h.blinded)), ("identity", Some(ident)), ("output point", Some(h.output))])),
    ("output point", repl(&h.output, vec![("of another input", Some(h_other_input.output)), ("of another tag", Some(h_other_tag.output)), ("of another server", Some(h_other_server.output)), ("+G", add_g(&h.output)), ("identity", Some(ident)), ("input point", Some(h.blinded))])),
    ("challenge c", repl(&c_bytes, vec![("+ l (second encoding of the same residue)", sc_plus_order(&c_bytes, 1)), ("+ 2l", sc_plus_order(&c_bytes, 2)), ("+1", sc_plus1(&c_bytes)), ("negated", sc_neg(&c_bytes)), ("zero", Some([0u8; 32])), ("of another proof", Some(h_other_input.proof[..32].try_into().unwrap())), ("response s", Some(s_bytes))])),
    ("response s", repl(&s_bytes, vec![("+ l (second encoding of the same residue)", sc_plus_order(&s_bytes, 1)), ("+ 2l", sc_plus_order(&s_bytes, 2)), ("+1", sc_plus1(&s_bytes)), ("negated", sc_neg(&s_bytes)), ("zero", Some([0u8; 32])), ("of another proof", Some(h_other_input.proof[32..64].try_into().unwrap())), ("challenge c", Some(c_bytes))])),
  ];
  // comparators that COMPRESS before comparing (an XOR fold, a byte sum, a prefix): the challenge altered in two
  // bytes so that the XOR of all byte differences, or their sum, is zero
  let mut comps = comps;
  {
    let mut folded: Vec<(String, [u8; 32])> = vec![];
    for i in 0..31usize {
      for j in [i + 1, 31 - (i % 16)] {
        if j == i || j > 31 {
          continue;
        }
        for bit in [0x01u8, 0x08] {
          let mut b = c_bytes;
          b[i] ^= bit;
          b[j] ^= bit;
          folded.push((format!("the same bit {:#04x} flipped in bytes {} and {} (XOR of the differences is zero)", bit, i, j), b));
        }
        let mut b = c_bytes;
        b[i] = b[i].wrapping_add(1);
        b[j] = b[j].wrapping_sub(1);
        folded.push((format!("byte {} + 1 and byte {} - 1 (sum of the differences is zero)", i, j), b));
      }
    }
    folded.retain(|(_, b)| *b != c_bytes && b[31] & 0xf0 == c_bytes[31] & 0xf0);
    comps.push(("challenge c", folded));
  }
  for (comp, reps) in comps {
    for (how, val) in reps {
      cx.eval();
      cx.nontrivial(fnv_str(&format!("{}|{}|{}", md, comp, how)));
      let mut pkb = w.pkb.clone();
      let (mut inp, mut out, mut proof) = (h.blinded, h.output, h.proof.clone());
      match comp {
        "public key base point" => pkb[..32].copy_from_slice(&val),
        "public key tag point" => pkb[slot..slot + 32].copy_from_slice(&val),
        "input point" => inp = val,
        "output point" => out = val,
        "challenge c" => proof[..32].copy_from_slice(&val),
        _ => proof[32..64].copy_from_slice(&val),
      }
      let pk = match pp::ServerPublicKey::load_from_bincode(&pkb) {
        Ok(k) => k,
        Err(_) => {
          cx.count("rejected_at_load", 1);
          continue;
        }
      };
      let ev = match ev_of(&out, &proof) {
        Some(e) => e,
        None => {
          cx.count("rejected_at_load", 1);
          continue;
        }
      };
      // history on the verifying thread: an honest verification right before and right after the tampered one
      let honest_ev = ev_of(&h.output, &h.proof).expect("ev");
      if guard(|| pp::Client::verify(&w.pk, &pt(&h.blinded), &honest_ev, md)) != Ok(true) {
        cx.viol("C13/complete/honest-rejected-after-tampered", format!("the honest evaluation is rejected after an evaluation with a replaced {} was checked on the same thread", comp), json!({"tag": md, "component": comp, "previous_replacement": how}));
      }
      match guard(|| pp::Client::verify(&pk, &pt(&inp), &ev, md)) {
        Ok(false) => cx.count("tampering_rejected", 1),
        Ok(true) => cx.viol(format!("C13/sound/{}-substitution-accepted", comp.replace(' ', "-")), format!("Client::verify accepted an evaluation whose {} was replaced ({})", comp, how), json!({"tag": md, "component": comp, "replacement": how, "value": hex(&val)})),
        Err(p) => cx.viol("C13/verify-panicked", format!("Client::verify panicked on a tampered {} ({}): {}", comp, how, p), json!({"tag": md, "component": comp, "replacement": how})),
      }
    }
  }
  // TWO components replaced at the same time (a verifier that "also tries" another arrangement of its
  // arguments accepts an exchange that no single replacement shows): every pair of named replacements of the
  // request point, the output point, c and s - among them request and output exchanged, c and s exchanged.
  // (Pairs inside the public key are left out: the verifier may legitimately use only the sum of its two entries.)
  {
    let named: Vec<(&'static str, Vec<(&'static str, [u8; 32])>)> = vec![
      ("input point", vec![("output point", h.output), ("another honest request", h_other_input.blinded), ("that request's output", h_other_input.output), ("identity", ident)]),
      ("output point", vec![("input point", h.blinded), ("of another input", h_other_input.output), ("another honest request", h_other_input.blinded), ("of another tag", h_other_tag.output), ("identity", ident)]),
      ("challenge c", vec![("response s", s_bytes), ("of another proof", h_other_input.proof[..32].try_into().unwrap()), ("zero", [0u8; 32])]),
      ("response s", vec![("challenge c", c_bytes), ("of another proof", h_other_input.proof[32..64].try_into().unwrap()), ("zero", [0u8; 32])]),
    ];
    for a in 0..named.len() {
      for b in (a + 1)..named.len() {
        for (ha, va) in &named[a].1 {
          for (hb, vb) in &named[b].1 {
            let (mut inp, mut out, mut proof) = (h.blinded, h.output, h.proof.clone());
            for (comp, val) in [(named[a].0, va), (named[b].0, vb)] {
              match comp {
                "input point" => inp = *val,
                "output point" => out = *val,
                "challenge c" => proof[..32].copy_from_slice(val),
                _ => proof[32..64].copy_from_slice(val),
              }
            }
            if (inp, out, &proof) == (h.blinded, h.output, &h.proof) {
              continue; // the replacement values coincide with the originals (neutral request point)
            }
            let ev = match ev_of(&out, &proof) {
              Some(e) => e,
              None => {
                cx.count("rejected_at_load", 1);
                continue;
              }
            };
            cx.eval();
            cx.nontrivial(fnv_str(&format!("{}|pair|{}|{}|{}|{}", md, named[a].0, ha, named[b].0, hb)));
            match guard(|| pp::Client::verify(&w.pk, &pt(&inp), &ev, md)) {
              Ok(false) => cx.count("pair_tampering_rejected", 1),
              Ok(true) => cx.viol("C13/sound/pair-substitution-accepted", format!("Client::verify accepted an evaluation in which TWO components were replaced at once: {} <- {}, {} <- {}", named[a].0, ha, named[b].0, hb), json!({"tag": md, "first": named[a].0, "first_replacement": ha, "second": named[b].0, "second_replacement": hb})),
              Err(p) => cx.viol("C13/verify-panicked", format!("Client::verify panicked on a doubly tampered evaluation: {}", p), json!({"tag": md})),
            }
          }
        }
      }
    }
  }
  // the proof removed altogether: an evaluation without a proof proves nothing
  {
    cx.eval();
    let ev = pp::Evaluation { output: pt(&h.output), proof: None };
    match guard(|| pp::Client::verify(&w.pk, &pt(&h.blinded), &ev, md)) {
      Ok(false) => cx.count("tampering_rejected", 1),
      Ok(true) => cx.viol("C13/sound/missing-proof-accepted", "Client::verify accepted an evaluation that carries NO proof (the honest output with its proof stripped): any output would be accepted", json!({"tag": md})),
      Err(p) => cx.viol("C13/verify-panicked", format!("Client::verify panicked on an evaluation without proof: {}", p), json!({"tag": md})),
    }
    let ev = pp::Evaluation { output: pt(&h_other_input.output), proof: None };
    if guard(|| pp::Client::verify(&w.pk, &pt(&h.blinded), &ev, md)) == Ok(true) {
      cx.viol("C13/sound/missing-proof-accepted", "Client::verify accepted a WRONG output that carries no proof", json!({"tag": md}));
    }
  }
  // the tag argument: EVERY other value 0..=255 (registered, unregistered, below / above / between published tags)
  for t in 0..=255u8 {
    if t == md {
      continue;
    }
    cx.eval();
    let honest_ev = ev_of(&h.output, &h.proof).expect("ev");
    match guard(|| pp::Client::verify(&w.pk, &pt(&h.blinded), &honest_ev, t)) {
      Ok(false) => cx.count("tampering_rejected", 1),
      Ok(true) => {
        cx.viol("C13/sound/tag-substitution-accepted", format!("an evaluation computed for tag {} verifies when the client asks for tag {} ({})", md, t, if TAGS.contains(&t) { "another registered tag" } else { "a tag the server never published" }), json!({"computed_for": md, "verified_as": t}));
        break;
      }
      Err(p) => {
        cx.viol("C13/verify-panicked", format!("Client::verify panicked for tag {}: {}", t, p), json!({"tag": t}));
        break;
      }
    }
  }
  for (how, t) in [("another registered tag", other_md), ("an unregistered tag", 9u8), ("tag+1", md.wrapping_add(1)), ("tag^0x80", md ^ 0x80)] {
    if t == md {
      continue;
    }
    cx.eval();
    match guard(|| pp::Client::verify(&w.pk, &pt(&h.blinded), &ev_of(&h.output, &h.proof).unwrap(), t)) {
      Ok(false) => cx.count("tampering_rejected", 1),
      Ok(true) => cx.viol("C13/sound/tag-substitution-accepted", format!("Client::verify accepted the evaluation for tag {} under {} ({})", md, how, t), json!({"tag": md, "verified_as": t})),
      Err(p) => cx.viol("C13/verify-panicked", p, json!({"tag": md, "verified_as": t})),
    }
  }
  // whole public key of the other server; evaluation of the other server under this key
  for (how, pk, hh) in [("other server's whole public key", &w2.pk, &h), ("other server's evaluation", &w.pk, &h_other_server)] {
    cx.eval();
    match guard(|| pp::Client::verify(pk, &pt(&hh.blinded), &ev_of(&hh.output, &hh.proof).unwrap(), md)) {
      Ok(false) => cx.count("tampering_rejected", 1),
      Ok(true) => cx.viol("C13/sound/server-substitution-accepted", format!("Client::verify accepted: {}", how), json!({"tag": md})),
      Err(p) => cx.viol("C13/verify-panicked", p, json!({"tag": md})),
    }
  }
  cx.outcome(format!("tag {}", md));
  cx.sample(json!({"tag": md, "components": ["public key base point", "public key tag point", "input point", "output point", "challenge c", "response s", "tag argument"], "replacements_per_32_byte_component": "named values + 256 single-bit flips"}));
}

/// commitment s*G + c*PK recomputed by the harness: pairwise distinct over all proofs, also for repeated identical requests
fn run_nonces(cx: &mut CaseCx, _case: &Value) {
  let w = world(cx, 0);
  cx.entropy(400);
  let mut seen: HashMap<[u8; 32], String> = HashMap::new();
  fn issue(cx: &mut CaseCx, seen: &mut HashMap<[u8; 32], String>, w: &World, label: String, blinded: &pp::Point, md: u8) -> Option<[u8; 32]> {
    let ev = guard(|| w.server.eval(blinded, md, true)).ok()?.ok()?;
    let pb = ev.proof?.serialize_to_bincode().ok()?;
    let c = Option::<Scalar>::from(Scalar::from_canonical_bytes(pb[..32].try_into().ok()?))?;
    let s = Option::<Scalar>::from(Scalar::from_canonical_bytes(pb[32..64].try_into().ok()?))?;
    let slot = tag_slot(&w.pkb, md)?;
    let pkmd = CompressedRistretto(w.pkb[..32].try_into().ok()?).decompress()? + CompressedRistretto(w.pkb[slot..slot + 32].try_into().ok()?).decompress()?;
    let commitment = (s * G + c * pkmd).compress().to_bytes();
    cx.eval();
    cx.nontrivial(fnv_str(&label));
    if let Some(prev) = seen.insert(commitment, label.clone()) {
      cx.viol("C13/nonce-reused", format!("two proofs carry the same commitment (same nonce): [{}] and [{}] - the key follows from the two responses (or from one, if the nonce is predictable)", prev, label), json!({"first": prev, "second": label}));
    }
    Some(commitment)
  }
  let reqs: Vec<(pp::Point, u8, String)> = {
    let mut v = vec![];
    for (ii, input) in super::c12::inputs().iter().enumerate().take(6) {
      for &md in &TAGS {
        let (b, _) = pp::Client::blind(input);
        v.push((b, md, format!("input #{} tag {}", ii, md)));
      }
    }
    v
  };
  for (b, md, label) in &reqs {
    // the very same request (same blinded point, same tag) issued four times
    for rep in 0..4 {
      issue(cx, &mut seen, &w, format!("{} (request repeated, #{})", label, rep), b, *md);
    }
  }
  // clones and restored servers are further provers for the same key: no commitment may repeat across them
  let clone = w.server.clone();
  let restored = {
    let mut f = pp::Server::new(vec![9]).expect("server");
    let st: pp::ServerKeyState = bincode::deserialize(&bincode::serialize(&w.server.get_private_key()).expect("export")).expect("state");
    f.set_private_key(st);
    f
  };
  let w_clone = World { server: clone, pk: w.pk.clone(), pkb: w.pkb.clone() };
  let w_rest = World { server: restored, pk: w.pk.clone(), pkb: w.pkb.clone() };
  let w_clone2 = World { server: w_clone.server.clone(), pk: w.pk.clone(), pkb: w.pkb.clone() };
  for round in 0..24 {
    for (b, md, label) in reqs.iter().take(8) {
      for (who, ww) in [("original", &w), ("clone", &w_clone), ("restored from exported state", &w_rest), ("clone of the clone", &w_clone2)] {
        issue(cx, &mut seen, ww, format!("{} by the {} server (round {})", label, who, round), b, *md);
      }
    }
  }
  cx.count("proofs_issued", seen.len() as u64);
  // informational: with replayed entropy the commitment repeats (the nonce is drawn from the entropy source)
  let (b, md, _) = &reqs[0];
  getrandom::verif::set_group(77);
  let c1 = issue(&mut cx.scratch(), &mut seen, &w, "probe".into(), b, *md);
  let bytes = getrandom::verif::group_bytes(77);
  getrandom::verif::set_script(&bytes);
  let mut sc = cx.scratch();
  let _ = c1;
  let c2 = issue(&mut sc, &mut seen, &w, "probe replay".into(), &reqs[1].0, reqs[1].1);
  getrandom::verif::clear_script();
  if !sc.viols.is_empty() && c2.is_some() {
    cx.count("nonce_follows_replayed_entropy", 1);
  } else {
    cx.count("nonce_independent_of_replayed_entropy", 1);
    cx.note("replaying a proof's entropy into another request did not reproduce the commitment: the nonce is not (only) drawn from the entropy source (informational)");
  }
  cx.outcome("nonces");
  cx.sample(json!({"proofs_issued": seen.len(), "repeated_identical_requests": 4}));
}


// ---------------------------------------------------------------- calibrated forgery
// A from-scratch replica of the challenge transcript, used ONLY to synthesise adversarial proofs: it is
// calibrated against honest proofs of the real prover (which subset of {B, M, Z, t2, t3} does the real
// challenge bind?). If the real challenge leaves a commitment unbound, a malicious server that knows its
// key can prove a WRONG output; the harness builds that proof and hands it to the real Client::verify.
// A violation is reported only if the real verifier accepts the forged evaluation.
fn strobe_hash64(input: &[u8], label: &str) -> [u8; 64] {
  let mut t = strobe_rs::Strobe::new(label.as_bytes(), strobe_rs::SecParam::B128);
  t.key(input, false);
  let mut out = [0u8; 64];
  t.meta_ad(&(64u32).to_le_bytes(), false);
  t.prf(&mut out, false);
  out
}
fn h2s(input: &[u8], label: &str) -> Scalar {
  Scalar::from_bytes_mod_order_wide(&strobe_hash64(input, label))
}
fn lp(out: &mut Vec<u8>, p: &RistrettoPoint) {
  out.extend_from_slice(&32u16.to_be_bytes());
  out.extend_from_slice(p.compress().as_bytes());
}
fn composites(b: &RistrettoPoint, c: &RistrettoPoint, d: &RistrettoPoint) -> (RistrettoPoint, RistrettoPoint) {
  let ctx = "PPOPRFv1-3-ristretto255-strobe";
  let mut st = vec![];
  lp(&mut st, b);
  st.extend_from_slice(&(ctx.len() as u16).to_be_bytes());
  st.extend_from_slice(ctx.as_bytes());
  let seed = strobe_hash64(&st, "Seed");
  let mut ct = vec![];
  ct.extend_from_slice(&64u16.to_be_bytes());
  ct.extend_from_slice(&seed);
  ct.extend_from_slice(&0u16.to_be_bytes());
  lp(&mut ct, c);
  lp(&mut ct, d);
  let di = h2s(&ct, "Composite");
  (di * c, di * d)
}
/// challenge over the elements selected by `mask` (bits 0..4 = B, M, Z, t2, t3), in one of the encoding
/// variants of the calibration family: variant bit 0 = without the 2-byte length prefixes, bits 1..2 =
/// zero padding of the transcript to 0 / 160 / 170 bytes (a buffer pre-sized for five points)
fn challenge_subset(pts: &[RistrettoPoint; 5], mask: u32) -> Scalar {
  let variant = mask >> 8;
  let mut t = vec![];
  for (i, p) in pts.iter().enumerate() {
    if mask >> i & 1 == 1 {
      if variant & 1 == 0 {
        lp(&mut t, p);
      } else {
        t.extend_from_slice(p.compress().as_bytes());
      }
    }
  }
  let pad_to = match variant >> 1 {
    1 => 160,
    2 => 170,
    _ => 0,
  };
  if t.len() < pad_to {
    t.resize(pad_to, 0);
  }
  h2s(&t, "Challenge")
}

fn run_forgery(cx: &mut CaseCx, _case: &Value) {
  let w = world(cx, 0);
  cx.entropy(450);
  let md = 7u8;
  let h = match honest(&w, md, b"forgery base") {
    Ok(h) => h,
    Err(_) => return,
  };
  let dec = |b: &[u8]| CompressedRistretto(b.try_into().unwrap()).decompress();
  let slot = tag_slot(&w.pkb, md).unwrap();
  let (bp, tp, inp, outp) = match (dec(&w.pkb[..32]), dec(&w.pkb[slot..slot + 32]), dec(&h.blinded), dec(&h.output)) {
    (Some(a), Some(b), Some(c), Some(d)) => (a, b, c, d),
    _ => return,
  };
  let b_pt = bp + tp;
  let c0 = Option::<Scalar>::from(Scalar::from_canonical_bytes(h.proof[..32].try_into().unwrap()));
  let s0 = Option::<Scalar>::from(Scalar::from_canonical_bytes(h.proof[32..64].try_into().unwrap()));
  let (c0, s0) = match (c0, s0) {
    (Some(c), Some(s)) => (c, s),
    _ => return,
  };
  let (m, z) = composites(&b_pt, &outp, &inp);
  let t2 = s0 * G + c0 * b_pt;
  let t3 = s0 * m + c0 * z;
  let pts = [b_pt, m, z, t2, t3];
  cx.eval();
  // documented transcript first (all five, with prefixes, no padding), then the rest of the family
  let family: Vec<u32> = (0..6u32).flat_map(|variant| (1..32u32).rev().map(move |m| m | variant << 8)).collect();
  let bound: Option<u32> = family.into_iter().find(|&mask| challenge_subset(&pts, mask) == c0);
  let names = ["public value", "composite M", "composite Z", "commitment t2", "commitment t3"];
  let mask = match bound {
    None => {
      cx.count("transcript_replica_unavailable", 1);
      cx.note("the challenge of honest proofs matches no subset of the documented transcript (format changed?): forgery synthesis skipped, never an alarm");
      return;
    }
    Some(m) => m,
  };
  cx.count("transcript_calibrated", 1);
  cx.outcome(format!("challenge binds {:?}", (0..5).filter(|i| mask >> i & 1 == 1).map(|i| names[i]).collect::<Vec<_>>()));
  if mask & 31 == 31 {
    cx.count("challenge_binds_all_five", 1);
    cx.nontrivial(31);
    cx.sample(json!({"challenge_binds": names}));
    // still try the two classic forgeries against the real verifier: they must be rejected
  }
  // tagged key of the server (a malicious server knows it): k + PRF(tag)
  let k: Option<Scalar> = bincode::serialize(&w.server.get_private_key()).ok().and_then(|b| crate::ggmx::parse_export(&b)).and_then(|e| Option::from(Scalar::from_canonical_bytes(e.oprf_key)));
  let mut leaf = [0u8; 32];
  use ppoprf::PPRF;
  let kt = match (k, w.server.verif_pprf().eval(&[md], &mut leaf)) {
    (Some(k), Ok(())) => k + Scalar::from_bytes_mod_order(leaf),
    _ => {
      cx.count("server_key_unobservable", 1);
      return;
    }
  };
  if kt * G != b_pt {
    cx.count("server_key_unobservable", 1);
    return;
  }
  // wrong output: computed under key kt+1
  let wrong = (kt + Scalar::ONE).invert() * inp;
  let (m2, z2) = composites(&b_pt, &wrong, &inp);
  let r = Scalar::from(0x1234_5678_9abc_u64) + c0; // any nonce
  let mut attempts: Vec<(&str, Scalar, Scalar)> = vec![];
  {
    // strategy A (works iff t3 is not bound): honest Schnorr proof of knowledge of kt w.r.t. G only
    let t2f = r * G;
    let t3f = r * m2; // what an honest prover would put; irrelevant if unbound
    let c = challenge_subset(&[b_pt, m2, z2, t2f, t3f], mask);
    attempts.push(("t3 unbound: Schnorr proof for the public key only", c, r - c * kt));
  }
  {
    // strategy B (works iff t2 is not bound): proof of knowledge of kt+1 w.r.t. base M'
    let t3f = r * m2;
    let t2f = r * G;
    let c = challenge_subset(&[b_pt, m2, z2, t2f, t3f], mask);
    attempts.push(("t2 unbound: Schnorr proof for the wrong key w.r.t. M", c, r - c * (kt + Scalar::ONE)));
  }
  for (how, c, s) in attempts {
    let mut proof = c.to_bytes().to_vec();
    proof.extend_from_slice(&s.to_bytes());
    let ev = match ev_of(&wrong.compress().to_bytes(), &proof) {
      Some(e) => e,
      None => continue,
    };
    cx.eval();
    cx.nontrivial(fnv_str(how));
    match guard(|| pp::Client::verify(&w.pk, &pt(&h.blinded), &ev, md)) {
      Ok(false) => cx.count("forgeries_rejected", 1),
      Ok(true) => cx.viol("C13/sound/forged-proof-accepted", format!("Client::verify accepted a FORGED proof for an output computed under a different key ({}); the real challenge binds only {:?}", how, (0..5).filter(|i| mask >> i & 1 == 1).map(|i| names[i]).collect::<Vec<_>>()), json!({"strategy": how, "wrong_output": hex(wrong.compress().as_bytes()), "proof": hex(&proof), "challenge_binds": (0..5).filter(|i| mask >> i & 1 == 1).map(|i| names[i]).collect::<Vec<_>>()})),
      Err(p) => cx.viol("C13/verify-panicked", p, json!({"strategy": how})),
    }
  }
}

pub fn spec() -> PropSpec {
  PropSpec {
    id: "C13",
    level: "fault_enumeration",
    assumptions: vec![
      "soundness of the DLEQ proof system (discrete log hardness, random oracle) is the trusted base: decided is rejection of every enumerated single-component substitution; substitutions that do not decode count as rejected at load (crash-freedom on them is C09)",
      "nonce freshness is decided on all proofs issued in the run, including identical requests repeated four times; entropy is the scripted stream (distinct requests receive independent answers)",
    ],
    thorough_budget_s: 900,
    checks: vec![
      Check {
        name: "completeness",
        rule: "every (server key, tag, 10 inputs, 2 blindings): honest verifiable evaluation verifies, also after Evaluation -> JSON -> back, proof -> bincode -> back, public key -> bincode -> back",
        gen: |tier| (0..if tier.thorough() { 4 } else { 2 }).map(|k| json!({"key": k})).collect(),
        run: run_completeness,
        min_counts: &[("honest_verified", 100)],
      },
      Check {
        name: "completeness-large-tag-sets",
        rule: "servers registering the first n tags for n in {1, 8, 128, 254, 255, 256}: public key serialised and restored, honest verifiable evaluations for the first, middle and last tag verify against both",
        gen: |_| [1u64, 8, 128, 254, 255, 256].iter().map(|n| json!({"tags": n})).collect(),
        run: run_completeness_big,
        min_counts: &[("honest_verified", 15)],
      },
      Check {
        name: "soundness-matrix",
        rule: "per tag (honest client request; also honest evaluations of the neutral element and of the base point as request): components {pk base point, pk tag point, input point, output point, c, s} x replacements {same component from another server / tag / request, neighbour (+G, +1, negation), identity / zero, a different component of the same evaluation, EVERY single-bit flip of the 32-byte encoding} plus tag-argument and whole-key substitutions: verify must be false in every cell; every tampered verification is preceded (and followed) by an honest one on the same thread, which must stay true; plus every PAIR of named replacements among request point, output point, c and s applied at once (request and output exchanged, c and s exchanged, request and output of another honest exchange under this proof, ...)",
        gen: |_| {
          let mut v: Vec<Value> = TAGS.iter().map(|&t| json!({"md": t})).collect();
          // the same matrix on honest evaluations of special request points
          v.push(json!({"md": 7, "base": "identity"}));
          v.push(json!({"md": 1, "base": "basepoint"}));
          v
        },
        run: run_soundness,
        min_counts: &[("tampering_rejected", 2000), ("rejected_at_load", 10), ("pair_tampering_rejected", 300)],
      },
      Check {
        name: "forged-proofs",
        rule: "adversarial synthesis: a replica of the challenge transcript is calibrated on honest proofs (which of public value, M, Z, t2, t3 does the real challenge bind? 31 subsets x {with/without length prefixes} x {no padding, zero-padded to 160/170 bytes}); with the server's tagged key (export + hook) the harness builds proofs for an output computed under key+1 by the two Schnorr strategies that succeed iff t3 resp. t2 is unbound, and hands them to the real Client::verify: must be rejected",
        gen: |_| vec![json!({})],
        run: run_forgery,
        min_counts: &[],
      },
      Check {
        name: "tag-list-shapes",
        rule: "Server::new with 12 tag lists as callers may produce them (unsorted, descending, repeats adjacent / apart / at either end, one tag, the full space with and without repeats): for every distinct tag (large lists: the extremes and the middle) the honest verifiable evaluation verifies against the public key and its restored form, and verifies under NO other tag - of the list, and (lists of up to 8 distinct tags, single-tag lists among them) under none of the 256 tag values a client may claim",
        gen: |_| (0..12u64).map(|i| json!({"list": i})).collect(),
        run: run_tag_list_shapes,
        min_counts: &[("honest_verified", 40), ("cross_tag_rejected", 100), ("unpublished_tag_claims", 2000)],
      },
      Check {
        name: "after-key-sync",
        rule: "a leader with tags {1,2,3} exports its key state; followers created with the same tags, a subset, a superset, a shifted window, disjoint tags, no tags, the same tags unsorted (each having answered requests before) import it: for every tag of either list and 0, 5, 255: a verifiable evaluation the follower RETURNS verifies against the key the follower publishes (and against the leader's for the leader's tags); the leader's tags are never refused",
        gen: |_| vec![json!({})],
        run: run_after_key_sync,
        min_counts: &[("synced_evaluations_verified", 20), ("synced_refusals", 20)],
      },
      Check {
        name: "completeness-after-punctures",
        rule: "server with all 256 tags; 5 cousin families ({0,64,128,192}, {1,65,129,193}, {0..3}, {252..255}, {0,128,1,129}); after EVERY ordered sequence of 1..3 distinct punctures from the family, the verifiable evaluation of every live tag of the family and of its x^0x80, x^0x40, x^0x01 neighbours verifies against the public key published at creation",
        gen: |_| (0..5u64).map(|f| json!({"family": f})).collect(),
        run: run_completeness_after_punctures,
        min_counts: &[("honest_verified", 1200)],
      },
      Check { name: "nonce-entropy", rule: "E-env on the proof nonce (2 tags): issuing a proof consumes at least 32 bytes of OS entropy; the identical request under 16 single-bit variants of the first 16 entropy bytes gives 17 pairwise different challenges (commitments) - a nonce computed from the key and the statement instead of fresh entropy is recomputable from the key state", gen: |_| vec![json!({})], run: run_nonce_entropy, min_counts: &[("nonce_entropy_variants_distinct", 32)] },
      Check { name: "nonces", rule: "commitment s*G + c*PK recomputed for every proof issued (6 inputs x 4 tags x the identical request repeated 4 times; then the same requests answered in lockstep by the original server, a clone, a clone of the clone and a server restored from the exported state): pairwise distinct (about 860 proofs on one thread, more than any plausible per-thread pool)", gen: |_| vec![json!({})], run: run_nonces, min_counts: &[("proofs_issued", 90)] },
    ],
  }
}
