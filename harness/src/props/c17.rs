//! C17 — the WASM string API is a faithful wrapper of the core protocol (called natively).
use crate::mc::*;
use crate::sut::*;
use base64::{engine::Engine as _, prelude::BASE64_STANDARD};
use num_bigint::BigUint;
use serde_json::{json, Value};
use sta_rs::{MessageGenerator, SingleMeasurement};

fn epochs() -> Vec<String> {
  // the last five differ from "", "t" only by surrounding whitespace (ASCII and Unicode)
  vec!["".into(), "t".into(), "tt".into(), "epoch".into(), "é".into(), "x".repeat(64), " ".into(), "t ".into(), " t".into(), "t\n".into(), "\u{a0}t\u{3000}".into()]
}
fn measurements() -> Vec<Vec<u8>> {
  vec![vec![], b"a".to_vec(), vec![0x00, 0xff, 0x80], prbytes(31, 32), prbytes(32, 1024), b"https://example.com/some/page".to_vec()]
}

struct Created {
  key: Vec<u8>,
  share_b64: String,
  x: BigUint,
}
fn create(cx: &mut CaseCx, m: &[u8], t: u32, epoch: &str, d: &Value) -> Option<Created> {
  let s = match guard(|| star_wasm::create_share(m, t, epoch)) {
    Ok(s) => s,
    Err(p) => {
      cx.viol("C17/create_share-panicked", p, d.clone());
      return None;
    }
  };
  cx.eval();
  let v: Value = match serde_json::from_str(&s) {
    Ok(v) => v,
    Err(e) => {
      cx.viol("C17/create_share-not-json", format!("create_share did not return well-formed JSON: {} ({:?})", e, s.chars().take(60).collect::<String>()), d.clone());
      return None;
    }
  };
  let obj = v.as_object()?;
  let mut keys: Vec<&str> = obj.keys().map(|k| k.as_str()).collect();
  keys.sort();
  if keys != ["key", "share", "tag"] {
    cx.viol("C17/create_share-fields", format!("JSON object has fields {:?}, expected key/share/tag", keys), d.clone());
    return None;
  }
  let dec = |name: &str| obj[name].as_str().and_then(|x| BASE64_STANDARD.decode(x).ok());
  let (key, share, tag) = match (dec("key"), dec("share"), dec("tag")) {
    (Some(k), Some(s), Some(t)) => (k, s, t),
    _ => {
      cx.viol("C17/create_share-base64", "a field is not standard base64", d.clone());
      return None;
    }
  };
  if key.len() != 16 || tag.len() != 32 {
    cx.viol("C17/create_share-lengths", format!("key {} bytes (16 expected), tag {} bytes (32 expected)", key.len(), tag.len()), d.clone());
  }
  let x = match (sta_rs::Share::from_bytes(&share), share_x(&share)) {
    (Some(_), Some(x)) => x,
    _ => {
      cx.viol("C17/create_share-share-invalid", "the share field does not decode with Share::from_bytes", d.clone());
      return None;
    }
  };
  // equal to what the core library derives for the same inputs
  let mg = MessageGenerator::new(SingleMeasurement::new(m), t, epoch.as_bytes());
  match guard(|| mg.share_with_local_randomness().map_err(|e| e.to_string())) {
    Ok(Ok(w)) => {
      if w.key.to_vec() != key {
        cx.viol("C17/key-differs-from-core", "create_share's key differs from MessageGenerator::share_with_local_randomness", d.clone());
      }
      if w.tag.to_vec() != tag {
        cx.viol("C17/tag-differs-from-core", "create_share's tag differs from MessageGenerator::share_with_local_randomness", d.clone());
      }
      // the share is a share of the same sharing: everything but the Shamir part equal
      let (a, b) = (crate::refmodel::parse_adss(&share), crate::refmodel::parse_adss(&w.share.to_bytes()));
      match (a, b) {
        (Some(a), Some(b)) => {
          if a.threshold != t || a.c != b.c || a.d != b.d || a.j != b.j {
            cx.viol("C17/share-differs-from-core", "create_share's share is not a share of the sharing the core library produces (threshold / C / D / J differ)", d.clone());
          }
        }
        _ => cx.viol("C17/share-layout", "share does not parse per the documented layout", d.clone()),
      }
    }
    other => cx.viol("C17/core-failed", format!("{:?}", other.map(|r| r.map(|_| ()))), d.clone()),
  }
  Some(Created { key, share_b64: obj["share"].as_str()?.to_string(), x })
}

fn run_cfg(cx: &mut CaseCx, case: &Value) {
  let t = case["t"].as_u64().unwrap() as u32;
  let m = measurements()[case["m"].as_u64().unwrap() as usize].clone();
  let eps = epochs();
  let epoch = eps[case["e"].as_u64().unwrap() as usize].clone();
  let d = json!({"t": t, "measurement": hexs(&m), "epoch": epoch});
  let n = t as usize + 1;
  let mut cs: Vec<Created> = vec![];
  for i in 0..n {
    getrandom::verif::set_group(i as u32 + 1);
    match create(cx, &m, t, &epoch, &d) {
      Some(c) => cs.push(c),
      None => return,
    }
  }
  let key_b64 = BASE64_STANDARD.encode(&cs[0].key);
  if cs.iter().any(|c| c.key != cs[0].key) {
    cx.viol("C17/keys-differ-between-clients", "clients of one measurement hold different keys", d.clone());
  }
  let xs: Vec<BigUint> = cs.iter().map(|c| c.x.clone()).collect();
  cx.nontrivial(fnv_str(&case.to_string()));
  let group = |cx: &mut CaseCx, joined: &str, ep: &str| -> Option<Option<String>> {
    cx.eval();
    match guard(|| star_wasm::group_shares(joined, ep)) {
      Ok(r) => Some(r),
      Err(p) => {
        cx.viol("C17/group_shares-panicked", p, json!({"epoch": ep}));
        None
      }
    }
  };
  for_each_seq(n, n + 1, |sel| {
    if sel.is_empty() {
      return;
    }
    let joined = sel.iter().map(|&i| cs[i].share_b64.clone()).collect::<Vec<_>>().join("\n");
    let dist = super::c01::distinct_x(&xs, sel);
    let dd = || json!({"t": t, "measurement": hexs(&m), "epoch": epoch, "sel": sel, "distinct": dist});
    // the clients' epoch, then every other epoch, then the clients' epoch again (no call may influence another)
    let mut order: Vec<&str> = vec![&epoch];
    for e in &eps {
      if *e != epoch {
        order.push(e);
      }
    }
    order.push(&epoch);
    // and once starting with a wrong epoch
    let wrong_first = eps.iter().find(|e| **e != epoch).unwrap();
    let mut order2: Vec<&str> = vec![wrong_first, &epoch];
    order2.extend(order.iter().skip(1));
    for ord in [order, order2] {
      for ep in ord {
        match group(cx, &joined, ep) {
          None => return,
          Some(res) => {
            cx.count("states", 1);
            cx.count("transitions", 1);
            if ep == epoch {
              if dist >= t as usize {
                if res.as_deref() != Some(&key_b64) {
                  cx.viol("C17/group_shares-wrong-key", format!("group_shares with the clients' epoch and {} >= t distinct shares returned {:?} instead of the clients' key", dist, res.as_ref().map(|s| s.chars().take(12).collect::<String>())), dd());
                } else {
                  cx.count("grouped_ok", 1);
                }
              } else if res.is_some() {
                cx.viol("C17/group_shares-below-threshold", format!("group_shares returned a key from {} < t distinct shares", dist), dd());
              } else {
                cx.count("below_threshold_none", 1);
              }
            } else if res.as_deref() == Some(&key_b64) {
              cx.viol("C17/group_shares-wrong-epoch-yields-key", format!("group_shares with epoch {:?} (clients used {:?}) returned the clients' key", ep, epoch), dd());
            } else {
              cx.count("wrong_epoch_no_key", 1);
              if dist < t as usize && res.is_some() {
                cx.viol("C17/group_shares-below-threshold", "a key was returned below threshold (wrong epoch)", dd());
              }
            }
          }
        }
      }
    }
  });
  // mixtures of two measurements in which neither reaches its threshold => nothing
  if t >= 2 {
    let mut m2 = m.clone();
    m2.push(b'!');
    let mut other: Vec<Created> = vec![];
    for i in 0..(t as usize - 1) {
      getrandom::verif::set_group(50 + i as u32);
      if let Some(c) = create(cx, &m2, t, &epoch, &d) {
        other.push(c);
      }
    }
    let pool: Vec<&Created> = cs.iter().take(t as usize - 1).chain(other.iter()).collect();
    for_each_seq(pool.len(), (t as usize + 1).min(4), |sel| {
      if sel.is_empty() {
        return;
      }
      let joined = sel.iter().map(|&i| pool[i].share_b64.clone()).collect::<Vec<_>>().join("\n");
      if let Some(res) = group(cx, &joined, &epoch) {
        if res.is_some() {
          cx.viol("C17/group_shares-mixture-yields-key", "a collection in which no measurement reaches its threshold yielded a key", json!({"t": t, "sel": sel}));
        } else {
          cx.count("mixture_none", 1);
        }
      }
    });
  }
  // distinct epochs must give distinct tags and keys through the wrapper too
  {
    let mut seen: std::collections::HashMap<(Vec<u8>, Vec<u8>), String> = std::collections::HashMap::new();
    for e in &eps {
      if let Some(c) = create(cx, &m, t, e, &d) {
        let v: Value = serde_json::from_str(&star_wasm::create_share(&m, t, e)).unwrap_or(json!({}));
        let tag = v["tag"].as_str().map(|x| x.as_bytes().to_vec()).unwrap_or_default();
        if let Some(prev) = seen.insert((c.key.clone(), tag), e.clone()) {
          cx.viol("C17/epochs-collide", format!("epochs {:?} and {:?} give the same key and tag through create_share", prev, e), json!({"t": t, "measurement": hexs(&m), "epochs": [prev, e]}));
        }
      }
    }
  }
  cx.outcome(format!("t={}", t));
  cx.sample(json!({"t": t, "measurement": hexs(&m), "epoch": epoch, "json_example": star_wasm::create_share(&m, t, &epoch).chars().take(80).collect::<String>()}));
}




/// a rejected grouping call (malformed line after valid ones) must leave nothing behind for the next call;
/// shares at 129-bit evaluation points group like any other
fn run_call_history(cx: &mut CaseCx, case: &Value) {
  let t = case["t"].as_u64().unwrap() as u32;
  let d = json!({"t": t});
  let mk = |cx: &mut CaseCx, m: &[u8], n: usize, craft: &[&str]| -> Vec<Created> {
    let mut v = vec![];
    for i in 0..n {
      getrandom::verif::set_group(i as u32 + 1);
      if let Some(c) = craft.get(i) {
        apply_answer(&Ans::Craft(c.to_string()));
      }
      let c = create(cx, m, t, "e", &d);
      getrandom::verif::clear_script();
      if let Some(c) = c {
        v.push(c);
      }
    }
    v
  };
  let a = mk(cx, b"measurement A", t as usize + 1, &[]);
  let b = mk(cx, b"measurement B", t as usize + 1, &[]);
  if a.len() != t as usize + 1 || b.len() != t as usize + 1 {
    return;
  }
  let key_a = BASE64_STANDARD.encode(&a[0].key);
  let key_b = BASE64_STANDARD.encode(&b[0].key);
  let join = |v: &[&Created]| v.iter().map(|c| c.share_b64.clone()).collect::<Vec<_>>().join("\n");
  let bad_tails = ["!", "", "AAAA", "\u{e9}"];
  for bad in bad_tails {
    for k in 1..=t as usize {
      // call 1: k valid shares of A followed by a malformed line (e.g. a trailing newline) -> nothing
      let first = format!("{}\n{}", join(&a.iter().take(k).collect::<Vec<_>>()), bad);
      cx.eval();
      cx.nontrivial(fnv_str(&format!("{}|{}|{}", t, bad, k)));
      match guard(|| star_wasm::group_shares(&first, "e")) {
        Ok(None) => {}
        other => {
          cx.viol("C17/group_shares-malformed-line", format!("a collection with a malformed line returned {:?}", other.map(|o| o.is_some())), json!({"t": t, "bad_line": bad}));
          continue;
        }
      }
      // call 2a: fewer than t shares of A -> nothing (nothing of call 1 may be counted)
      if t >= 2 {
        let few = join(&a.iter().skip(k.min(t as usize)).take(t as usize - 1).collect::<Vec<_>>());
        if !few.is_empty() {
          cx.eval();
          if guard(|| star_wasm::group_shares(&few, "e")) != Ok(None) {
            cx.viol("C17/group_shares-carries-state", format!("after a rejected call that held {} valid share(s), a call with only {} < t shares returned a key", k, t - 1), json!({"t": t, "valid_shares_in_rejected_call": k, "bad_line": bad}));
          }
        }
      }
      // call 1 again, then 2b: a complete grouping of ANOTHER measurement -> its key
      let _ = guard(|| star_wasm::group_shares(&first, "e"));
      cx.eval();
      match guard(|| star_wasm::group_shares(&join(&b.iter().take(t as usize).collect::<Vec<_>>()), "e")) {
        Ok(Some(kb)) if kb == key_b => cx.count("history_ok", 1),
        other => cx.viol("C17/group_shares-carries-state", format!("after a rejected call, a complete grouping of another measurement returned {:?} instead of its key", other.map(|o| o.map(|s| s == key_a))), json!({"t": t, "valid_shares_in_rejected_call": k, "bad_line": bad})),
      }
    }
  }
  // crafted evaluation points in [2^128, p)
  let pts = ["340282366920938463463374607431768211461", "340282366920938463463374607431768223906", "340282366920938463463374607431768211456", "5"];
  let c = mk(cx, b"measurement C", (t as usize).min(4), &pts);
  if c.len() == (t as usize).min(4) && c.len() == t as usize && c.iter().zip(pts.iter()).all(|(c, p)| c.x.to_string() == *p) {
    cx.eval();
    let want = BASE64_STANDARD.encode(&c[0].key);
    match guard(|| star_wasm::group_shares(&join(&c.iter().collect::<Vec<_>>()), "e")) {
      Ok(Some(k)) if k == want => cx.count("crafted_points_grouped", 1),
      other => cx.viol("C17/group_shares-wrong-key", format!("t shares at the evaluation points {:?} (some in [2^128, p)) grouped to {:?} instead of the clients' key", &pts[..t as usize], other.map(|o| o.is_some())), json!({"t": t, "points": &pts[..t as usize]})),
    }
  } else {
    cx.count("craft_miss", 1);
  }
  // two DISTINCT shares of one measurement that carry the SAME value: a polynomial of degree >= 2 takes a value
  // at several points. From t = 3 honest shares the quadratic is interpolated (model), the twin point of share 0
  // is x' = -c1/c2 - x0, and a share is created there by scripting the client's entropy.
  if t == 3 {
    use crate::refmodel as rm;
    let pts3: Vec<(BigUint, BigUint)> = a.iter().take(3).filter_map(|c| BASE64_STANDARD.decode(&c.share_b64).ok().and_then(|b| rm::parse_adss(&b)).and_then(|p| p.s.y.first().map(|y| (p.s.x.clone(), y.clone())))).collect();
    if pts3.len() == 3 {
      let co = rm::interpolate_coeffs(&pts3);
      if let Some(inv) = rm::invm(&co[2]) {
        let twin_x = rm::subm(&rm::negm(&rm::mulm(&co[1], &inv)), &pts3[0].0);
        if twin_x != BigUint::from(0u32) && pts3.iter().all(|p| p.0 != twin_x) {
          let tw = mk(cx, b"measurement A", 1, &[&twin_x.to_string()]);
          let same_value = tw.first().and_then(|c| BASE64_STANDARD.decode(&c.share_b64).ok()).and_then(|b| rm::parse_adss(&b)).map(|p| p.s.x == twin_x && p.s.y.first() == Some(&pts3[0].1)).unwrap_or(false);
          if same_value {
            let want = BASE64_STANDARD.encode(&a[0].key);
            for order in [[0usize, 3, 1], [3, 0, 2], [1, 2, 3], [3, 1, 0]] {
              let pool: Vec<&Created> = vec![&a[0], &a[1], &a[2], &tw[0]];
              let sel: Vec<&Created> = order.iter().map(|&i| pool[i]).collect();
              cx.eval();
              match guard(|| star_wasm::group_shares(&join(&sel), "e")) {
                Ok(Some(k)) if k == want => cx.count("equal_value_twins_grouped", 1),
                other => {
                  cx.viol("C17/group_shares-wrong-key/equal-values", format!("three distinct valid shares of one measurement (t = 3), two of which carry the same VALUE at different evaluation points, grouped to {:?} instead of the clients' key", other.map(|o| o.is_some())), json!({"t": t, "order": order}));
                  break;
                }
              }
            }
          } else {
            cx.count("craft_miss", 1);
          }
        }
      }
    }
  }
  cx.outcome("call history");
}

/// large thresholds through the wrapper: exactly t shares group to the key; huge thresholds are passed on unchanged
fn run_large_thresholds(cx: &mut CaseCx, case: &Value) {
  let t = case["t"].as_u64().unwrap() as u32;
  let m = b"large threshold".to_vec();
  let d = json!({"t": t});
  if t > 1000 {
    // only the create side: key, tag and the share's deterministic fields must be the core's for THIS threshold
    cx.nontrivial(t as u64);
    let _ = create(cx, &m, t, "e", &d);
    cx.count("huge_threshold_created", 1);
    return;
  }
  let mut cs: Vec<Created> = vec![];
  for i in 0..t as usize {
    getrandom::verif::set_group(i as u32 + 1);
    // full create-side checks on the first share only (they are O(t) each)
    let c = if i == 0 {
      create(cx, &m, t, "e", &d)
    } else {
      let v: Value = serde_json::from_str(&star_wasm::create_share(&m, t, "e")).unwrap_or(json!({}));
      let sb = v["share"].as_str().and_then(|x| BASE64_STANDARD.decode(x).ok()).unwrap_or_default();
      match (v["key"].as_str().and_then(|x| BASE64_STANDARD.decode(x).ok()), share_x(&sb)) {
        (Some(key), Some(x)) => Some(Created { key, share_b64: v["share"].as_str().unwrap().to_string(), x }),
        _ => None,
      }
    };
    match c {
      Some(c) => cs.push(c),
      None => return,
    }
  }
  let key_b64 = BASE64_STANDARD.encode(&cs[0].key);
  cx.nontrivial(t as u64);
  for (name, order) in [("dealt order", (0..t as usize).collect::<Vec<_>>()), ("reversed", (0..t as usize).rev().collect())] {
    let joined = order.iter().map(|&i| cs[i].share_b64.clone()).collect::<Vec<_>>().join("\n");
    cx.eval();
    cx.count("states", 1);
    cx.count("transitions", 1);
    match guard(|| star_wasm::group_shares(&joined, "e")) {
      Ok(Some(k)) if k == key_b64 => cx.count("grouped_ok", 1),
      other => cx.viol("C17/group_shares-wrong-key", format!("threshold {}: exactly t distinct shares ({}) grouped to {:?} instead of the clients' key", t, name, other.map(|o| o.map(|s| s.chars().take(8).collect::<String>()))), json!({"t": t, "order": name})),
    }
  }
  // t-1 of them: nothing
  let joined = cs[1..].iter().map(|c| c.share_b64.clone()).collect::<Vec<_>>().join("\n");
  cx.eval();
  if guard(|| star_wasm::group_shares(&joined, "e")) != Ok(None) {
    cx.viol("C17/group_shares-below-threshold", format!("threshold {}: t-1 shares yielded a key", t), json!({"t": t}));
  }
}

/// measurements whose sharing key has boundary bytes (0x00 / 0xff first, middle, last): grouping must still work
fn run_boundary_keys(cx: &mut CaseCx, case: &Value) {
  let t = case["t"].as_u64().unwrap() as u32;
  let lo = case["lo"].as_u64().unwrap();
  let epoch = "e";
  let mut hits = 0u64;
  for i in lo..lo + 250 {
    let m = format!("measurement-{}", i).into_bytes();
    let n = t as usize + 1;
    let mut shares: Vec<(String, Vec<u8>)> = vec![];
    let mut key = String::new();
    for k in 0..n {
      getrandom::verif::set_group(k as u32 + 1);
      let v: Value = serde_json::from_str(&star_wasm::create_share(&m, t, epoch)).unwrap_or(json!({}));
      let sb = v["share"].as_str().and_then(|x| BASE64_STANDARD.decode(x).ok()).unwrap_or_default();
      key = v["key"].as_str().unwrap_or("").to_string();
      shares.push((v["share"].as_str().unwrap_or("").to_string(), sb));
    }
    let mut pts = vec![];
    for (_, sb) in &shares {
      if let Some(p) = crate::refmodel::parse_adss(sb) {
        if p.s.y.len() == 1 && !pts.iter().any(|q: &(BigUint, BigUint)| q.0 == p.s.x) {
          pts.push((p.s.x, p.s.y[0].clone()));
        }
      }
    }
    if pts.len() < t as usize {
      continue;
    }
    let k = crate::refmodel::le24(&crate::refmodel::lagrange_at_zero(&pts[..t as usize]));
    cx.count("keys_examined", 1);
    if !(k[15] == 0 || k[0] == 0 || k[15] == 0xff || k[0] == 0xff || k[8] == 0 || k[..16].windows(2).any(|w| w == [0, 0])) {
      continue;
    }
    hits += 1;
    cx.nontrivial(fnv(&m) ^ t as u64);
    let mut sels: Vec<Vec<usize>> = vec![(0..n).collect()];
    for_each_subset(n, t as usize, |s| sels.push(s.to_vec()));
    for sel in sels {
      let joined = sel.iter().map(|&i| shares[i].0.clone()).collect::<Vec<_>>().join("\n");
      cx.eval();
      cx.count("states", 1);
      cx.count("transitions", 1);
      match guard(|| star_wasm::group_shares(&joined, epoch)) {
        Ok(Some(got)) if got == key => cx.count("grouped_ok", 1),
        other => cx.viol("C17/boundary-key/group_shares-wrong-key", format!("measurement {:?} (t={}) has sharing key {} (a zero/0xff boundary byte): group_shares over {} distinct shares returned {:?} instead of the clients' key", String::from_utf8_lossy(&m), t, hex(&k[..16]), sel.len(), other.map(|o| o.map(|s| s.chars().take(8).collect::<String>()))), json!({"measurement": String::from_utf8_lossy(&m), "t": t, "sel": sel})),
      }
    }
  }
  cx.count("boundary_keys_found", hits);
  cx.sample(json!({"t": t, "measurements": format!("measurement-{}..{}", lo, lo + 250), "boundary_keys_found": hits}));
}


/// Mixed groupings over NEIGHBOURING inputs: shares of a measurement plus shares of every measurement (and
/// of the same measurement under every epoch) a canonicalisation or an empty-input shortcut could merge
/// with it - no measurement reaches its threshold, so group_shares must return nothing.
fn run_neighbour_mixtures(cx: &mut CaseCx, case: &Value) {
  let t = case["t"].as_u64().unwrap() as u32;
  let eps = epochs();
  let epoch = eps[case["e"].as_u64().unwrap() as usize % eps.len()].clone();
  let bases: Vec<Vec<u8>> = vec![vec![], epoch.as_bytes().to_vec(), b"a".to_vec(), b"https://example.com/some/page".to_vec()];
  for m in bases {
    let d = json!({"t": t, "measurement": hexs(&m), "epoch": epoch});
    // neighbours of the measurement (same epoch) and neighbours of the epoch (same measurement)
    let mut others: Vec<(String, Vec<u8>, String)> = vec![];
    let mut nm = super::c04::neighbours(&m);
    nm.push(("empty".into(), vec![]));
    nm.push(("equal to the epoch".into(), epoch.as_bytes().to_vec()));
    nm.push(("the epoch twice".into(), [epoch.as_bytes(), epoch.as_bytes()].concat()));
    for (how, n) in nm {
      if n != m {
        others.push((format!("measurement {}", how), n, epoch.clone()));
      }
    }
    for (how, n) in super::c04::neighbours(epoch.as_bytes()) {
      if let Ok(e2) = String::from_utf8(n) {
        if e2 != epoch {
          others.push((format!("same measurement under the epoch {}", how), m.clone(), e2));
        }
      }
    }
    // the same measurement and epoch under OTHER thresholds (their shares carry another threshold field)
    let mut other_t: Vec<(String, Vec<u8>, String, u32)> = vec![];
    for t2 in [1u32, t + 1, t + 2, t + 256] {
      if t2 != t {
        other_t.push((format!("same measurement and epoch under threshold {}", t2), m.clone(), epoch.clone(), t2));
      }
    }
    let mut own: Vec<Created> = vec![];
    for i in 0..(t as usize - 1) {
      getrandom::verif::set_group(1 + i as u32);
      match create(cx, &m, t, &epoch, &d) {
        Some(c) => own.push(c),
        None => return,
      }
    }
    let all_others: Vec<(String, Vec<u8>, String, u32)> = others.into_iter().map(|(h, m2, e2)| (h, m2, e2, t)).chain(other_t.into_iter()).collect();
    for (how, m2, e2, t2) in all_others {
      let mut foreign: Vec<Created> = vec![];
      for i in 0..(t as usize - 1) {
        getrandom::verif::set_group(60 + i as u32);
        if let Some(c) = create(cx, &m2, t2, &e2, &d) {
          foreign.push(c);
        }
      }
      if foreign.len() != t as usize - 1 {
        return;
      }
      // every split k own + (t-k) foreign shares and the whole pool, both orders
      let mut colls: Vec<Vec<&Created>> = vec![];
      for k in 1..t as usize {
        let c: Vec<&Created> = own.iter().take(k).chain(foreign.iter().take(t as usize - k)).collect();
        let mut r = c.clone();
        r.reverse();
        colls.push(c);
        colls.push(r);
      }
      colls.push(own.iter().chain(foreign.iter()).collect());
      for coll in colls {
        let joined = coll.iter().map(|c| c.share_b64.clone()).collect::<Vec<_>>().join("\n");
        cx.eval();
        cx.count("states", 1);
        cx.count("transitions", 1);
        cx.nontrivial(fnv_str(&format!("{}|{}|{}|{}", case, hexs(&m), how, joined.len())));
        match guard(|| star_wasm::group_shares(&joined, &epoch)) {
          Ok(None) => cx.count("mixture_none", 1),
          Ok(Some(k)) => {
            // a threshold-1 sharing is complete with one share: then the key returned must be ITS key, never the base measurement's
            if t2 == 1 && foreign.iter().any(|f| BASE64_STANDARD.encode(&f.key) == k) && !own.iter().any(|o| BASE64_STANDARD.encode(&o.key) == k) {
              cx.count("mixture_threshold_one_complete", 1);
              continue;
            }
            cx.viol("C17/group_shares-mixture-yields-key/neighbour", format!("{} share(s) of a measurement mixed with share(s) of another input ({}) yield a key ({}...) although no measurement reaches the threshold {}", t - 1, how, k.chars().take(8).collect::<String>(), t), json!({"t": t, "measurement": hexs(&m), "epoch": epoch, "other_measurement": hexs(&m2), "other_epoch": e2, "relation": how}));
            return;
          }
          Err(p) => {
            cx.viol("C17/group_shares-panicked", p, d.clone());
            return;
          }
        }
      }
    }
  }
  cx.outcome(format!("t={}", t));
}


/// Produced by one path, consumed by the other: shares created by the CORE library grouped through the string
/// API, shares created through the string API recovered by the core library and by the reference aggregation
/// side, and mixed collections of both; 300 create_share calls in a row stay consistent.
fn run_cross_consumption(cx: &mut CaseCx, case: &Value) {
  let t = case["t"].as_u64().unwrap() as u32;
  let m = measurements()[case["m"].as_u64().unwrap() as usize].clone();
  let eps = epochs();
  let epoch = eps[case["e"].as_u64().unwrap() as usize].clone();
  let d = json!({"t": t, "measurement": hexs(&m), "epoch": epoch});
  let n = t as usize;
  // wrapper-created
  let mut w: Vec<Created> = vec![];
  for i in 0..n {
    getrandom::verif::set_group(i as u32 + 1);
    match create(cx, &m, t, &epoch, &d) {
      Some(c) => w.push(c),
      None => return,
    }
  }
  // core-created (both core paths)
  let mg = MessageGenerator::new(SingleMeasurement::new(&m), t, epoch.as_bytes());
  let mut core_b64: Vec<String> = vec![];
  let mut core_shares: Vec<sta_rs::Share> = vec![];
  let mut core_key: Option<[u8; 16]> = None;
  for i in 0..n {
    getrandom::verif::set_group(100 + i as u32);
    let sh = if i % 2 == 0 {
      match guard(|| mg.share_with_local_randomness().map_err(|e| e.to_string())) {
        Ok(Ok(x)) => {
          core_key = Some(x.key);
          x.share
        }
        _ => return,
      }
    } else {
      match gen_report(&m, epoch.as_bytes(), t, &local_randomness(&m, epoch.as_bytes(), t), &None) {
        Ok(r) => r.share,
        Err(_) => return,
      }
    };
    core_b64.push(BASE64_STANDARD.encode(sh.to_bytes()));
    core_shares.push(sh);
  }
  cx.nontrivial(fnv_str(&case.to_string()));
  let key_b64 = BASE64_STANDARD.encode(&w[0].key);
  if core_key.map(|k| k.to_vec()) != Some(w[0].key.clone()) {
    cx.viol("C17/key-differs-from-core", "the wrapper's key differs from the core library's", d.clone());
    return;
  }
  // every split: k wrapper shares + (t-k) core shares, through BOTH consumers
  for k in 0..=n {
    let lines: Vec<String> = w.iter().take(k).map(|c| c.share_b64.clone()).chain(core_b64.iter().take(n - k).cloned()).collect();
    cx.eval();
    cx.count("states", 1);
    cx.count("transitions", 1);
    match guard(|| star_wasm::group_shares(&lines.join("\n"), &epoch)) {
      Ok(Some(got)) if got == key_b64 => cx.count("cross_grouped", 1),
      other => {
        cx.viol("C17/cross-consumption/group_shares", format!("{} wrapper-created + {} core-created shares of one measurement do not group to the clients' key through group_shares: {:?}", k, n - k, other.map(|o| o.map(|s| s.chars().take(8).collect::<String>()))), json!({"t": t, "wrapper_shares": k, "core_shares": n - k, "epoch": epoch}));
        return;
      }
    }
    let shares: Vec<sta_rs::Share> = w.iter().take(k).filter_map(|c| BASE64_STANDARD.decode(&c.share_b64).ok().and_then(|b| sta_rs::Share::from_bytes(&b))).chain(core_shares.iter().take(n - k).cloned()).collect();
    cx.eval();
    match recover_msg(&shares) {
      Ok(Ok(r0)) => {
        let mut kk = vec![0u8; 16];
        sta_rs::derive_ske_key(&r0, epoch.as_bytes(), &mut kk);
        if kk != w[0].key {
          cx.viol("C17/cross-consumption/core-recovery", "the core library recovers another key from wrapper-created shares than the wrapper reported", json!({"t": t, "wrapper_shares": k}));
          return;
        }
        cx.count("cross_recovered", 1);
      }
      other => {
        cx.viol("C17/cross-consumption/core-recovery", format!("{} wrapper-created + {} core-created shares do not recover through the core library: {:?}", k, n - k, other.map(|r| r.map(|_| ()))), json!({"t": t, "wrapper_shares": k, "core_shares": n - k}));
        return;
      }
    }
  }
  // 300 calls in a row: key and tag constant, shares valid and pairwise at different points
  if case["long"].as_bool() == Some(true) {
    let mut xs: Vec<BigUint> = vec![];
    for i in 0..300u32 {
      getrandom::verif::set_group(1000 + i);
      match create(cx, &m, t, &epoch, &d) {
        Some(c) => {
          if c.key != w[0].key {
            cx.viol("C17/keys-differ-between-clients", format!("create_share call number {} returns another key", i + 1), d.clone());
            return;
          }
          xs.push(c.x);
        }
        None => return,
      }
    }
    let mut sx = xs.clone();
    sx.sort();
    sx.dedup();
    if sx.len() != xs.len() {
      cx.viol("C17/share-points-repeat", "300 create_share calls (fresh entropy each) repeat an evaluation point", d.clone());
    }
    cx.count("calls_in_a_row", 300);
  }
  cx.outcome(format!("t={}", t));
}

pub fn spec() -> PropSpec {
  PropSpec {
    id: "C17",
    level: "model_checking",
    assumptions: vec!["star_wasm is called natively (rlib), not through a WASM runtime: the property is about the Rust functions behind the bindings", "epoch strings are valid UTF-8 by the API's type; measurements are arbitrary bytes"],
    thorough_budget_s: 900,
    checks: vec![Check {
      name: "wrapper",
      rule: "per (measurement in {empty, 1 byte, non-UTF-8, 32 B, 1 KiB, URL}, t in 1..3 (thorough 4), epoch in {'', t, tt, epoch, é, 64 chars, and five epochs differing from ''/t only by surrounding ASCII/Unicode whitespace}): t+1 create_share calls: strict JSON with exactly key/share/tag, base64 lengths 16/valid share/32, key, tag and the share's deterministic fields equal to the core library's; EVERY index sequence of length 1..t+2 over the shares joined by newlines: group_shares under the clients' epoch returns the clients' key iff >= t distinct shares else nothing, under every other epoch never the clients' key, call order (right epoch first / wrong epoch first / right again) irrelevant; every sequence over a two-measurement pool in which neither reaches t yields nothing",
      gen: |tier| {
        let mut v = vec![];
        for t in 1..=(if tier.thorough() { 4u64 } else { 3 }) {
          for m in 0..measurements().len() {
            for e in 0..epochs().len() {
              if !tier.thorough() && t == 3 && (m + e) % 2 == 1 {
                continue;
              }
              if t == 4 && (m + e) % 4 != 0 {
                continue;
              }
              v.push(json!({"t": t, "m": m, "e": e}));
            }
          }
        }
        v
      },
      run: run_cfg,
      min_counts: &[("grouped_ok", 1000), ("below_threshold_none", 100), ("wrong_epoch_no_key", 1000), ("mixture_none", 100)],
    },
    Check {
      name: "neighbour-mixtures",
      rule: "t in {2,3} x 11 epochs x base measurements {empty, the epoch's own bytes, 'a', a URL}: t-1 shares of the base mixed (every split, both orders, whole pool) with shares of EVERY neighbouring input - the measurement under each single-bit flip, appended / prepended byte, dropped byte, case folding, trimming ..., the empty measurement, the measurement equal to the epoch, and the same measurement under each neighbouring (valid UTF-8) epoch: no measurement reaches its threshold, group_shares returns nothing",
      gen: |_| {
        let mut v = vec![];
        for t in [2u64, 3] {
          for e in 0..epochs().len() {
            v.push(json!({"t": t, "e": e}));
          }
        }
        v
      },
      run: run_neighbour_mixtures,
      min_counts: &[("mixture_none", 5000)],
    },
    Check {
      name: "cross-consumption",
      rule: "produced by one path, consumed by the other (t in 1..4 x 6 measurements x 3 epochs): every split of k shares created through the string API and t-k shares created by the core library (alternately share_with_local_randomness and Message::generate) groups to the clients' key through group_shares AND recovers through the core library to the key the wrapper reported; 300 create_share calls in a row keep key, tag and core equality and never repeat an evaluation point",
      gen: |_| {
        let mut v = vec![];
        for t in 1..=4u64 {
          for m in 0..measurements().len() {
            for e in [0usize, 1, 4] {
              v.push(json!({"t": t, "m": m, "e": e, "long": m == 5 && e == 1}));
            }
          }
        }
        v
      },
      run: run_cross_consumption,
      min_counts: &[("cross_grouped", 200), ("cross_recovered", 200), ("calls_in_a_row", 900)],
    },
    Check {
      name: "cross-process",
      rule: "clients and the grouping side are separate PROCESSES: a fresh client process creates two shares through the string API; three fresh consumer processes whose FIRST operations are recoveries (grouping first / adss recovery first / aggregation first) call group_shares on them: the clients' key, in every order (a lazily initialised static keyed by whatever the process did first shows here and nowhere inside one process)",
      gen: |_| vec![json!({})],
      run: |cx, _| crate::probe::cross_process_check(cx, "C17", "grouped"),
      min_counts: &[("cross_process_ok", 3)],
    },
    Check {
      name: "call-history",
      rule: "t in 1..4: a call holding k valid shares followed by a malformed line (4 kinds, incl. a trailing newline) is rejected; the NEXT call with t-1 shares must yield nothing and a complete grouping of another measurement must yield that measurement's key (nothing survives a rejected call); t shares created at scripted evaluation points 2^128+5, p-1, 2^128, 5 group to the clients' key; for t = 3 a share created at the TWIN point of share 0 (same value, other point: x' = -c1/c2 - x0 of the interpolated quadratic) groups with the others in four orders",
      gen: |_| (1..=4u64).map(|t| json!({"t": t})).collect(),
      run: run_call_history,
      min_counts: &[("history_ok", 20), ("crafted_points_grouped", 3), ("equal_value_twins_grouped", 4)],
    },
    Check {
      name: "large-thresholds",
      rule: "thresholds 4..=12, 31..=34, 63..=66, 127..=130, 192, 193, 256, 257 (thorough: + 511..515): exactly t shares created through the wrapper group to the clients' key in dealt and reversed order, t-1 yield nothing; thresholds 65535, 65536, 65537, 2^17+1: create_share's key, tag and share fields equal the core's for that threshold",
      gen: |tier| {
        let mut ts: Vec<u64> = (4..=12).collect();
        ts.extend([31, 32, 33, 34, 63, 64, 65, 66, 127, 128, 129, 130, 192, 193, 256, 257, 65535, 65536, 65537, 131073]);
        if tier.thorough() {
          ts.extend([511, 512, 513, 514, 515]);
        }
        ts.into_iter().map(|t| json!({"t": t})).collect()
      },
      run: run_large_thresholds,
      min_counts: &[("grouped_ok", 40), ("huge_threshold_created", 4)],
    },
    Check {
      name: "boundary-keys",
      rule: "boundary search on an internal value: among measurements 'measurement-<i>' (quick 1000, thorough 4000 per threshold 1..3) those whose sharing key has a 0x00/0xff first, middle or last byte or a 00 00 pair: every t-subset and the full set of their shares through group_shares must return the clients' key",
      gen: |tier| {
        let mut v = vec![];
        for t in 1..=3u64 {
          for c in 0..(if tier.thorough() { 16u64 } else { 4 }) {
            v.push(json!({"t": t, "lo": c * 250}));
          }
        }
        v
      },
      run: run_boundary_keys,
      min_counts: &[("boundary_keys_found", 20)],
    }],
  }
}
