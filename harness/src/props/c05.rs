//! C05 — authenticated recovery: the result is the shared message or an error, never else.
use crate::mc::*;
use crate::refmodel as rm;
use crate::sut::*;
use adss::{Commune, Share};
use serde_json::{json, Value};

pub fn adss_share(t: u32, m: &[u8], r: &[u8]) -> Result<Share, String> {
  guard(|| Commune::new(t, m.to_vec(), r.to_vec(), None).share().map_err(|e| e.to_string())).unwrap_or_else(|p| Err(format!("panic: {}", p)))
}
pub fn adss_recover(shares: &[Share]) -> Result<Result<Vec<u8>, String>, String> {
  guard(|| adss::recover(shares).map(|c| c.get_message()).map_err(|e| e.to_string()))
}

struct Sh {
  t: u32,
  m: Vec<u8>,
  shares: Vec<Share>,
}
fn sharing(cx: &mut CaseCx, t: u32, m: &[u8], r: &[u8], n: usize, g0: u32) -> Option<Sh> {
  let mut shares = vec![];
  for i in 0..n {
    getrandom::verif::set_group(g0 + i as u32);
    match adss_share(t, m, r) {
      Ok(s) => shares.push(s),
      Err(e) => {
        cx.viol("C05/share-failed", e, json!({"t": t}));
        return None;
      }
    }
  }
  Some(Sh { t, m: m.to_vec(), shares })
}

fn pair_specs() -> Vec<(&'static str, (u32, Vec<u8>, Vec<u8>), (u32, Vec<u8>, Vec<u8>))> {
  let m1 = prbytes(1, 32);
  let m2 = prbytes(2, 32);
  let r1 = prbytes(3, 32);
  let r2 = prbytes(4, 32);
  vec![
    ("different message", (2, m1.clone(), r1.clone()), (2, m2.clone(), r1.clone())),
    ("different coins", (2, m1.clone(), r1.clone()), (2, m1.clone(), r2.clone())),
    ("different threshold (t, t+1)", (2, m1.clone(), r1.clone()), (3, m1.clone(), r1.clone())),
    ("different threshold (t, t-1)", (2, m1.clone(), r1.clone()), (1, m1.clone(), r1.clone())),
    ("threshold 1 vs 1", (1, m1.clone(), r1.clone()), (1, m2.clone(), r2.clone())),
    ("threshold 3, different message and coins", (3, m1.clone(), r1.clone()), (3, m2.clone(), r2.clone())),
    ("short and empty strings", (2, vec![], vec![]), (2, vec![7], vec![])),
    ("message||coins equal at another split (M1 || R1[..8], R1[8..])", (2, m1.clone(), r1.clone()), (2, [&m1[..], &r1[..8]].concat(), r1[8..].to_vec())),
    ("message||coins equal at another split, t=3", (3, m1[..16].to_vec(), r1.clone()), (3, [&m1[..16], &r1[..1]].concat(), r1[1..].to_vec())),
    ("threshold 3 vs 2, different message", (3, m1, r1), (2, m2, r2)),
  ]
}

fn run_mixtures(cx: &mut CaseCx, case: &Value) {
  let (name, a, b) = pair_specs().into_iter().nth(case["pair"].as_u64().unwrap() as usize).unwrap();
  let x = match sharing(cx, a.0, &a.1, &a.2, a.0 as usize + 1, 1) {
    Some(s) => s,
    None => return,
  };
  let y = match sharing(cx, b.0, &b.1, &b.2, b.0 as usize + 1, 100) {
    Some(s) => s,
    None => return,
  };
  let sh = [&x, &y];
  let mut sym: Vec<(usize, usize)> = vec![];
  for (si, s) in sh.iter().enumerate() {
    for j in 0..s.shares.len() {
      sym.push((si, j));
    }
  }
  let max_len = (x.t.max(y.t) as usize + 2).min(if cx.tier.thorough() { 6 } else { 5 });
  let (mut n_ok, mut n_err) = (0u64, 0u64);
  for_each_seq(sym.len(), max_len, |seq| {
    if seq.is_empty() {
      return;
    }
    let shares: Vec<Share> = seq.iter().map(|&k| sh[sym[k].0].shares[sym[k].1].clone()).collect();
    let res = adss_recover(&shares);
    cx.eval();
    cx.nontrivial(fnv_str(&format!("{}|{:?}", case, seq)));
    let first = sh[sym[seq[0]].0];
    let names = || seq.iter().map(|&k| format!("{}#{}", if sym[k].0 == 0 { "X" } else { "Y" }, sym[k].1)).collect::<Vec<_>>();
    match res {
      Ok(Ok(m)) => {
        n_ok += 1;
        if m != first.m {
          cx.viol("C05/wrong-message", format!("recovery over a mixture of two sharings ({}) returned a message that is not the one of the first share's sharing", name), json!({"collection": names(), "got": hexs(&m), "first_sharing_message": hexs(&first.m)}));
        }
      }
      Ok(Err(_)) => n_err += 1,
      Err(p) => cx.viol("C05/recover-panicked", format!("recover panicked: {}", p), json!({"collection": names()})),
    }
  });
  cx.count("ok", n_ok);
  cx.count("err", n_err);
  cx.outcome(format!("{}: ok and err", name));
  cx.sample(json!({"pair": name, "symbols": sym.len(), "max_len": max_len, "ok": n_ok, "err": n_err}));
}

const FAULTS: [&str; 5] = ["^01", "^80", "+1", "=00", "=ff"];
fn apply_fault(b: u8, f: &str) -> u8 {
  match f {
    "^01" => b ^ 0x01,
    "^80" => b ^ 0x80,
    "+1" => b.wrapping_add(1),
    "=00" => 0,
    _ => 0xff,
  }
}

/// one faulty copy F of share k inside every sequence over {F, honest shares}
fn run_faults(cx: &mut CaseCx, case: &Value) {
  let t = case["t"].as_u64().unwrap() as u32;
  let k = case["k"].as_u64().unwrap() as usize;
  let mlen = case["mlen"].as_u64().unwrap() as usize;
  let star = case["star"].as_bool().unwrap_or(false);
  let m = prbytes(50 + mlen as u64, mlen);
  let r = prbytes(60 + mlen as u64, mlen);
  let n = t as usize + 1;
  let x = match sharing(cx, t, &m, &r, n, 1) {
    Some(s) => s,
    None => return,
  };
  // baseline: honest shares recover (also arms any recovery-history dependence on this thread)
  match adss_recover(&x.shares) {
    Ok(Ok(mm)) if mm == m => {}
    other => {
      cx.viol("C05/baseline", format!("honest shares do not recover: {:?}", other), json!({}));
      return;
    }
  }
  let enc = x.shares[k].to_bytes();
  let fmap = rm::adss_field_map(&enc).unwrap_or_default();
  let field_of = |off: usize| fmap.iter().find(|f| off >= f.1 && off < f.1 + f.2).map(|f| f.0).unwrap_or("?");
  let lo = case["lo"].as_u64().unwrap() as usize;
  let hi = (case["hi"].as_u64().unwrap() as usize).min(enc.len());
  let max_len = if cx.tier.thorough() || t <= 2 { n + 1 } else { n };
  // sequences over symbols 0..n (honest) and n (= F) that contain F
  let mut seqs: Vec<Vec<usize>> = vec![];
  for_each_seq(n + 1, max_len, |s| {
    if s.contains(&n) {
      seqs.push(s.to_vec());
    }
  });
  for off in lo..hi {
    for f in FAULTS {
      let nb = apply_fault(enc[off], f);
      if nb == enc[off] {
        continue;
      }
      let mut fb = enc.clone();
      fb[off] = nb;
      let fshare = match guard(|| Share::from_bytes(&fb)) {
        Ok(Some(s)) => s,
        Ok(None) => {
          cx.count("fault_rejected_at_decode", 1);
          continue;
        }
        Err(p) => {
          cx.viol("C05/decode-panicked", format!("Share::from_bytes panicked on a faulted share: {}", p), json!({"offset": off, "fault": f}));
          continue;
        }
      };
      cx.count("fault_decoded", 1);
      cx.nontrivial(fnv_str(&format!("{}|{}|{}", case, off, f)));
      for seq in &seqs {
        let d = || json!({"faulty_share": k, "field": field_of(off), "offset": off, "fault": f, "collection": seq.iter().map(|&i| if i == n { "F".to_string() } else { format!("h{}", i) }).collect::<Vec<_>>()});
        let res = if star {
          let shares: Vec<sta_rs::Share> = seq.iter().filter_map(|&i| sta_rs::Share::from_bytes(&if i == n { fb.clone() } else { x.shares[i].to_bytes() })).collect();
          recover_msg(&shares)
        } else {
          let shares: Vec<Share> = seq.iter().map(|&i| if i == n { fshare.clone() } else { x.shares[i].clone() }).collect();
          adss_recover(&shares)
        };
        cx.eval();
        match res {
          Ok(Ok(mm)) => {
            if mm != m {
              cx.viol(format!("C05/wrong-message/{}", field_of(off)), format!("recovery returned a message that was never shared (fault {} in field {} of share {})", f, field_of(off), k), d());
            } else if seq[0] == n && t == 1 && field_of(off) == "S.x" {
              // threshold 1: the sharing polynomial is constant, so (x', K) is a genuine share of the
              // same sharing for every x' - the "altered" share is indistinguishable from an honest one
              cx.count("t1_x_fault_is_a_valid_share", 1);
            } else if seq[0] == n {
              cx.viol(format!("C05/faulty-first-share-accepted/{}", field_of(off)), format!("the share that supplies threshold, ciphertext and tag was altered (fault {} in field {}) and recovery still succeeded", f, field_of(off)), d());
            } else {
              cx.count("ok_fault_not_in_effect", 1);
            }
          }
          Ok(Err(_)) => cx.count("rejected", 1),
          Err(p) => cx.viol("C05/recover-panicked", format!("recover panicked: {}", p), d()),
        }
      }
    }
  }
  // element-level faults (only in the chunk that starts at offset 0, so that they run once per configuration):
  // the whole 24-byte x or y replaced by 0, 1, p-1, another share's x / y
  if lo == 0 {
    let other = x.shares[(k + 1) % n].to_bytes();
    let one = {
      let mut b = [0u8; 24];
      b[0] = 1;
      b
    };
    let pm1 = rm::le24(&(rm::p() - num_bigint::BigUint::from(1u32)));
    let j_at = enc.len() - 64;
    let mut variants: Vec<(&str, usize, &str, Vec<u8>)> = vec![];
    for (fname, foff) in [("S.x", 8usize), ("S.y", 32usize)] {
      let plus_p = rm::le24(&(rm::from_le(&enc[foff..foff + 24]) + rm::p())).to_vec();
      for (how, val) in [("= 0", [0u8; 24].to_vec()), ("= 1", one.to_vec()), ("= p-1", pm1.to_vec()), ("= the next share's value", other[foff..foff + 24].to_vec()), ("= the other coordinate", enc[if foff == 8 { 32 } else { 8 }..if foff == 8 { 56 } else { 32 }].to_vec()), ("= the same element + p (second encoding)", plus_p)] {
        variants.push((fname, foff, how, val));
      }
    }
    // whole-field wipes of the tag
    variants.push(("J", j_at + 32, "upper half zeroed", vec![0u8; 32]));
    variants.push(("J", j_at, "lower half zeroed", vec![0u8; 32]));
    variants.push(("J", j_at, "all zero", vec![0u8; 64]));
    variants.push(("J", j_at, "halves swapped", [&enc[j_at + 32..], &enc[j_at..j_at + 32]].concat()));
    variants.push(("J", j_at, "= the next share's tag rotated by 8", { let mut v = other[other.len() - 64..].to_vec(); v.rotate_left(8); v }));
    variants.push(("J", j_at + 32, "truncated: last 32 bytes cut off", vec![]));
    {
      for (fname, foff, how, val) in variants {
        let mut fb = enc.clone();
        if val.is_empty() {
          fb.truncate(foff);
        } else {
          fb[foff..foff + val.len()].copy_from_slice(&val);
        }
        if fb == enc {
          continue;
        }
        let fshare = match guard(|| Share::from_bytes(&fb)) {
          Ok(Some(s)) => s,
          _ => {
            cx.count("fault_rejected_at_decode", 1);
            continue;
          }
        };
        cx.nontrivial(fnv_str(&format!("{}|{}|{}", case, fname, how)));
        for seq in &seqs {
          let d = || json!({"faulty_share": k, "field": fname, "fault": how, "collection": seq.iter().map(|&i| if i == n { "F".to_string() } else { format!("h{}", i) }).collect::<Vec<_>>()});
          let shares: Vec<Share> = seq.iter().map(|&i| if i == n { fshare.clone() } else { x.shares[i].clone() }).collect();
          cx.eval();
          match adss_recover(&shares) {
            Ok(Ok(mm)) => {
              if mm != m {
                cx.viol(format!("C05/wrong-message/{}", fname), format!("recovery returned a message that was never shared ({} {})", fname, how), d());
              } else if seq[0] == n && !(t == 1 && fname == "S.x") {
                cx.viol(format!("C05/faulty-first-share-accepted/{}", fname), format!("the first share's {} was replaced ({}) and recovery still succeeded", fname, how), d());
              } else {
                cx.count("ok_fault_not_in_effect", 1);
              }
            }
            Ok(Err(_)) => cx.count("rejected", 1),
            Err(p) => cx.viol("C05/recover-panicked", format!("recover panicked: {}", p), d()),
          }
        }
        cx.count("element_faults", 1);
      }
    }
  }
  cx.outcome(format!("t={} k={}", t, k));
  cx.sample(json!({"t": t, "faulty_share": k, "encoded_len": enc.len(), "fields": fmap.iter().map(|f| format!("{}@{}+{}", f.0, f.1, f.2)).collect::<Vec<_>>(), "sequences_per_fault": seqs.len()}));
}

/// two single-bit faults within one share (t = 2)
fn run_double_faults(cx: &mut CaseCx, case: &Value) {
  let t = 2u32;
  let m = prbytes(71, 8);
  let r = prbytes(72, 8);
  let x = match sharing(cx, t, &m, &r, 3, 1) {
    Some(s) => s,
    None => return,
  };
  let _ = adss_recover(&x.shares);
  let enc = x.shares[0].to_bytes();
  let row = case["row"].as_u64().unwrap() as usize;
  if row >= enc.len() {
    return;
  }
  let shapes: Vec<Vec<usize>> = vec![vec![3, 1], vec![3, 1, 2], vec![1, 3], vec![3, 0, 1], vec![1, 2, 3], vec![3, 1, 0]];
  for o2 in row + 1..enc.len() {
    for (f1, f2) in [(0x01u8, 0x01u8), (0x80, 0x01), (0x01, 0x80)] {
      let mut fb = enc.clone();
      fb[row] ^= f1;
      fb[o2] ^= f2;
      let fshare = match guard(|| Share::from_bytes(&fb)) {
        Ok(Some(s)) => s,
        _ => {
          cx.count("fault_rejected_at_decode", 1);
          continue;
        }
      };
      cx.nontrivial(fnv_str(&format!("{}|{}|{}|{}", row, o2, f1, f2)));
      for seq in &shapes {
        let shares: Vec<Share> = seq.iter().map(|&i| if i == 3 { fshare.clone() } else { x.shares[i].clone() }).collect();
        cx.eval();
        let d = || json!({"offsets": [row, o2], "xor": [f1, f2], "collection": seq});
        match adss_recover(&shares) {
          Ok(Ok(mm)) => {
            if mm != m {
              cx.viol("C05/wrong-message/double-fault", "recovery returned a message that was never shared (two faults in one share)", d());
            } else if seq[0] == 3 {
              cx.viol("C05/faulty-first-share-accepted/double-fault", "first share altered in two places and recovery still succeeded", d());
            }
          }
          Ok(Err(_)) => cx.count("rejected", 1),
          Err(p) => cx.viol("C05/recover-panicked", p, d()),
        }
      }
    }
  }
}

pub fn spec() -> PropSpec {
  PropSpec {
    id: "C05",
    level: "fault_enumeration",
    assumptions: vec![
      "MAC unforgeability of Strobe is the trusted base; decided: on every enumerated mixture and every enumerated single fault (and 2-fault pairs, thorough) the outcome is Err or the message of the first share's sharing, and faults of the first share are rejected",
      "fault alphabet per byte: ^0x01, ^0x80, +1, =0x00, =0xff at EVERY byte of the encoded share; collections: every sequence over {faulty copy, all honest shares} up to length t+1 (quick) / t+2 (thorough) that contains the faulty copy",
    ],
    thorough_budget_s: 1500,
    checks: vec![
      Check {
        name: "mixtures",
        rule: "10 pairs of sharings (different message / coins / threshold / lengths / same message||coins bytes split elsewhere); every sequence of length 1..t+2 over the union of their shares handed to adss::recover; distinct = sequences",
        gen: |_| (0..pair_specs().len()).map(|i| json!({"pair": i})).collect(),
        run: run_mixtures,
        min_counts: &[("ok", 100), ("err", 100)],
      },
      Check {
        name: "single-faults",
        rule: "message/coins of 32, 5, 41 bytes (coins longer than one 32-byte key block) and 200 bytes (longer than one 166-byte cipher block); every byte of the encoded share k x 5 byte faults, plus whole-element replacements of x and y by 0, 1, p-1, the next share's value, the other coordinate, re-decoded; every sequence over {F, h_0..h_t} containing F; through adss::recover and through sta_rs::share_recover; distinct = (share, offset, fault) that still decode",
        gen: |tier| {
          let mut v = vec![];
          let ts: &[u64] = if tier.thorough() { &[1, 2, 3, 4] } else { &[1, 2, 3] };
          for &t in ts {
            for k in [0u64, t] {
              for (mlen, star) in [(32u64, false), (5, true), (41, false), (200, false)] {
                if !tier.thorough() && (star || mlen == 41) && k != 0 {
                  continue;
                }
                if mlen == 41 && t > 2 && !tier.thorough() {
                  continue;
                }
                // message and coins longer than one 166-byte cipher block: one configuration (two in thorough)
                if mlen == 200 && (t != 2 || (k != 0 && !tier.thorough())) {
                  continue;
                }
                let len = 4 + 4 + 48 + 4 + mlen + 4 + mlen + 64;
                let step = if t == 3 { 8 } else { 16 };
                let mut lo = 0;
                while lo < len {
                  v.push(json!({"t": t, "k": k, "mlen": mlen, "star": star, "lo": lo, "hi": lo + step}));
                  lo += step;
                }
              }
            }
          }
          v
        },
        run: run_faults,
        min_counts: &[("fault_decoded", 500), ("rejected", 1000), ("ok_fault_not_in_effect", 100), ("fault_rejected_at_decode", 10)],
      },
      Check {
        name: "double-faults",
        rule: "thorough: every pair of byte offsets of one encoded share (t=2, 8-byte strings) x 3 two-bit patterns x 6 collection shapes",
        gen: |tier| if tier.thorough() { (0..160).map(|i| json!({"row": i})).collect() } else { (0..160).step_by(9).map(|i| json!({"row": i})).collect() },
        run: run_double_faults,
        min_counts: &[("rejected", 100)],
      },
    ],
  }
}
