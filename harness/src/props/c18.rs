//! C18 — the reference aggregation server reveals exactly the measurements with >= t reports.
use crate::mc::*;
use crate::sut::*;
use num_bigint::BigUint;
use serde_json::{json, Value};
use sta_rs::Message;
use star_test_utils::AggregationServer;
use std::collections::BTreeMap;

type Aux = Option<Vec<u8>>;
fn norm(a: &Aux) -> Aux {
  // the reference server deliberately reports empty associated data as absent
  match a {
    Some(v) if v.is_empty() => None,
    other => other.clone(),
  }
}
fn aux_for(i: usize) -> Aux {
  match i % 6 {
    0 => None,
    1 => Some(vec![]),
    2 => Some(vec![i as u8]),
    3 => Some(prbytes(i as u64, 200)),
    // equal length, identical trailer, different head (and different tail, same head)
    4 => Some([&[b'A' + (i % 23) as u8, b'Z' - (i % 7) as u8][..], b"|desktop|release-1.58.0"].concat()),
    _ => Some([b"release-1.58.0|desktop|", &[b'a' + (i % 23) as u8, b'z' - (i % 7) as u8][..]].concat()),
  }
}

pub struct Rep {
  pub msg: Message,
  pub meas: Vec<u8>,
  pub aux: Aux,
  pub x: BigUint,
}

fn make_reports(cx: &mut CaseCx, t: u32, sizes: &[usize], dup: bool) -> Option<Vec<Rep>> {
  let mut v = vec![];
  let mut k = 0usize;
  for (g, &sz) in sizes.iter().enumerate() {
    // distinct measurements that share a 48-byte prefix (URLs under one origin) and, for odd g, a suffix
    let meas = format!("https://origin.example/a/very/long/common/prefix/{}{}", g, if g % 2 == 1 { "/index.html" } else { "" }).into_bytes();
    let rnd = local_randomness(&meas, b"t", t);
    for _ in 0..sz {
      getrandom::verif::set_group(k as u32 + 1);
      let aux = aux_for(k);
      match gen_report(&meas, b"t", t, &rnd, &aux) {
        Ok(msg) => {
          let x = share_x(&msg.share.to_bytes())?;
          v.push(Rep { msg, meas: meas.clone(), aux, x })
        }
        Err(e) => {
          cx.viol("C18/generate-failed", e, json!({}));
          return None;
        }
      }
      k += 1;
    }
  }
  if dup && !v.is_empty() {
    // the same report delivered twice (first report of every group)
    let mut extra = vec![];
    let mut seen = vec![];
    for r in &v {
      if !seen.contains(&r.meas) {
        seen.push(r.meas.clone());
        extra.push(Rep { msg: r.msg.clone(), meas: r.meas.clone(), aux: r.aux.clone(), x: r.x.clone() });
      }
    }
    v.extend(extra);
  }
  Some(v)
}

/// reference: measurement -> sorted multiset of (normalised) associated data, for groups with >= t DISTINCT reports
fn expected(reps: &[&Rep], t: u32) -> BTreeMap<Vec<u8>, Vec<Aux>> {
  let mut m: BTreeMap<Vec<u8>, (Vec<Aux>, Vec<BigUint>)> = BTreeMap::new();
  for r in reps {
    let e = m.entry(r.meas.clone()).or_default();
    e.0.push(norm(&r.aux));
    if !e.1.contains(&r.x) {
      e.1.push(r.x.clone());
    }
  }
  m.into_iter()
    .filter(|(_, (_, xs))| xs.len() >= t as usize && t >= 1)
    .map(|(k, (mut a, _))| {
      a.sort();
      (k, a)
    })
    .collect()
}

fn observe(server: &AggregationServer, pool: &rayon::ThreadPool, msgs: &[Message]) -> Result<Vec<(Vec<u8>, Vec<Aux>)>, String> {
  guard(|| {
    pool.install(|| server.retrieve_outputs(msgs)).into_iter().map(|o| {
      let mut a: Vec<Aux> = o.aux.iter().map(|x| norm(&x.as_ref().map(|d| d.as_vec()))).collect();
      a.sort();
      (o.x.as_vec(), a)
    }).collect()
  })
}

fn judge(cx: &mut CaseCx, got: Result<Vec<(Vec<u8>, Vec<Aux>)>, String>, want: &BTreeMap<Vec<u8>, Vec<Aux>>, d: &dyn Fn() -> Value) -> bool {
  cx.eval();
  cx.count("states", 1);
  cx.count("transitions", 1);
  let got = match got {
    Ok(g) => g,
    Err(p) => {
      cx.viol("C18/server-panicked", format!("retrieve_outputs panicked: {}", p.chars().take(160).collect::<String>()), d());
      return false;
    }
  };
  let mut seen: BTreeMap<Vec<u8>, Vec<Aux>> = BTreeMap::new();
  for (m, a) in got {
    if seen.insert(m.clone(), a).is_some() {
      cx.viol("C18/measurement-output-twice", format!("measurement {:?} appears more than once in the output", String::from_utf8_lossy(&m)), d());
      return false;
    }
  }
  for (m, a) in want {
    match seen.get(m) {
      None => {
        cx.viol("C18/measurement-missing", format!("measurement {:?} was reported by >= t clients but is missing from the output", String::from_utf8_lossy(m)), d());
        return false;
      }
      Some(b) => {
        if a != b {
          cx.viol("C18/associated-data-wrong", format!("measurement {:?}: output carries associated data (lengths) {:?}, clients attached {:?}", String::from_utf8_lossy(m), b.iter().map(|x| x.as_ref().map(|v| v.len())).collect::<Vec<_>>(), a.iter().map(|x| x.as_ref().map(|v| v.len())).collect::<Vec<_>>()), d());
          return false;
        }
      }
    }
  }
  for m in seen.keys() {
    if !want.contains_key(m) {
      cx.viol("C18/below-threshold-revealed", format!("measurement {:?} was reported by fewer than t clients but appears in the output", String::from_utf8_lossy(m)), d());
      return false;
    }
  }
  true
}

fn pools(sizes: &[usize]) -> Vec<(usize, rayon::ThreadPool)> {
  sizes.iter().map(|&n| (n, rayon::ThreadPoolBuilder::new().num_threads(n).build().expect("pool"))).collect()
}

fn run_vector(cx: &mut CaseCx, case: &Value) {
  let t = case["t"].as_u64().unwrap() as u32;
  let sizes: Vec<usize> = case["sizes"].as_array().unwrap().iter().map(|v| v.as_u64().unwrap() as usize).collect();
  let dup = case["dup"].as_bool().unwrap_or(false);
  let reps = match make_reports(cx, t, &sizes, dup) {
    Some(r) => r,
    None => return,
  };
  let n = reps.len();
  let server = AggregationServer::new(t, "t");
  let ps = pools(&[1, 2, 3, 4, 8, 16]);
  let all: Vec<&Rep> = reps.iter().collect();
  let want = expected(&all, t);
  cx.nontrivial(fnv_str(&case.to_string()));
  // decomposition: the union of the outputs obtained group by group (pool of 1) is the reference for the whole
  let mut union: BTreeMap<Vec<u8>, Vec<Aux>> = BTreeMap::new();
  let mut groups: Vec<Vec<u8>> = reps.iter().map(|r| r.meas.clone()).collect();
  groups.sort();
  groups.dedup();
  for g in &groups {
    let sub: Vec<Message> = reps.iter().filter(|r| &r.meas == g).map(|r| r.msg.clone()).collect();
    match observe(&server, &ps[0].1, &sub) {
      Ok(o) => {
        for (m, a) in o {
          union.insert(m, a);
        }
      }
      Err(p) => {
        cx.viol("C18/server-panicked", format!("retrieve_outputs panicked on one group alone: {}", p.chars().take(160).collect::<String>()), json!({"t": t, "group_sizes": sizes, "duplicates": dup, "group": String::from_utf8_lossy(g)}));
        return;
      }
    }
  }
  cx.eval();
  if union != want {
    cx.viol("C18/decomposition-differs", "feeding each group alone does not give the reference result", json!({"t": t, "group_sizes": sizes, "duplicates": dup}));
    return;
  }
  let mut perms: Vec<Vec<usize>> = vec![];
  if n <= if cx.tier.thorough() { 7 } else { 6 } {
    for_each_perm(n, |p| perms.push(p.to_vec()));
  } else {
    let id: Vec<usize> = (0..n).collect();
    perms.push(id.clone());
    perms.push(id.iter().rev().copied().collect());
    for r in 1..n.min(9) {
      let mut v = id.clone();
      v.rotate_left(r * n / n.min(9));
      perms.push(v);
    }
    // interleave groups, evens then odds, and a few strided orders
    let mut ev: Vec<usize> = id.iter().copied().filter(|i| i % 2 == 0).collect();
    ev.extend(id.iter().copied().filter(|i| i % 2 == 1));
    perms.push(ev);
    for s in [3usize, 5, 7, 11] {
      if s < n && n % s != 0 {
        perms.push((0..n).map(|i| i * s % n).collect());
      }
    }
    // every report moved to the front once
    for i in 0..n {
      let mut v = id.clone();
      let x = v.remove(i);
      v.insert(0, x);
      perms.push(v);
    }
  }
  for perm in &perms {
    let msgs: Vec<Message> = perm.iter().map(|&i| reps[i].msg.clone()).collect();
    for (pn, pool) in &ps {
      let ok = judge(cx, observe(&server, pool, &msgs), &want, &|| json!({"t": t, "group_sizes": sizes, "duplicates": dup, "order": perm, "worker_threads": pn, "aux_lens": perm.iter().map(|&i| reps[i].aux.as_ref().map(|a| a.len())).collect::<Vec<_>>()}));
      if !ok {
        return;
      }
    }
  }
  cx.count("revealed_groups", want.len() as u64);
  cx.count("hidden_groups", (groups.len() - want.len()) as u64);
  cx.outcome(format!("t={} revealed {} hidden {}", t, want.len(), groups.len() - want.len()));
  cx.sample(json!({"t": t, "group_sizes": sizes, "reports": n, "orders": perms.len(), "pools": [1, 2, 3, 4, 8, 16], "revealed": want.len()}));
}

fn run_many_groups(cx: &mut CaseCx, case: &Value) {
  let t = case["t"].as_u64().unwrap() as u32;
  let g = case["groups"].as_u64().unwrap() as usize;
  let sizes: Vec<usize> = (0..g).map(|i| 1 + i % (2 * t as usize)).collect();
  let reps = match make_reports(cx, t, &sizes, false) {
    Some(r) => r,
    None => return,
  };
  let server = AggregationServer::new(t, "t");
  let all: Vec<&Rep> = reps.iter().collect();
  let want = expected(&all, t);
  let n = reps.len();
  cx.nontrivial(fnv_str(&case.to_string()));
  for (pn, pool) in pools(&[1, 2, 3, 5, 7, 8, 16]) {
    for stride in [1usize, 7, 13] {
      let order: Vec<usize> = if n % stride == 0 && stride > 1 { (0..n).rev().collect() } else { (0..n).map(|i| i * stride % n).collect() };
      let msgs: Vec<Message> = order.iter().map(|&i| reps[i].msg.clone()).collect();
      if !judge(cx, observe(&server, &pool, &msgs), &want, &|| json!({"t": t, "groups": g, "worker_threads": pn, "order": format!("stride {}", stride), "revealed_expected": want.len()})) {
        return;
      }
    }
  }
  cx.count("revealed_groups", want.len() as u64);
  cx.outcome(format!("{} groups", g));
  cx.sample(json!({"t": t, "groups": g, "reports": n, "revealed": want.len()}));
}




/// Boundary search on the grouping key: among several hundred thousand measurements, the pairs whose TAGS
/// agree in the most leading / trailing bytes (by the birthday bound a few agree in 4) are aggregated
/// together - grouped, interleaved both ways, one group below threshold - and must come out separately.
fn run_near_colliding_tags(cx: &mut CaseCx, _case: &Value) {
  use sta_rs::{MessageGenerator, SingleMeasurement};
  let n = if cx.tier.thorough() { 1_200_000u32 } else { 400_000 };
  let t = 3u32;
  let epoch = b"epoch-2026-09".to_vec();
  let meas: Vec<Vec<u8>> = (0..n).map(|i| format!("page-{}", i).into_bytes()).collect();
  let tags: Vec<[u8; 32]> = par_map(&meas, |_, m| {
    let mg = MessageGenerator::new(SingleMeasurement::new(m), t, &epoch);
    let mut rnd = [0u8; 32];
    mg.sample_local_randomness(&mut rnd);
    sta_rs::Message::generate(&mg, &rnd, None).map(|x| { let mut a = [0u8; 32]; a.copy_from_slice(&x.tag[..32.min(x.tag.len())]); a }).unwrap_or([0u8; 32])
  });
  cx.count("tags_examined", tags.len() as u64);
  let common = |a: &[u8; 32], b: &[u8; 32]| a.iter().zip(b.iter()).take_while(|(x, y)| x == y).count();
  let mut cands: Vec<(usize, &'static str, usize, usize)> = vec![];
  for rev in [false, true] {
    let key = |i: usize| {
      let mut k = tags[i];
      if rev {
        k.reverse();
      }
      k
    };
    let mut idx: Vec<usize> = (0..tags.len()).collect();
    idx.sort_by_key(|&i| key(i));
    for w in idx.windows(2) {
      let c = common(&key(w[0]), &key(w[1]));
      if c >= 3 && c < 32 {
        cands.push((c, if rev { "trailing" } else { "leading" }, w[0], w[1]));
      }
    }
  }
  // also: equal first byte AND equal last byte etc. are implied by nothing; take the closest 12 of each kind
  cands.sort_by(|a, b| b.0.cmp(&a.0));
  let lead: Vec<_> = cands.iter().filter(|c| c.1 == "leading").take(12).cloned().collect();
  let trail: Vec<_> = cands.iter().filter(|c| c.1 == "trailing").take(12).cloned().collect();
  cx.count("best_leading_agreement_bytes", lead.first().map(|c| c.0 as u64).unwrap_or(0));
  let server = AggregationServer::new(t, std::str::from_utf8(&epoch).unwrap());
  let pool = rayon::ThreadPoolBuilder::new().num_threads(2).build().expect("pool");
  for (agree, which, i, j) in lead.into_iter().chain(trail.into_iter()) {
    let mk = |cx: &mut CaseCx, m: &Vec<u8>, cnt: usize, g0: u32| -> Vec<Rep> {
      let rnd = local_randomness(m, &epoch, t);
      (0..cnt)
        .filter_map(|k| {
          getrandom::verif::set_group(g0 + k as u32);
          let aux = aux_for(k + g0 as usize);
          let msg = gen_report(m, &epoch, t, &rnd, &aux).ok()?;
          let x = share_x(&msg.share.to_bytes())?;
          let _ = &cx;
          Some(Rep { msg, meas: m.clone(), aux, x })
        })
        .collect()
    };
    for (na, nb) in [(3usize, 3usize), (4, 3), (3, 2), (2, 3)] {
      let a = mk(cx, &meas[i], na, 1);
      let b = mk(cx, &meas[j], nb, 100);
      let orders: Vec<(&str, Vec<&Rep>)> = vec![
        ("group by group", a.iter().chain(b.iter()).collect()),
        ("interleaved A,B,A,B", (0..na.max(nb)).flat_map(|k| a.get(k).into_iter().chain(b.get(k).into_iter())).collect()),
        ("interleaved B,A,B,A", (0..na.max(nb)).flat_map(|k| b.get(k).into_iter().chain(a.get(k).into_iter())).collect()),
        ("B then A", b.iter().chain(a.iter()).collect()),
      ];
      for (oname, ord) in orders {
        let want = expected(&ord, t);
        let msgs: Vec<Message> = ord.iter().map(|r| r.msg.clone()).collect();
        cx.nontrivial(fnv_str(&format!("{}|{}|{}|{}|{}", i, j, na, nb, oname)));
        if !judge(cx, observe(&server, &pool, &msgs), &want, &|| json!({"t": t, "measurement_a": String::from_utf8_lossy(&meas[i]), "measurement_b": String::from_utf8_lossy(&meas[j]), "tags_agree_in": format!("{} {} bytes", agree, which), "reports": [na, nb], "order": oname})) {
          if let Some(v) = cx.viols.last_mut() {
            v.key = format!("{}/near-colliding-tags", v.key);
            v.what = format!("two measurements whose tags agree in their {} {} bytes, submitted {}: {}", which, agree, oname, v.what);
          }
          return;
        }
        cx.count("near_collision_aggregations", 1);
      }
    }
  }
  cx.outcome("near-colliding tags aggregate separately");
}


/// boundary search on an internal value: measurements whose sharing key has a zero / 0xff boundary byte are
/// aggregated next to ordinary ones; they must be revealed like any other
fn run_boundary_keys(cx: &mut CaseCx, case: &Value) {
  let t = case["t"].as_u64().unwrap() as u32;
  let lo = case["lo"].as_u64().unwrap();
  let epoch = "t";
  let (found, examined) = super::c01::boundary_key_measurements("measurement-", epoch.as_bytes(), t, lo, 400);
  cx.count("keys_examined", examined);
  cx.count("boundary_keys_found", found.len() as u64);
  if found.is_empty() {
    return;
  }
  let mut reps: Vec<Rep> = vec![];
  let mut k = 0usize;
  for (gi, (meas, _)) in found.iter().enumerate() {
    let rnd = local_randomness(meas, epoch.as_bytes(), t);
    // exactly t, t+1 or t-1 reports
    let cnt = match gi % 3 { 0 => t as usize, 1 => t as usize + 1, _ => t as usize - 1 };
    for _ in 0..cnt {
      getrandom::verif::set_group(k as u32 + 1);
      let aux = aux_for(k);
      if let Ok(msg) = gen_report(meas, epoch.as_bytes(), t, &rnd, &aux) {
        if let Some(x) = share_x(&msg.share.to_bytes()) {
          reps.push(Rep { msg, meas: meas.clone(), aux, x });
        }
      }
      k += 1;
    }
  }
  let server = AggregationServer::new(t, epoch);
  let all: Vec<&Rep> = reps.iter().collect();
  let want = expected(&all, t);
  cx.nontrivial(fnv_str(&case.to_string()));
  for (pn, pool) in pools(&[1, 4]) {
    for rev in [false, true] {
      let mut msgs: Vec<Message> = reps.iter().map(|r| r.msg.clone()).collect();
      if rev {
        msgs.reverse();
      }
      if !judge(cx, observe(&server, &pool, &msgs), &want, &|| json!({"t": t, "groups": found.len(), "worker_threads": pn, "reversed": rev, "note": "every measurement of this batch has a sharing key with a 0x00 / 0xff boundary byte"})) {
        if let Some(v) = cx.viols.last_mut() {
          v.key = format!("{}/boundary-key", v.key);
          v.what = format!("batch of measurements whose sharing keys have a zero / 0xff boundary byte: {}", v.what);
        }
        return;
      }
    }
  }
  cx.count("revealed_groups", want.len() as u64);
  cx.outcome("boundary keys revealed");
}


/// Honest reports whose share point - or share VALUE - is one of the field's edge elements: the field has
/// p = 2^128 + 12451 elements, so 12451 of them need a 129th bit; an honest client draws such a point with
/// probability 2^-114, which no run meets by chance. Each group has EXACTLY t reports (a single refused share
/// loses the measurement), t+1 (nothing may be lost or doubled) or t-1 (must stay hidden).
fn run_field_edges(cx: &mut CaseCx, case: &Value) {
  use crate::refmodel as rm;
  let t = case["t"].as_u64().unwrap() as u32;
  let epoch = "t";
  let one = BigUint::from(1u32);
  let p = rm::p();
  let top = &one << 128usize;
  let mut targets: Vec<(String, BigUint)> = vec![
    ("1".into(), one.clone()),
    ("2^64".into(), &one << 64usize),
    ("2^127".into(), &one << 127usize),
    ("2^128-1".into(), &top - &one),
    ("2^128".into(), top.clone()),
    ("2^128+1".into(), &top + &one),
    ("2^128+6225".into(), &top + BigUint::from(6225u32)),
    ("p-2".into(), &p - BigUint::from(2u32)),
    ("p-1".into(), &p - &one),
    ("(p-1)/2".into(), rm::q()),
    ("(p+1)/2".into(), rm::q() + &one),
  ];
  // value edges (t = 2 only: the sharing polynomial is a line, so the point with a given value can be solved for)
  let value_targets: Vec<(String, BigUint)> = vec![("2^128".into(), top.clone()), ("p-1".into(), &p - &one), ("2^128+1".into(), &top + &one), ("0".into(), BigUint::from(0u32))];
  let mut reps: Vec<Rep> = vec![];
  let mut k = 0usize;
  let mut gi = 0usize;
  let mut edge_points = 0u64;
  let mut edge_values = 0u64;
  let mut fresh = |meas: &[u8], rnd: &[u8; 32], k: &mut usize, script: Option<&BigUint>| -> Option<Rep> {
    getrandom::verif::set_group(*k as u32 + 1);
    match script {
      Some(x) => getrandom::verif::set_script(&craft_bytes(x)),
      None => {
        getrandom::verif::clear_script();
      }
    }
    let aux = aux_for(*k);
    *k += 1;
    let r = gen_report(meas, epoch.as_bytes(), t, rnd, &aux);
    getrandom::verif::clear_script();
    let msg = r.ok()?;
    let x = share_x(&msg.share.to_bytes())?;
    Some(Rep { msg, meas: meas.to_vec(), aux, x })
  };
  // ---- point edges
  for (name, x) in targets.drain(..) {
    for (cnt, pos) in [(t as usize, 0usize), (t as usize, t as usize - 1), (t as usize + 1, 1), (t as usize - 1, 0)] {
      if cnt == 0 {
        continue;
      }
      let meas = format!("edge-point/{}/{}/{}", name, cnt, gi).into_bytes();
      gi += 1;
      let rnd = local_randomness(&meas, epoch.as_bytes(), t);
      for j in 0..cnt {
        let want_x = if j == pos.min(cnt - 1) { Some(&x) } else { None };
        match fresh(&meas, &rnd, &mut k, want_x) {
          Some(r) => {
            if want_x.is_some() {
              if r.x != x {
                cx.note("scripted share point was not taken over by the dealer (seam drift): group skipped");
                continue;
              }
              edge_points += 1;
            }
            reps.push(r);
          }
          None => {
            cx.viol("C18/generate-failed/field-edge", format!("an honest report could not be generated with share point {}", name), json!({"t": t, "point": name}));
            return;
          }
        }
      }
    }
  }
  // ---- value edges
  if t == 2 {
    for (name, y) in &value_targets {
      for cnt in [2usize, 3, 1] {
        let meas = format!("edge-value/{}/{}/{}", name, cnt, gi).into_bytes();
        gi += 1;
        let rnd = local_randomness(&meas, epoch.as_bytes(), t);
        // two ordinary reports give the line
        let probe: Vec<Rep> = (0..2).filter_map(|_| fresh(&meas, &rnd, &mut k, None)).collect();
        if probe.len() != 2 {
          continue;
        }
        let pts: Vec<(BigUint, BigUint)> = probe.iter().filter_map(|r| rm::parse_adss(&r.msg.share.to_bytes()).map(|s| (s.s.x.clone(), s.s.y[0].clone()))).collect();
        if pts.len() != 2 || pts[0].0 == pts[1].0 {
          continue;
        }
        let co = rm::interpolate_coeffs(&pts);
        let inv = match rm::invm(&co[1]) {
          Some(i) => i,
          None => continue,
        };
        let x = rm::mulm(&rm::subm(y, &co[0]), &inv);
        if x == BigUint::from(0u32) {
          continue;
        }
        let edge = match fresh(&meas, &rnd, &mut k, Some(&x)) {
          Some(r) => r,
          None => {
            cx.viol("C18/generate-failed/field-edge", format!("an honest report could not be generated whose share value is {}", name), json!({"t": t, "value": name}));
            return;
          }
        };
        let got_y = rm::parse_adss(&edge.msg.share.to_bytes()).map(|s| s.s.y[0].clone());
        if got_y.as_ref() != Some(y) {
          cx.note("solved share point did not give the targeted share value (several value positions?): group skipped");
          continue;
        }
        edge_values += 1;
        reps.push(edge);
        let mut others = probe;
        others.truncate(cnt - 1);
        reps.extend(others);
      }
    }
  }
  cx.count("edge_point_reports", edge_points);
  cx.count("edge_value_reports", edge_values);
  let server = AggregationServer::new(t, epoch);
  let all: Vec<&Rep> = reps.iter().collect();
  let want = expected(&all, t);
  cx.nontrivial(fnv_str(&case.to_string()));
  for (pn, pool) in pools(&[1, 4]) {
    for rev in [false, true] {
      let mut msgs: Vec<Message> = reps.iter().map(|r| r.msg.clone()).collect();
      if rev {
        msgs.reverse();
      }
      if !judge(cx, observe(&server, &pool, &msgs), &want, &|| json!({"t": t, "groups": gi, "worker_threads": pn, "reversed": rev, "note": "one report per group has its share point (or, for t = 2, its share value) at an edge of the field: 1, 2^64, 2^127, 2^128-1, 2^128 .. p-1 (the 12451 elements that need a 129th bit), (p-1)/2"})) {
        if let Some(v) = cx.viols.last_mut() {
          v.key = format!("{}/field-edge", v.key);
          v.what = format!("honest reports with an edge element of the field as share point / value: {}", v.what);
        }
        return;
      }
    }
  }
  // ... and group by group (so that the failing element is named)
  let (_, pool) = pools(&[1]).remove(0);
  let mut by_meas: BTreeMap<Vec<u8>, Vec<&Rep>> = BTreeMap::new();
  for r in &reps {
    by_meas.entry(r.meas.clone()).or_default().push(r);
  }
  for (m, rs) in &by_meas {
    let w = expected(rs, t);
    let msgs: Vec<Message> = rs.iter().map(|r| r.msg.clone()).collect();
    if !judge(cx, observe(&server, &pool, &msgs), &w, &|| json!({"t": t, "group": String::from_utf8_lossy(m), "reports": rs.len()})) {
      if let Some(v) = cx.viols.last_mut() {
        v.key = format!("{}/field-edge", v.key);
      }
      return;
    }
  }
  cx.count("revealed_groups", want.len() as u64);
  cx.count("hidden_groups", (by_meas.len() - want.len()) as u64);
  cx.outcome(format!("field edges t={} revealed={} hidden={}", t, want.len(), by_meas.len() - want.len()));
}


/// ONE aggregation-server object reused for MANY calls: 60 consecutive `retrieve_outputs` calls over batches
/// that alternate between a full batch, its halves, an empty batch and a batch of another composition - every
/// call's output is what a fresh server gives for that batch (no state from one call to the next, no even /
/// odd or first-call difference)
fn run_server_reuse(cx: &mut CaseCx, case: &Value) {
  let t = case["t"].as_u64().unwrap() as u32;
  let reps = match make_reports(cx, t, &[t as usize, t as usize + 1, t as usize - 1, 2 * t as usize, 1], true) {
    Some(r) => r,
    None => return,
  };
  let server = AggregationServer::new(t, "t");
  let pool = rayon::ThreadPoolBuilder::new().num_threads(3).build().expect("pool");
  let n = reps.len();
  let batches: Vec<(&str, Vec<usize>)> = vec![("the full batch", (0..n).collect()), ("its first half", (0..n / 2).collect()), ("the empty batch", vec![]), ("its second half", (n / 2..n).collect()), ("every other report", (0..n).step_by(2).collect()), ("the full batch reversed", (0..n).rev().collect())];
  cx.nontrivial(t as u64);
  for call in 0..60usize {
    let (bname, idx) = &batches[(call * 7 + call / 6) % batches.len()];
    let sel: Vec<&Rep> = idx.iter().map(|&i| &reps[i]).collect();
    let want = expected(&sel, t);
    let msgs: Vec<Message> = sel.iter().map(|r| r.msg.clone()).collect();
    if !judge(cx, observe(&server, &pool, &msgs), &want, &|| json!({"t": t, "call_number": call + 1, "batch": bname})) {
      if let Some(v) = cx.viols.last_mut() {
        v.key = format!("{}/server-reuse", v.key);
        v.what = format!("call number {} on one aggregation-server object ({}): {}", call + 1, bname, v.what);
      }
      return;
    }
    cx.count("calls_on_one_server", 1);
  }
  cx.outcome("server reuse");
}


/// the epoch as the deployment may choose it: empty, non-ASCII, with spaces, long - the clients use its UTF-8
/// bytes, the server is constructed from the same string; groups of t, t+1, t-1 reports
fn run_epochs(cx: &mut CaseCx, case: &Value) {
  let t = case["t"].as_u64().unwrap() as u32;
  let epochs: Vec<String> = vec!["".into(), "t".into(), "é".into(), "été 2026".into(), "\u{2603}".into(), "2026-W39 / ß".into(), "x".repeat(70), "\u{1F600}e".into(), "\u{ff}".into()];
  for epoch in epochs {
    let eb = epoch.as_bytes();
    let mut reps: Vec<Rep> = vec![];
    let mut k = 0usize;
    for (g, cnt) in [t as usize, t as usize + 1, t as usize - 1].iter().enumerate() {
      let meas = format!("measurement-{}-of-epoch", g).into_bytes();
      let rnd = local_randomness(&meas, eb, t);
      for _ in 0..*cnt {
        getrandom::verif::set_group(k as u32 + 1);
        let aux = aux_for(k);
        match gen_report(&meas, eb, t, &rnd, &aux) {
          Ok(msg) => {
            if let Some(x) = share_x(&msg.share.to_bytes()) {
              reps.push(Rep { msg, meas: meas.clone(), aux, x });
            }
          }
          Err(e) => {
            cx.viol("C18/generate-failed", format!("a client cannot report under the epoch {:?}: {}", epoch, e), json!({"epoch": epoch}));
            return;
          }
        }
        k += 1;
      }
    }
    let server = AggregationServer::new(t, &epoch);
    let all: Vec<&Rep> = reps.iter().collect();
    let want = expected(&all, t);
    let msgs: Vec<Message> = reps.iter().map(|r| r.msg.clone()).collect();
    cx.nontrivial(fnv_str(&format!("{}|{}", t, epoch)));
    let pool = rayon::ThreadPoolBuilder::new().num_threads(2).build().expect("pool");
    if !judge(cx, observe(&server, &pool, &msgs), &want, &|| json!({"t": t, "epoch": epoch, "epoch_bytes": hexs(eb)})) {
      if let Some(v) = cx.viols.last_mut() {
        v.key = format!("{}/epoch", v.key);
        v.what = format!("clients and server agree on the epoch {:?}: {}", epoch, v.what);
      }
      return;
    }
    cx.count("epochs_aggregated", 1);
  }
  cx.outcome(format!("t={}", t));
}

/// magnitudes: associated data beyond 64 KiB, thresholds in the hundreds
fn run_magnitudes(cx: &mut CaseCx, case: &Value) {
  let t = case["t"].as_u64().unwrap() as u32;
  let auxlen = case["auxlen"].as_u64().unwrap() as usize;
  let server = AggregationServer::new(t, "t");
  let meas = b"magnitude".to_vec();
  let rnd = local_randomness(&meas, b"t", t);
  let mut reps: Vec<Rep> = vec![];
  for k in 0..t as usize + 1 {
    getrandom::verif::set_group(k as u32 + 1);
    let aux = if k == 0 && auxlen > 0 { Some(prbytes(auxlen as u64, auxlen)) } else { aux_for(k) };
    if let Ok(msg) = gen_report(&meas, b"t", t, &rnd, &aux) {
      if let Some(x) = share_x(&msg.share.to_bytes()) {
        reps.push(Rep { msg, meas: meas.clone(), aux, x });
      }
    }
  }
  // a second, below-threshold group
  let m2 = b"lonely".to_vec();
  if t >= 2 {
    if let Ok(msg) = gen_report(&m2, b"t", t, &local_randomness(&m2, b"t", t), &None) {
      if let Some(x) = share_x(&msg.share.to_bytes()) {
        reps.push(Rep { msg, meas: m2, aux: None, x });
      }
    }
  }
  let all: Vec<&Rep> = reps.iter().collect();
  let want = expected(&all, t);
  cx.nontrivial(fnv_str(&case.to_string()));
  for (pn, pool) in pools(&[1, 4]) {
    for rev in [false, true] {
      let mut msgs: Vec<Message> = reps.iter().map(|r| r.msg.clone()).collect();
      if rev {
        msgs.reverse();
      }
      if !judge(cx, observe(&server, &pool, &msgs), &want, &|| json!({"t": t, "largest_aux": auxlen, "reports": reps.len(), "reversed": rev, "worker_threads": pn})) {
        return;
      }
    }
  }
  cx.count("revealed_groups", want.len() as u64);
  cx.outcome(format!("t={} aux={}", t, auxlen));
}

/// one revealed group per measurement LENGTH 0..=60 (framing / padding boundaries), with and without aux
fn run_lengths(cx: &mut CaseCx, case: &Value) {
  let t = case["t"].as_u64().unwrap() as u32;
  let with_aux = case["aux"].as_bool().unwrap();
  let server = AggregationServer::new(t, "t");
  let mut reps: Vec<Rep> = vec![];
  for len in 0..=60usize {
    let meas: Vec<u8> = (0..len).map(|i| b'a' + ((len + i) % 26) as u8).collect();
    let rnd = local_randomness(&meas, b"t", t);
    for k in 0..t as usize {
      getrandom::verif::set_group((len * 8 + k) as u32 + 1);
      let aux = if with_aux { aux_for(len + k) } else { None };
      if let Ok(msg) = gen_report(&meas, b"t", t, &rnd, &aux) {
        if let Some(x) = share_x(&msg.share.to_bytes()) {
          reps.push(Rep { msg, meas: meas.clone(), aux, x });
        }
      }
    }
  }
  let all: Vec<&Rep> = reps.iter().collect();
  let want = expected(&all, t);
  cx.nontrivial(fnv_str(&case.to_string()));
  for (pn, pool) in pools(&[1, 4]) {
    let msgs: Vec<Message> = reps.iter().map(|r| r.msg.clone()).collect();
    // group by group first, so that a failure names the measurement length
    for len in 0..=60usize {
      let sub: Vec<Message> = reps.iter().filter(|r| r.meas.len() == len).map(|r| r.msg.clone()).collect();
      let sub_reps: Vec<&Rep> = reps.iter().filter(|r| r.meas.len() == len).collect();
      if !judge(cx, observe(&server, &pool, &sub), &expected(&sub_reps, t), &|| json!({"t": t, "measurement_length": len, "associated_data": with_aux, "worker_threads": pn})) {
        return;
      }
    }
    if !judge(cx, observe(&server, &pool, &msgs), &want, &|| json!({"t": t, "measurement_lengths": "0..=60", "associated_data": with_aux, "worker_threads": pn})) {
      return;
    }
  }
  cx.count("revealed_groups", want.len() as u64);
  cx.outcome("lengths 0..60");
  cx.sample(json!({"t": t, "measurement_lengths": "0..=60", "associated_data": with_aux, "revealed": want.len()}));
}

/// many thousand reports: groups straddle every internal batching boundary one could think of (orders interleave groups)
fn run_large_input(cx: &mut CaseCx, case: &Value) {
  let t = case["t"].as_u64().unwrap() as u32;
  let g = case["groups"].as_u64().unwrap() as usize;
  let sizes: Vec<usize> = (0..g).map(|i| 1 + (i * 7 + 3) % (2 * t as usize)).collect();
  let reps = match make_reports(cx, t, &sizes, false) {
    Some(r) => r,
    None => return,
  };
  let n = reps.len();
  let server = AggregationServer::new(t, "t");
  let all: Vec<&Rep> = reps.iter().collect();
  let want = expected(&all, t);
  cx.nontrivial(fnv_str(&case.to_string()));
  cx.count("reports_in_large_input", n as u64);
  let ps = pools(&[1, 3, 16]);
  // orders: generation order (groups contiguous), a large odd stride (groups scattered over the whole input), reversed
  let mut orders: Vec<(&str, Vec<usize>)> = vec![("generation order", (0..n).collect()), ("reversed", (0..n).rev().collect())];
  let stride = (0..).map(|k| n / 2 + 1 + k).find(|s| gcd(*s, n) == 1).unwrap();
  orders.push(("scattered (stride n/2+1)", (0..n).map(|i| i * stride % n).collect()));
  orders.push(("shifted by 4090", (0..n).map(|i| (i + 4090) % n).collect()));
  for (oname, order) in &orders {
    let msgs: Vec<Message> = order.iter().map(|&i| reps[i].msg.clone()).collect();
    for (pn, pool) in &ps {
      if !judge(cx, observe(&server, pool, &msgs), &want, &|| json!({"t": t, "groups": g, "reports": n, "order": oname, "worker_threads": pn})) {
        return;
      }
    }
  }
  cx.count("revealed_groups", want.len() as u64);
  cx.outcome(format!("{} reports", n));
  cx.sample(json!({"t": t, "groups": g, "reports": n, "revealed": want.len()}));
}
fn gcd(a: usize, b: usize) -> usize {
  if b == 0 {
    a
  } else {
    gcd(b, a % b)
  }
}


/// SUPPLEMENTARY (free-running schedules, not enumerated): one server object used from several threads at once
fn run_concurrent_callers(cx: &mut CaseCx, case: &Value) {
  let t = case["t"].as_u64().unwrap() as u32;
  let sizes: Vec<usize> = (0..12).map(|i| 1 + (i * 5 + 2) % (2 * t as usize)).collect();
  let reps = match make_reports(cx, t, &sizes, false) {
    Some(r) => r,
    None => return,
  };
  let server = AggregationServer::new(t, "t");
  let all: Vec<&Rep> = reps.iter().collect();
  let want = expected(&all, t);
  // every caller gets its own permutation of the same multiset, and a sub-multiset (first half of the groups)
  let half: Vec<&Rep> = reps.iter().filter(|r| r.meas.len() % 2 == 0).collect();
  let want_half = expected(&half, t);
  cx.nontrivial(fnv_str(&case.to_string()));
  for round in 0..8 {
    let results: Vec<(Result<Vec<(Vec<u8>, Vec<Aux>)>, String>, bool)> = std::thread::scope(|s| {
      let hs: Vec<_> = (0..6usize)
        .map(|k| {
          let (server, reps, half) = (&server, &reps, &half);
          s.spawn(move || {
            let pool = rayon::ThreadPoolBuilder::new().num_threads(1 + k % 3).build().expect("pool");
            if k % 2 == 0 {
              let n = reps.len();
              let stride = (2 * k + 1..).find(|s| gcd(*s, n) == 1).unwrap();
              let msgs: Vec<Message> = (0..n).map(|i| reps[(i * stride + round) % n].msg.clone()).collect();
              (observe(server, &pool, &msgs), false)
            } else {
              let msgs: Vec<Message> = half.iter().rev().map(|r| r.msg.clone()).collect();
              (observe(server, &pool, &msgs), true)
            }
          })
        })
        .collect();
      hs.into_iter().map(|h| h.join().unwrap_or((Err("caller thread died".into()), false))).collect()
    });
    for (k, (got, is_half)) in results.into_iter().enumerate() {
      if !judge(cx, got, if is_half { &want_half } else { &want }, &|| json!({"t": t, "concurrent_caller": k, "round": round, "note": "six threads called retrieve_outputs on one server object at the same time (free-running)"})) {
        return;
      }
    }
  }
  cx.count("concurrent_rounds", 8);
}

fn size_vectors(t: usize, max_groups: usize) -> Vec<Vec<usize>> {
  // all non-decreasing vectors (groups are interchangeable) of 1..=max_groups sizes in 1..=2t
  let mut out = vec![];
  fn rec(t: usize, max_groups: usize, cur: &mut Vec<usize>, out: &mut Vec<Vec<usize>>) {
    if !cur.is_empty() {
      out.push(cur.clone());
    }
    if cur.len() == max_groups {
      return;
    }
    let lo = cur.last().copied().unwrap_or(1);
    for s in lo..=2 * t {
      cur.push(s);
      rec(t, max_groups, cur, out);
      cur.pop();
    }
  }
  rec(t, max_groups, &mut vec![], &mut out);
  out
}

pub fn spec() -> PropSpec {
  PropSpec {
    id: "C18",
    level: "model_checking",
    assumptions: vec![
      "SCHEDULES ARE NOT ENUMERATED: rayon and std::sync cannot be put under a controlled scheduler with the installed tools (no cfg(loom) seam in rayon; loom/shuttle see only their own primitives), so each (input order, pool size) is one free-running schedule; enumerated are inputs, input orders and pool sizes 1,2,3,4,8,16. The parallel closure captures &self and an owned bucket only (no shared mutable state, no unsafe in test-utils)",
      "associated data is compared modulo Some(empty) == None: the reference server deliberately reports empty associated data as absent (`if !aux_bytes.is_empty()`)",
      "a measurement counts as reported by the clients whose share points are distinct; the same report delivered twice is one client",
      "HashMap iteration order in collect_messages is not owned by the harness; outputs are compared as maps / multisets",
    ],
    thorough_budget_s: 1800,
    checks: vec![
      Check {
        name: "group-size-vectors",
        rule: "t in 1..3; ALL vectors of <= 3 (thorough: 4) group sizes in 1..2t; measurements share a 48-byte prefix; aux per client round-robin over {absent, empty, 1 byte, 200 bytes, 25 bytes with a common trailer, 25 bytes with a common head}; for inputs of <= 6 (thorough 7) reports ALL permutations of the input, above that a structured family (identity, reversal, rotations, strides, every report moved to the front); each order under worker pools of 1,2,3,4,8,16 threads; also with the first report of every group delivered twice; oracle: reference map measurement -> multiset of aux for groups with >= t distinct reports, outputs pairwise distinct, nothing else revealed; decomposition (group-by-group outputs) equals the whole",
        gen: |tier| {
          let mut v = vec![];
          for t in 1..=3usize {
            for sizes in size_vectors(t, if tier.thorough() { 4 } else { 3 }) {
              let n: usize = sizes.iter().sum();
              if !tier.thorough() && n > 12 {
                continue;
              }
              v.push(json!({"t": t, "sizes": sizes, "dup": false}));
              if n <= 8 {
                v.push(json!({"t": t, "sizes": sizes, "dup": true}));
              }
            }
          }
          v
        },
        run: run_vector,
        min_counts: &[("revealed_groups", 50), ("hidden_groups", 50), ("states", 10_000)],
      },
      Check {
        name: "near-colliding-tags",
        rule: "boundary search on the grouping key: tags of 400000 measurements (thorough 1.2 million; by the birthday bound several pairs agree in 4 leading or trailing bytes); the 12 closest pairs by leading bytes and the 12 closest by trailing bytes are aggregated together with (3,3), (4,3), (3,2), (2,3) reports, group by group, interleaved both ways and reversed: each measurement revealed iff it has >= t reports, with its own associated data",
        gen: |_| vec![json!({})],
        run: run_near_colliding_tags,
        min_counts: &[("near_collision_aggregations", 100), ("best_leading_agreement_bytes", 4)],
      },
      Check {
        name: "boundary-keys",
        rule: "boundary search on an internal value: of 1600 measurements per threshold (t in {2,3}) those whose 16-byte sharing key has a 0x00 / 0xff boundary byte or a zero pair, with t, t+1 or t-1 reports each, aggregated in one batch (forwards / reversed, 1 and 4 workers): revealed iff >= t reports, with their clients' associated data",
        gen: |_| {
          let mut v = vec![];
          for t in [2u64, 3] {
            for c in 0..4u64 {
              v.push(json!({"t": t, "lo": c * 400}));
            }
          }
          v
        },
        run: run_boundary_keys,
        min_counts: &[("boundary_keys_found", 35), ("revealed_groups", 20)],
      },
      Check {
        name: "field-edges",
        rule: "t in {2,3,5}: per edge element e of the field in {1, 2^64, 2^127, 2^128-1, 2^128, 2^128+1, 2^128+6225, p-2, p-1, (p-1)/2, (p+1)/2} groups of exactly t (edge report first / last), t+1 and t-1 honest reports of which ONE has its share point scripted to e; for t = 2 also groups in which one report's share VALUE is 2^128, 2^128+1, p-1 or 0 (its point solved from the line through two ordinary reports); the whole batch (forwards / reversed, 1 and 4 workers) and every group alone: revealed iff >= t reports, with exactly the clients' associated data",
        gen: |_| [2u64, 3, 5].iter().map(|t| json!({"t": t})).collect(),
        run: run_field_edges,
        min_counts: &[("edge_point_reports", 100), ("edge_value_reports", 8), ("revealed_groups", 60), ("hidden_groups", 20)],
      },
      Check {
        name: "server-reuse",
        rule: "ONE AggregationServer object through 60 consecutive retrieve_outputs calls (t in {2,3,5}) over batches in rotation - the full batch (groups of t, t+1, t-1, 2t, 1 reports plus duplicates), its halves, the empty batch, every other report, the reverse: every call returns what the reference model gives for that batch",
        gen: |_| [2u64, 3, 5].iter().map(|t| json!({"t": t})).collect(),
        run: run_server_reuse,
        min_counts: &[("calls_on_one_server", 180)],
      },
      Check {
        name: "epochs",
        rule: "the epoch as a deployment may choose it - empty, 't', 'é', 'été 2026', U+2603, text with spaces and ß, 70 characters, an emoji, U+00FF - used by the clients (its UTF-8 bytes) and to construct the server, t in {2,3}: groups of t, t+1 and t-1 reports are revealed iff >= t, with their clients' associated data",
        gen: |_| [2u64, 3].iter().map(|t| json!({"t": t})).collect(),
        run: run_epochs,
        min_counts: &[("epochs_aggregated", 18)],
      },
      Check {
        name: "magnitudes",
        rule: "associated data of 65527, 65528, 65535, 65536, 70000, 200000 bytes on one client (t = 2); thresholds 64, 65, 66, 128, 129, 130, 257, 513, 514 with t+1 reports and a second group below threshold; pools of 1 and 4 threads, input in both orders",
        gen: |tier| {
          let mut v: Vec<Value> = [65527u64, 65528, 65535, 65536, 70000, 200000].iter().map(|a| json!({"t": 2, "auxlen": a})).collect();
          let mut ts = vec![64u64, 65, 66, 128, 129, 130, 257, 513, 514];
          if tier.thorough() {
            ts.extend([192, 193, 511, 512, 515, 600]);
          }
          v.extend(ts.into_iter().map(|t| json!({"t": t, "auxlen": 0})));
          v
        },
        run: run_magnitudes,
        min_counts: &[("revealed_groups", 12)],
      },
      Check {
        name: "measurement-lengths",
        rule: "one group of exactly t reports per measurement length 0..=60, with associated data absent everywhere / mixed: every group alone and all together under pools of 1 and 4 threads (payload framing and any padding at every length residue)",
        gen: |_| {
          let mut v = vec![];
          for t in [1u64, 2] {
            for aux in [false, true] {
              v.push(json!({"t": t, "aux": aux}));
            }
          }
          v
        },
        run: run_lengths,
        min_counts: &[("revealed_groups", 200)],
      },
      Check {
        name: "large-inputs",
        rule: "inputs of several thousand reports (beyond 4096 and 8192): generation order, reversed, scattered with a large stride, shifted by 4090, under pools of 1, 3 and 16 threads",
        gen: |tier| if tier.thorough() { vec![json!({"t": 2, "groups": 2500}), json!({"t": 3, "groups": 3000}), json!({"t": 1, "groups": 6000})] } else { vec![json!({"t": 2, "groups": 2000})] },
        run: run_large_input,
        min_counts: &[("reports_in_large_input", 4200)],
      },
      Check {
        name: "concurrent-callers (supplementary)",
        rule: "SUPPLEMENTARY, schedules free-running: six threads call retrieve_outputs on ONE server object at the same time (own pools of 1..3 workers, own permutations, half of them a sub-multiset), 8 rounds: every caller gets exactly the reference result of ITS input",
        gen: |_| (1..=3u64).map(|t| json!({"t": t})).collect(),
        run: run_concurrent_callers,
        min_counts: &[("concurrent_rounds", 8)],
      },
      Check {
        name: "many-groups",
        rule: "hundreds of groups (sizes cycling 1..2t) under pools of 1,2,3,5,7,8,16 threads and 3 input orders: number of revealed groups not a multiple of the pool size",
        gen: |tier| {
          let mut v = vec![];
          for t in [1u64, 2, 3] {
            for g in if tier.thorough() { vec![5u64, 17, 100, 300] } else { vec![5u64, 17, 61] } {
              v.push(json!({"t": t, "groups": g}));
            }
          }
          v
        },
        run: run_many_groups,
        min_counts: &[("revealed_groups", 50)],
      },
    ],
  }
}
