//! C07 — the share field is Z/(2^128+12451) with one canonical encoding.
//! E-dom: full boundary-lattice cross product, depth-2 closure over real ops,
//! exhaustive single-byte decode grid, published constants.
use crate::mc::*;
use crate::refmodel as rm;
use crate::sut::*;
use ff::{Field, PrimeField};
use num_bigint::BigUint;
use num_traits::{One, Zero};
use serde_json::{json, Value};
use star_sharks::{Fp, FpRepr};
use std::collections::BTreeMap;

fn lattice() -> Vec<BigUint> {
  let p = rm::p();
  let one = BigUint::one();
  let centres: Vec<BigUint> = vec![
    BigUint::zero(),
    &one << 32,
    &one << 63,
    &one << 64,
    &one << 65,
    &one << 96,
    &one << 127,
    &one << 128,
    rm::q(),
    p.clone(),
  ];
  let mut v: Vec<BigUint> = vec![];
  for c in &centres {
    for d in 0u32..=6 {
      let d = BigUint::from(d);
      v.push(c + &d);
      if *c >= d {
        v.push(c - &d);
      }
    }
  }
  let r: BigUint = (&one << 192usize) % &p; // Montgomery R
  v.push(BigUint::from(3u32));
  v.push(BigUint::from(9u32));
  v.push(BigUint::from(12451u32));
  v.push((&one << 128) - BigUint::from(12451u32));
  v.push(r.clone());
  v.push((&r * &r) % &p);
  v.push(rm::invm(&r).unwrap());
  v.push((&one << 64) - &one);
  v.push((&one << 128) - &one);
  v.push(BigUint::parse_bytes(b"ffffffffffffffff0000000000000000", 16).unwrap());
  v.push(BigUint::parse_bytes(b"0000000000000000ffffffffffffffff", 16).unwrap());
  v.push(BigUint::parse_bytes(b"aaaaaaaaaaaaaaaaaaaaaaaaaaaaaaaa", 16).unwrap());
  v.push(BigUint::parse_bytes(b"55555555555555555555555555555555", 16).unwrap());
  let mut v: Vec<BigUint> = v.into_iter().filter(|x| *x < p).collect();
  // the same boundaries in the MONTGOMERY domain: x with x*R mod p within 3 of 0, 2^64, 2^128, p
  // (intermediate results of the limb code that are tiny / limb-aligned / just below the modulus)
  let rinv = rm::invm(&r).unwrap();
  let half = |x: &BigUint| x >> 1;
  for c in [BigUint::zero(), &one << 64, &one << 128, p.clone(), &one << 127, (&one << 127) + (&one << 63), (&one << 127) + (&one << 64), half(&p), half(&p) + (&one << 63), (&one << 128) + (&one << 64), (&one << 128) + (&one << 65) + &one] {
    for d in 0u32..=3 {
      for m in [&c + BigUint::from(d), if c >= BigUint::from(d) { &c - BigUint::from(d) } else { c.clone() }] {
        if m < p {
          v.push(rm::mulm(&m, &rinv));
        }
      }
    }
  }
  // values with STRUCTURE rather than magnitude: every combination of characteristic 64-bit limbs (zero, one,
  // top bit, all ones, repeated bytes, top+bottom bit, 2^64-12451, 2^32) in the two low limbs, in the
  // standard AND in the Montgomery domain (a limb routine wrong for a zero / saturated / carry-generating
  // limb in one position)
  let limb_vals: [u64; 8] = [0, 1, 1 << 63, u64::MAX, 0x0101_0101_0101_0101, 0x8000_0000_0000_0001, u64::MAX - 12450, 1 << 32];
  for &l0 in &limb_vals {
    for &l1 in &limb_vals {
      let m = (BigUint::from(l1) << 64usize) + BigUint::from(l0);
      v.push(m.clone());
      v.push(rm::mulm(&m, &rinv));
    }
  }
  v.sort();
  v.dedup();
  v
}

fn exps() -> Vec<BigUint> {
  let p = rm::p();
  vec![
    BigUint::zero(),
    BigUint::one(),
    BigUint::from(2u32),
    BigUint::from(3u32),
    &p - BigUint::from(2u32),
    &p - BigUint::one(),
    rm::q(),
    (&p + BigUint::one()) >> 2,
    (BigUint::one() << 64) - BigUint::one(),
    (BigUint::one() << 191) + BigUint::one(),
  ]
}
fn limbs(e: &BigUint) -> [u64; 3] {
  let b = rm::le24(e);
  [
    u64::from_le_bytes(b[0..8].try_into().unwrap()),
    u64::from_le_bytes(b[8..16].try_into().unwrap()),
    u64::from_le_bytes(b[16..24].try_into().unwrap()),
  ]
}

fn real(n: &BigUint) -> Fp {
  fp_from_big(n).expect("lattice value decodes")
}

/// compare a real element with the model value; also checks canonical to_repr/from_repr
fn cmp(cx: &mut CaseCx, what: &str, key: &str, got: &Fp, want: &BigUint, detail: impl Fn() -> Value) {
  cx.eval();
  let g = fp_to_big(got);
  if g != *want {
    cx.viol(format!("C07/{}", key), format!("{}: real field gives {} but integers mod p give {}", what, g, want), detail());
  }
  // canonical encoding of whatever the operation returned
  let repr = got.to_repr();
  if g >= rm::p() {
    cx.viol("C07/encoding/non-canonical-to_repr", format!("{}: to_repr encodes {} >= p", what, g), detail());
  }
  let back: Option<Fp> = Option::from(Fp::from_repr(repr));
  if back != Some(*got) {
    cx.viol("C07/encoding/roundtrip", format!("{}: from_repr(to_repr(v)) != v", what), detail());
  }
  // one integer, one element: the result compares equal to the element decoded from the model value,
  // and agrees with it on being zero / invertible (a second internal representation of one value shows here)
  if let Some(w) = fp_from_big(want) {
    if g == *want && (*got != w || bool::from(got.is_zero()) != want.is_zero() || bool::from(got.invert().is_some()) == want.is_zero()) {
      cx.viol("C07/value-equality", format!("{}: the result encodes as {} but does not behave as that element (== / is_zero / invert disagree with the element decoded from the same integer)", what, g), detail());
    }
  }
}

fn run_binops(cx: &mut CaseCx, case: &Value) {
  let lat = lattice();
  let i = case["row"].as_u64().unwrap() as usize;
  let a = &lat[i];
  let ra = real(a);
  for b in lat.iter() {
    let rb = real(b);
    let d = || json!({"a": a.to_string(), "b": b.to_string()});
    cmp(cx, "a+b", "binop/add", &(ra + rb), &rm::addm(a, b), d);
    cmp(cx, "a-b", "binop/sub", &(ra - rb), &rm::subm(a, b), d);
    cmp(cx, "a*b", "binop/mul", &(ra * rb), &rm::mulm(a, b), d);
    let mut t = ra;
    t += rb;
    cmp(cx, "a+=b", "binop/add_assign", &t, &rm::addm(a, b), d);
    let mut t = ra;
    t -= rb;
    cmp(cx, "a-=b", "binop/sub_assign", &t, &rm::subm(a, b), d);
    let mut t = ra;
    t *= rb;
    cmp(cx, "a*=b", "binop/mul_assign", &t, &rm::mulm(a, b), d);
    // one more operation on top of each result (a result that is correct in value but not fully reduced
    // internally shows only in the NEXT subtraction / negation)
    let (sum, dif, prod) = (ra + rb, ra - rb, ra * rb);
    let (msum, mdif, mprod) = (rm::addm(a, b), rm::subm(a, b), rm::mulm(a, b));
    cmp(cx, "-(a+b)", "compose/neg-add", &(-sum), &rm::negm(&msum), d);
    cmp(cx, "-(a-b)", "compose/neg-sub", &(-dif), &rm::negm(&mdif), d);
    cmp(cx, "-(a*b)", "compose/neg-mul", &(-prod), &rm::negm(&mprod), d);
    cmp(cx, "0-(a*b)", "compose/zero-minus-mul", &(Fp::ZERO - prod), &rm::negm(&mprod), d);
    cmp(cx, "(a+b)-(a*b)", "compose/add-minus-mul", &(sum - prod), &rm::subm(&msum, &mprod), d);
    cmp(cx, "(a*b).double()", "compose/double-mul", &prod.double(), &rm::addm(&mprod, &mprod), d);
    // the iterator forms (Sum / Product over values and over references), incl. sums that cancel to zero
    let nsum = -(ra + rb);
    cmp(cx, "[a,b].sum()", "iter/sum", &[ra, rb].into_iter().sum::<Fp>(), &msum, d);
    cmp(cx, "[&a,&b].sum()", "iter/sum-ref", &[ra, rb].iter().sum::<Fp>(), &msum, d);
    cmp(cx, "[a,b,-(a+b)].sum()", "iter/sum-cancels", &[ra, rb, nsum].into_iter().sum::<Fp>(), &BigUint::zero(), d);
    cmp(cx, "[a,-a].sum()", "iter/sum-cancels", &[ra, -ra].into_iter().sum::<Fp>(), &BigUint::zero(), d);
    cmp(cx, "[a,b,a].sum()", "iter/sum3", &[ra, rb, ra].into_iter().sum::<Fp>(), &rm::addm(&msum, a), d);
    // ... and one more operation on top of a three-term sum (a sum that is right in value but not fully
    // reduced internally shows only in the next negation / subtraction / raw conversion)
    {
      let s3: Fp = [ra, rb, ra].into_iter().sum();
      let m3 = rm::addm(&msum, a);
      cmp(cx, "-[a,b,a].sum()", "iter/neg-sum3", &(-s3), &rm::negm(&m3), d);
      cmp(cx, "b-[a,b,a].sum()", "iter/sub-sum3", &(rb - s3), &rm::subm(b, &m3), d);
      cmp(cx, "[a,b,a].sum().double()", "iter/double-sum3", &s3.double(), &rm::addm(&m3, &m3), d);
      let s5: Fp = [ra, rb, ra, rb, rb].iter().sum();
      let m5 = rm::addm(&rm::addm(&m3, b), b);
      cmp(cx, "-[a,b,a,b,b].sum()", "iter/neg-sum5", &(-s5), &rm::negm(&m5), d);
      let p3: Fp = [ra, rb, ra].into_iter().product();
      cmp(cx, "-[a,b,a].product()", "iter/neg-product3", &(-p3), &rm::negm(&rm::mulm(&mprod, a)), d);
    }
    cmp(cx, "[a,b].product()", "iter/product", &[ra, rb].into_iter().product::<Fp>(), &mprod, d);
    cmp(cx, "[&a,&b,&a].product()", "iter/product-ref", &[ra, rb, ra].iter().product::<Fp>(), &rm::mulm(&mprod, a), d);
    cx.eval();
    if (ra == rb) != (a == b) {
      cx.viol("C07/binop/eq", "equality of elements disagrees with equality of integers", d());
    }
    // the other comparison traits must tell the same story as the integers: Ord / PartialOrd, constant-time
    // equality, conditional selection (trait implementations that disagree with each other)
    {
      use subtle::{Choice, ConditionallySelectable, ConstantTimeEq};
      cx.eval();
      if ra.cmp(&rb) != a.cmp(b) || ra.partial_cmp(&rb) != Some(a.cmp(b)) {
        cx.viol("C07/binop/ord", format!("ordering of elements ({:?}) disagrees with the ordering of the integers ({:?})", ra.cmp(&rb), a.cmp(b)), d());
      }
      if bool::from(ra.ct_eq(&rb)) != (a == b) {
        cx.viol("C07/binop/ct_eq", "constant-time equality disagrees with equality of integers", d());
      }
      if Fp::conditional_select(&ra, &rb, Choice::from(0)) != ra || Fp::conditional_select(&ra, &rb, Choice::from(1)) != rb {
        cx.viol("C07/binop/conditional_select", "conditional_select does not return the selected operand", d());
      }
      let (mut x, mut y) = (ra, rb);
      Fp::conditional_swap(&mut x, &mut y, Choice::from(1));
      if x != rb || y != ra {
        cx.viol("C07/binop/conditional_swap", "conditional_swap does not swap", d());
      }
    }
    cx.nontrivial(fnv_str(&format!("{}|{}", a, b)));
  }
  cx.outcome(format!("row-bits-{}", a.bits()));
  if i == 0 {
    cx.sample(json!({"a": a.to_string(), "b": lat[1].to_string(), "a+b": fp_to_big(&(ra + real(&lat[1]))).to_string()}));
  }
}

fn unary_checks(cx: &mut CaseCx, a: &BigUint, ra: &Fp) {
  let p = rm::p();
  let d = || json!({"a": a.to_string()});
  cmp(cx, "-a", "unary/neg", &(-*ra), &rm::negm(a), d);
  cmp(cx, "double(a)", "unary/double", &ra.double(), &rm::addm(a, a), d);
  cmp(cx, "square(a)", "unary/square", &ra.square(), &rm::mulm(a, a), d);
  cmp(cx, "cube(a)", "unary/cube", &ra.cube(), &rm::mulm(&rm::mulm(a, a), a), d);
  // every unary result followed by one more unary operation
  let firsts: Vec<(&str, Fp, BigUint)> = vec![("neg", -*ra, rm::negm(a)), ("double", ra.double(), rm::addm(a, a)), ("square", ra.square(), rm::mulm(a, a)), ("cube", ra.cube(), rm::mulm(&rm::mulm(a, a), a))];
  for (n1, r1, m1) in &firsts {
    cmp(cx, &format!("-({}(a))", n1), "compose/neg-unary", &(-*r1), &rm::negm(m1), d);
    cmp(cx, &format!("{}(a).double()", n1), "compose/double-unary", &r1.double(), &rm::addm(m1, m1), d);
    cmp(cx, &format!("{}(a).square()", n1), "compose/square-unary", &r1.square(), &rm::mulm(m1, m1), d);
    cmp(cx, &format!("a-{}(a)", n1), "compose/sub-unary", &(*ra - *r1), &rm::subm(a, m1), d);
    cmp(cx, &format!("1-{}(a)", n1), "compose/one-minus-unary", &(Fp::ONE - *r1), &rm::subm(&BigUint::one(), m1), d);
    cx.eval();
    if r1.is_zero_vartime() != m1.is_zero() {
      cx.viol("C07/compose/is_zero", format!("is_zero({}({})) wrong", n1, a), d());
    }
  }
  // inversion: None exactly for zero
  cx.eval();
  let inv: Option<Fp> = Option::from(ra.invert());
  match (inv, rm::invm(a)) {
    (None, None) => cx.outcome("invert(0)=None"),
    (Some(g), Some(w)) => {
      cmp(cx, "invert(a)", "unary/invert", &g, &w, d);
      cmp(cx, "a*invert(a)", "unary/invert-product", &(g * *ra), &BigUint::one(), d);
    }
    (g, w) => cx.viol("C07/unary/invert-domain", format!("invert({}) defined={} but model defined={}", a, g.is_some(), w.is_some()), d()),
  }
  // square roots: defined exactly for residues, and the root squares to a
  cx.eval();
  let is_res = a.is_zero() || rm::powm(a, &rm::q()) == BigUint::one();
  let root: Option<Fp> = match guard(|| Option::<Fp>::from(ra.sqrt())) {
    Ok(r) => r,
    Err(p) => {
      cx.viol("C07/panic/sqrt", format!("sqrt({}) panicked: {}", a, p.chars().take(200).collect::<String>()), d());
      return;
    }
  };
  match (root, is_res) {
    (Some(r), true) => {
      let rb = fp_to_big(&r);
      if rm::mulm(&rb, &rb) != *a {
        cx.viol("C07/unary/sqrt-wrong", format!("sqrt({}) = {} whose square is not the operand", a, rb), d());
      }
      cx.outcome("sqrt(residue)=root");
    }
    (None, false) => cx.outcome("sqrt(non-residue)=None"),
    (g, w) => cx.viol("C07/unary/sqrt-domain", format!("sqrt({}) defined={} but operand is residue={}", a, g.is_some(), w), d()),
  }
  let (is_sq, r2) = match guard(|| Fp::sqrt_ratio(ra, &Fp::ONE)) {
    Ok(r) => r,
    Err(p) => {
      cx.viol("C07/panic/sqrt_ratio", format!("sqrt_ratio({},1) panicked: {}", a, p.chars().take(200).collect::<String>()), d());
      return;
    }
  };
  cx.eval();
  if bool::from(is_sq) != is_res {
    cx.viol("C07/unary/sqrt_ratio-domain", format!("sqrt_ratio({},1) is_square={} but residue={}", a, bool::from(is_sq), is_res), d());
  } else if is_res {
    let rb = fp_to_big(&r2);
    if rm::mulm(&rb, &rb) != *a {
      cx.viol("C07/unary/sqrt_ratio-wrong", format!("sqrt_ratio({},1) root does not square to operand", a), d());
    }
  }
  // the full contract of sqrt_ratio / sqrt_alt (ff::Field): for num/div a non-residue the returned element is
  // a square root of ROOT_OF_UNITY * num/div; div = 0 (num != 0) gives (false, 0); num = 0 gives (true, 0)
  {
    let rou = fp_to_big(&Fp::ROOT_OF_UNITY);
    let half = (rm::p() - BigUint::one()) >> 1;
    let residue = |x: &BigUint| x.is_zero() || rm::powm(x, &half).is_one();
    for dv in [BigUint::one(), BigUint::from(3u32), BigUint::from(12451u32), rm::p() - BigUint::one(), BigUint::zero()] {
      let rd = real(&dv);
      cx.eval();
      let (flag, r) = match guard(|| Fp::sqrt_ratio(ra, &rd)) {
        Ok(x) => x,
        Err(p) => {
          cx.viol("C07/panic/sqrt_ratio", format!("sqrt_ratio({},{}) panicked: {}", a, dv, p.chars().take(200).collect::<String>()), d());
          return;
        }
      };
      let rb = fp_to_big(&r);
      let sq = rm::mulm(&rb, &rb);
      let dd = || json!({"num": a.to_string(), "div": dv.to_string(), "returned_flag": bool::from(flag), "returned_element": rb.to_string()});
      if a.is_zero() {
        if !bool::from(flag) || !rb.is_zero() {
          cx.viol("C07/unary/sqrt_ratio-contract", format!("sqrt_ratio(0,{}) must be (true, 0)", dv), dd());
        }
      } else if dv.is_zero() {
        if bool::from(flag) || !rb.is_zero() {
          cx.viol("C07/unary/sqrt_ratio-contract", format!("sqrt_ratio({},0) must be (false, 0)", a), dd());
        }
      } else {
        let ratio = rm::mulm(a, &rm::invm(&dv).unwrap());
        if residue(&ratio) {
          if !bool::from(flag) || sq != ratio {
            cx.viol("C07/unary/sqrt_ratio-contract", format!("sqrt_ratio({},{}): the ratio is a square, so the result must be (true, a root of it)", a, dv), dd());
          }
        } else if bool::from(flag) || sq != rm::mulm(&rou, &ratio) {
          cx.viol("C07/unary/sqrt_ratio-contract", format!("sqrt_ratio({},{}): the ratio is a non-residue, so the result must be (false, a square root of ROOT_OF_UNITY * ratio); the returned element squares to {}", a, dv, sq), dd());
        }
      }
    }
    // sqrt_alt(x) = sqrt_ratio(x, 1)
    cx.eval();
    if let Ok((flag, r)) = guard(|| ra.sqrt_alt()) {
      let rb = fp_to_big(&r);
      let sq = rm::mulm(&rb, &rb);
      let want = if residue(a) { a.clone() } else { rm::mulm(&rou, a) };
      if bool::from(flag) != residue(a) || sq != want {
        cx.viol("C07/unary/sqrt_alt-contract", format!("sqrt_alt({}) = ({}, {}) does not satisfy the contract (square root of x, or of ROOT_OF_UNITY * x for a non-residue)", a, bool::from(flag), rb), d());
      }
    }
  }
  for e in exps() {
    let l = limbs(&e);
    cmp(cx, "pow(a,e)", "unary/pow", &ra.pow(l), &rm::powm(a, &e), || json!({"a": a.to_string(), "e": e.to_string()}));
    cmp(cx, "pow_vartime(a,e)", "unary/pow_vartime", &ra.pow_vartime(l), &rm::powm(a, &e), || json!({"a": a.to_string(), "e": e.to_string()}));
  }
  // exponents given as slices LONGER than the field's three limbs (pow / pow_vartime accept any length)
  for (name, l) in [("2^127 + 2^64", vec![0u64, 0x8000_0000_0000_0001]), ("limbs with top and bottom bits set", vec![0x8000_0000_0000_0001u64, 0x8000_0000_0000_0001, 1]), ("2^64 + 2^63 + 3", vec![0x8000_0000_0000_0003u64, 1]), ("all ones, two limbs", vec![u64::MAX, u64::MAX]), ("0xF0..0F pattern", vec![0xF0F0_F0F0_F0F0_F0F0u64, 0x0F0F_0F0F_0F0F_0F0F, 1]), ("2^192", vec![0u64, 0, 0, 1]), ("2^192 + 5", vec![5u64, 0, 0, 1]), ("2^256 + 2^64", vec![0u64, 1, 0, 0, 1]), ("3 with two zero limbs on top", vec![3u64, 0, 0, 0, 0]), ("2^320 - 1", vec![u64::MAX; 5]), ("a single limb 7", vec![7u64]), ("empty", vec![])] {
    let mut e = BigUint::zero();
    for (i, w) in l.iter().enumerate() {
      e += BigUint::from(*w) << (64 * i);
    }
    let want = rm::powm(a, &e);
    cmp(cx, "pow(a, long exponent)", "unary/pow-long-exponent", &ra.pow(&l), &want, || json!({"a": a.to_string(), "exponent": name}));
    cmp(cx, "pow_vartime(a, long exponent)", "unary/pow_vartime-long-exponent", &ra.pow_vartime(&l), &want, || json!({"a": a.to_string(), "exponent": name}));
  }
  // predicates and conversions
  cx.eval();
  if bool::from(ra.is_zero()) != a.is_zero() || ra.is_zero_vartime() != a.is_zero() {
    cx.viol("C07/unary/is_zero", format!("is_zero({}) wrong", a), d());
  }
  if bool::from(ra.is_odd()) != (a % 2u32 == BigUint::one()) || bool::from(ra.is_even()) == (a % 2u32 == BigUint::one()) {
    cx.viol("C07/unary/is_odd", format!("is_odd/is_even({}) wrong", a), d());
  }
  let s = a.to_string();
  match Fp::from_str_vartime(&s) {
    Some(g) => cmp(cx, "from_str_vartime(decimal a)", "conv/from_str", &g, a, d),
    None => cx.viol("C07/conv/from_str", format!("from_str_vartime({}) = None", s), d()),
  }
  if a.bits() <= 128 {
    let lo = u128::from_le_bytes(rm::le24(a)[..16].try_into().unwrap());
    cmp(cx, "from_u128(a)", "conv/from_u128", &Fp::from_u128(lo), a, d);
  }
  if a.bits() <= 64 {
    let lo = u64::from_le_bytes(rm::le24(a)[..8].try_into().unwrap());
    cmp(cx, "from(u64 a)", "conv/from_u64", &Fp::from(lo), a, d);
  }
  let bytes: Vec<u8> = Vec::<u8>::from(*ra);
  cx.eval();
  if bytes != rm::le24(a).to_vec() {
    cx.viol("C07/encoding/vec-u8", format!("Vec<u8>::from({}) is not the 24-byte LE integer", a), d());
  }
  let _ = p;
}

fn run_unary(cx: &mut CaseCx, case: &Value) {
  let lat = lattice();
  let i = case["idx"].as_u64().unwrap() as usize;
  let a = &lat[i];
  let ra = real(a);
  unary_checks(cx, a, &ra);
  cx.nontrivial(fnv_str(&a.to_string()));
  if i == 1 {
    cx.sample(json!({"a": a.to_string(), "invert": Option::<Fp>::from(ra.invert()).map(|r| fp_to_big(&r).to_string())}));
  }
}

// ---- closure: BFS over values reachable from seeds by real operations, model tracked in lockstep
fn closure_seeds(tier: Tier) -> Vec<BigUint> {
  let p = rm::p();
  let one = BigUint::one();
  let mut s = vec![
    BigUint::from(2u32),
    &p - &one,
    (&one << 64) - &one,
    &one << 64,
    (&one << 128) - &one,
    &one << 128,
    BigUint::from(3u32),
    rm::q(),
    &rm::q() + &one,
    &p - BigUint::from(2u32),
    (&one << 127) + BigUint::from(12345u32),
    BigUint::parse_bytes(b"fedcba98765432100123456789abcdef", 16).unwrap(),
  ];
  let _ = tier;
  if true {
    s.extend(vec![
      (&one << 96) - &one,
      (&one << 65) + &one,
      BigUint::from(12451u32),
      (&one << 128) - BigUint::from(12451u32),
      (&one << 192) % &p,
      BigUint::parse_bytes(b"aaaaaaaaaaaaaaaaaaaaaaaaaaaaaaaa", 16).unwrap(),
      BigUint::parse_bytes(b"1ffffffffffffffffffffffffffffffff", 16).unwrap() % &p,
      BigUint::parse_bytes(b"ffffffffffffffff0000000000000001", 16).unwrap(),
    ]);
  }
  s
}
fn level1(seeds: &[(Fp, BigUint)]) -> Vec<(Fp, BigUint)> {
  let mut out: BTreeMap<BigUint, Fp> = BTreeMap::new();
  for (ra, a) in seeds {
    out.insert(a.clone(), *ra);
    out.insert(rm::negm(a), -*ra);
    out.insert(rm::addm(a, a), ra.double());
    out.insert(rm::mulm(a, a), ra.square());
    if let (Some(w), Some(r)) = (rm::invm(a), Option::<Fp>::from(ra.invert())) {
      out.insert(w, r);
    }
    for (rb, b) in seeds {
      out.insert(rm::addm(a, b), *ra + *rb);
      out.insert(rm::subm(a, b), *ra - *rb);
      out.insert(rm::mulm(a, b), *ra * *rb);
    }
  }
  out.into_iter().map(|(k, v)| (v, k)).collect()
}
fn run_closure(cx: &mut CaseCx, case: &Value) {
  let seeds: Vec<(Fp, BigUint)> = closure_seeds(cx.tier).into_iter().map(|a| (real(&a), a)).collect();
  let l1 = level1(&seeds);
  // every level-1 state: the real element (reached through real ops) must equal the model value
  let row = case["row"].as_u64().unwrap() as usize;
  if row >= l1.len() {
    return;
  }
  let (ra, a) = &l1[row];
  cmp(cx, "level-1 state", "closure/level1", ra, a, || json!({"a": a.to_string()}));
  cx.count("states", 1);
  // depth 2: all ops from this state against every level-1 state
  let d = |b: &BigUint| json!({"a": a.to_string(), "b": b.to_string(), "note": "a,b are depth-1 states reached by real ops"});
  for (rb, b) in l1.iter() {
    cmp(cx, "a+b (depth 2)", "closure/add", &(*ra + *rb), &rm::addm(a, b), || d(b));
    cmp(cx, "a-b (depth 2)", "closure/sub", &(*ra - *rb), &rm::subm(a, b), || d(b));
    cmp(cx, "a*b (depth 2)", "closure/mul", &(*ra * *rb), &rm::mulm(a, b), || d(b));
    cx.count("transitions", 3);
    cx.count("states", 3);
  }
  cmp(cx, "-a (depth 2)", "closure/neg", &(-*ra), &rm::negm(a), || d(a));
  cmp(cx, "square (depth 2)", "closure/square", &ra.square(), &rm::mulm(a, a), || d(a));
  match (rm::invm(a), Option::<Fp>::from(ra.invert())) {
    (Some(w), Some(r)) => cmp(cx, "invert (depth 2)", "closure/invert", &r, &w, || d(a)),
    (None, None) => {}
    (w, r) => cx.viol("C07/closure/invert-domain", format!("invert of the depth-1 state {} defined={} but model defined={}", a, r.is_some(), w.is_some()), d(a)),
  }
  cx.eval();
  if ra.is_zero_vartime() != a.is_zero() || bool::from(ra.is_zero()) != a.is_zero() {
    cx.viol("C07/closure/is_zero", format!("is_zero of the depth-1 state {} wrong", a), d(a));
  }
  cmp(cx, "0 - a (depth 2)", "closure/zero-minus", &(Fp::ZERO - *ra), &rm::negm(a), || d(a));
  cmp(cx, "double (depth 2)", "closure/double", &ra.double(), &rm::addm(a, a), || d(a));
  cx.nontrivial(fnv_str(&a.to_string()));
}

// ---- decoding: every canonical lattice encoding with every byte set to every value
fn run_decode_grid(cx: &mut CaseCx, case: &Value) {
  let lat = lattice();
  let i = case["idx"].as_u64().unwrap() as usize;
  let base = rm::le24(&lat[i]);
  let p = rm::p();
  for pos in 0..24 {
    for val in 0..=255u8 {
      let mut b = base;
      b[pos] = val;
      let n = rm::from_le(&b);
      let got: Option<Fp> = Option::from(Fp::from_repr(FpRepr(b)));
      cx.eval();
      match (got, n < p) {
        (Some(g), true) => {
          if fp_to_big(&g) != n || g.to_repr().as_ref() != &b[..] {
            cx.viol("C07/decode/value", format!("from_repr accepted {} but yields {}", hex(&b), fp_to_big(&g)), json!({"bytes": hex(&b)}));
          }
          cx.count("decode_accepted", 1);
        }
        (None, false) => cx.count("decode_rejected", 1),
        (Some(_), false) => cx.viol("C07/decode/accepts-non-canonical", format!("from_repr accepted the encoding of {} >= p", n), json!({"bytes": hex(&b)})),
        (None, true) => cx.viol("C07/decode/rejects-canonical", format!("from_repr rejected the canonical encoding of {}", n), json!({"bytes": hex(&b)})),
      }
      let via_try = star_sharks::Share::try_from(&b[..]);
      cx.eval();
      if via_try.is_ok() != (n < p) {
        cx.viol("C07/decode/share-try_from", format!("Share::try_from x={} accepted={} but canonical={}", n, via_try.is_ok(), n < p), json!({"bytes": hex(&b)}));
      }
    }
  }
  cx.nontrivial(fnv(&base));
}
fn run_decode_boundary(cx: &mut CaseCx, _case: &Value) {
  let p = rm::p();
  let one = BigUint::one();
  let mut vals: Vec<BigUint> = vec![];
  for d in 0u32..=3 {
    vals.push(&p + BigUint::from(d));
    vals.push(&p - BigUint::from(d));
  }
  vals.extend(vec![(&one << 129) - &one, &one << 129, &one << 191, (&one << 192) - &one, &p * 2u32, &p * 2u32 + &one, (&one << 130) + &p]);
  for n in vals {
    let b = rm::le24(&n);
    let got: Option<Fp> = Option::from(Fp::from_repr(FpRepr(b)));
    cx.eval();
    cx.nontrivial(fnv(&b));
    if got.is_some() != (n < p) {
      cx.viol(
        if got.is_some() { "C07/decode/accepts-non-canonical" } else { "C07/decode/rejects-canonical" },
        format!("from_repr({}) accepted={} but integer<p is {}", n, got.is_some(), n < p),
        json!({"bytes": hex(&b)}),
      );
    }
    if let Some(g) = got {
      if fp_to_big(&g) != n {
        cx.viol("C07/decode/value", format!("from_repr({}) = {}", n, fp_to_big(&g)), json!({"bytes": hex(&b)}));
      }
    }
    cx.outcome(format!("decode>=p:{}", n >= p));
  }
  cx.sample(json!({"bytes": hex(&rm::le24(&p)), "accepted": false}));
}

fn run_constants(cx: &mut CaseCx, _case: &Value) {
  let p = rm::p();
  let q = rm::q();
  let one = BigUint::one();
  let chk = |cx: &mut CaseCx, name: &str, ok: bool, msg: String| {
    cx.eval();
    cx.nontrivial(fnv_str(name));
    cx.outcome(format!("{}:{}", name, ok));
    if !ok {
      cx.viol(format!("C07/const/{}", name), msg, json!({"constant": name}));
    }
  };
  // model self-check: p prime, p-1 = 2q with q prime => element orders decided by two exponentiations
  chk(cx, "model-p-prime", rm::is_probable_prime(&p), "reference modulus is not prime".into());
  chk(cx, "model-q-prime", rm::is_probable_prime(&q) && &q * 2u32 + &one == p, "p-1 != 2q with q prime".into());
  let modulus_str = Fp::MODULUS.trim_start_matches("0x");
  chk(cx, "MODULUS", BigUint::parse_bytes(modulus_str.as_bytes(), 16) == Some(p.clone()), format!("MODULUS = {}", Fp::MODULUS));
  chk(cx, "NUM_BITS", Fp::NUM_BITS as u64 == p.bits() as u64 && Fp::NUM_BITS == 129, format!("NUM_BITS = {}", Fp::NUM_BITS));
  chk(cx, "CAPACITY", Fp::CAPACITY == 128, format!("CAPACITY = {}", Fp::CAPACITY));
  chk(cx, "ZERO", fp_to_big(&Fp::ZERO).is_zero(), "ZERO".into());
  chk(cx, "ONE", fp_to_big(&Fp::ONE) == one, "ONE".into());
  chk(cx, "TWO_INV", rm::mulm(&fp_to_big(&Fp::TWO_INV), &BigUint::from(2u32)) == one, format!("TWO_INV = {}", fp_to_big(&Fp::TWO_INV)));
  // S = 2-adic valuation of p-1 = 1
  let mut s = 0u32;
  let mut t = &p - &one;
  while (&t % 2u32).is_zero() {
    t >>= 1;
    s += 1;
  }
  chk(cx, "S", Fp::S == s, format!("S = {} but v2(p-1) = {}", Fp::S, s));
  let g = fp_to_big(&Fp::MULTIPLICATIVE_GENERATOR);
  // order p-1 = 2q: g^2 != 1 and g^q != 1 (then order is 2q since it divides 2q and is neither 1, 2 nor q)
  let order_full = !g.is_zero() && rm::powm(&g, &BigUint::from(2u32)) != one && rm::powm(&g, &q) != one;
  chk(cx, "MULTIPLICATIVE_GENERATOR", order_full, format!("MULTIPLICATIVE_GENERATOR = {} has order < p-1 (g^q = {}): it is a quadratic residue, not a generator", g, rm::powm(&g, &q)));
  let rou = fp_to_big(&Fp::ROOT_OF_UNITY);
  // primitive 2^S-th root of unity: rou^(2^S) = 1 and rou^(2^(S-1)) != 1
  let two_s = BigUint::one() << s;
  let prim = rm::powm(&rou, &two_s) == one && rm::powm(&rou, &(&two_s >> 1)) != one;
  chk(cx, "ROOT_OF_UNITY", prim, format!("ROOT_OF_UNITY = {} is not a primitive 2^{}-th root of unity", rou, s));
  chk(cx, "ROOT_OF_UNITY=g^t", rou == rm::powm(&g, &t), format!("ROOT_OF_UNITY = {} != g^t = {}", rou, rm::powm(&g, &t)));
  let roui = fp_to_big(&Fp::ROOT_OF_UNITY_INV);
  chk(cx, "ROOT_OF_UNITY_INV", rm::mulm(&rou, &roui) == one && prim, format!("ROOT_OF_UNITY_INV = {} (times ROOT_OF_UNITY = {})", roui, rm::mulm(&rou, &roui)));
  let delta = fp_to_big(&Fp::DELTA);
  chk(cx, "DELTA", delta == rm::powm(&g, &two_s) && rm::powm(&delta, &t) == one && delta != one, format!("DELTA = {} but g^(2^S) = {}", delta, rm::powm(&g, &two_s)));
  cx.sample(json!({"MULTIPLICATIVE_GENERATOR": g.to_string(), "ROOT_OF_UNITY": rou.to_string(), "DELTA": delta.to_string(), "S": Fp::S}));
}

// ---- supplementary, labelled sampled: seeded uniform operand pairs (never the deciding step)
fn run_sampled(cx: &mut CaseCx, case: &Value) {
  let chunk = case["chunk"].as_u64().unwrap();
  let mut st = cx.seed ^ chunk.wrapping_mul(0x9E3779B97F4A7C15) ^ 0xC07;
  let mut next = || {
    st = st.wrapping_add(0x9E3779B97F4A7C15);
    let mut z = st;
    z = (z ^ (z >> 30)).wrapping_mul(0xBF58476D1CE4E5B9);
    z = (z ^ (z >> 27)).wrapping_mul(0x94D049BB133111EB);
    z ^ (z >> 31)
  };
  let p = rm::p();
  for _ in 0..2000 {
    let mk = |next: &mut dyn FnMut() -> u64| {
      let n = (BigUint::from(next() & 1) << 128) + (BigUint::from(next()) << 64) + BigUint::from(next());
      n % &p
    };
    let a = mk(&mut next);
    let b = mk(&mut next);
    let (ra, rb) = (real(&a), real(&b));
    let d = || json!({"a": a.to_string(), "b": b.to_string(), "sampled": true});
    cmp(cx, "a+b", "binop/add", &(ra + rb), &rm::addm(&a, &b), d);
    cmp(cx, "a-b", "binop/sub", &(ra - rb), &rm::subm(&a, &b), d);
    cmp(cx, "a*b", "binop/mul", &(ra * rb), &rm::mulm(&a, &b), d);
    if let (Some(w), Some(r)) = (rm::invm(&a), Option::<Fp>::from(ra.invert())) {
      cmp(cx, "invert(a)", "unary/invert", &r, &w, d);
    }
    cx.count("sampled_pairs", 1);
  }
}

pub fn spec() -> PropSpec {
  PropSpec {
    id: "C07",
    level: "exploration",
    assumptions: vec![
      "2^258 operand pairs are not enumerable: decided on the boundary lattice (its full cross product), its depth-2 closure under the real operations and the single-byte decode grid; seeded uniform pairs are supplementary (labelled sampled) and never decide",
      "reference arithmetic is num-bigint (independent of the ff_derive limb code under test); p and (p-1)/2 are certified prime by Miller-Rabin at run time",
    ],
    thorough_budget_s: 900,
    checks: vec![
      Check {
        name: "constants",
        rule: "every published PrimeField constant against its contract meaning, computed with big integers; distinct = constants",
        gen: |_| vec![json!({})],
        run: run_constants,
        min_counts: &[("evaluations", 12)],
      },
      Check {
        name: "lattice-binops",
        rule: "all ordered pairs of the boundary lattice (values within 6 of 0, 2^32, 2^63..2^65, 2^96, 2^127, 2^128, (p-1)/2, p, Montgomery constants, limb patterns, and the values whose MONTGOMERY form is within 3 of 0, 2^64, 2^128, p, 2^127 (+2^63, +2^64), p/2 (+2^63), 2^128+2^64, 2^128+2^65) x {+,-,*, assign forms, ==}; distinct = ordered pairs",
        gen: |_| (0..lattice().len()).map(|i| json!({"row": i})).collect(),
        run: run_binops,
        min_counts: &[("evaluations", 50_000)],
      },
      Check {
        name: "lattice-unary",
        rule: "every lattice element x {neg,double,square,cube,invert,sqrt,sqrt_ratio over 5 divisors incl. 0 and sqrt_alt with the full ff contract (non-residue ratio: a root of ROOT_OF_UNITY*ratio),pow/pow_vartime by 10 exponents,is_zero,is_odd,from_str,from_u128,from_u64,Vec<u8>}; distinct = elements",
        gen: |_| (0..lattice().len()).map(|i| json!({"idx": i})).collect(),
        run: run_unary,
        min_counts: &[("evaluations", 2_000)],
      },
      Check {
        name: "closure-depth2",
        rule: "BFS over field values reachable from the seed set by all unary/binary real operations to depth 2; every state is a real Fp produced by real ops and compared with the model value; distinct = depth-1 states",
        gen: |_| (0..1600).map(|i| json!({"row": i})).collect(),
        run: run_closure,
        min_counts: &[("evaluations", 10_000)],
      },
      Check {
        name: "decode-grid",
        rule: "every canonical lattice encoding with every one of 24 byte positions set to each of 256 values: from_repr / Share::try_from accept iff integer < p, value and re-encoding exact; distinct = base encodings",
        gen: |t| {
          let n = lattice().len();
          (0..n).filter(|_| true || t.thorough()).map(|i| json!({"idx": i})).collect()
        },
        run: run_decode_grid,
        min_counts: &[("decode_accepted", 1000), ("decode_rejected", 1000)],
      },
      Check {
        name: "decode-boundary",
        rule: "encodings of p-3..p+3, 2^129-1, 2^129, 2^191, 2^192-1, 2p, 2p+1; distinct = encodings",
        gen: |_| vec![json!({})],
        run: run_decode_boundary,
        min_counts: &[("evaluations", 10)],
      },
      Check {
        name: "sampled-uniform (supplementary)",
        rule: "SUPPLEMENTARY, SAMPLED: seeded uniform operand pairs; can only add violations",
        gen: |t| (0..if t.thorough() { 500 } else { 0 }).map(|i| json!({"chunk": i})).collect(),
        run: run_sampled,
        min_counts: &[],
      },
    ],
  }
}
