//! C09 — data from other parties never crashes the receiver.
use super::c08::{all_bases, decoders};
use crate::mc::*;
use crate::refmodel as rm;
use crate::sut::*;
use crate::wire::*;
use base64::{engine::Engine as _, prelude::BASE64_STANDARD};
use curve25519_dalek::constants::RISTRETTO_BASEPOINT_POINT;
use curve25519_dalek::ristretto::{CompressedRistretto, RistrettoPoint};
use curve25519_dalek::traits::Identity;
use ppoprf::ppoprf as pp;
use serde_json::{json, Value};
use std::convert::TryFrom;

/// feed one byte string to every decoder and pass whatever decodes on to the consumers
fn consume(cx: &mut CaseCx, desc: &str, input: &[u8], honest: &[adss::Share]) {
  for d in decoders() {
    cx.eval();
    if let Err(p) = guard(|| (d.real)(input)) {
      cx.viol(format!("C09/panic/{}", d.name), format!("{} panicked: {}", d.name, p), json!({"entry": d.name, "input": hex(input), "how": desc}));
    }
  }
  // decoded-but-degenerate values go on to the recovery functions
  if let Ok(Some(s)) = guard(|| adss::Share::from_bytes(input)) {
    cx.count("decoded_adss_shares", 1);
    let mut colls: Vec<Vec<adss::Share>> = vec![vec![s.clone()], vec![s.clone(), s.clone()]];
    if let Some(h) = honest.first() {
      colls.push(vec![s.clone(), h.clone()]);
      colls.push(vec![h.clone(), s.clone()]);
      let mut all = honest.to_vec();
      all.insert(1.min(all.len()), s.clone());
      colls.push(all);
    }
    for c in colls {
      cx.eval();
      if let Err(p) = guard(|| adss::recover(&c).map(|x| x.get_message())) {
        cx.viol("C09/panic/adss::recover", format!("adss::recover panicked: {}", p), json!({"entry": "adss::recover", "first_share": hex(&c[0].to_bytes()), "n": c.len(), "how": desc}));
      }
      let sc: Vec<sta_rs::Share> = c.iter().filter_map(|x| sta_rs::Share::from_bytes(&x.to_bytes())).collect();
      cx.eval();
      if let Err(p) = guard(|| sta_rs::share_recover(&sc).map(|x| x.get_message())) {
        cx.viol("C09/panic/sta_rs::share_recover", format!("share_recover panicked: {}", p), json!({"entry": "share_recover", "how": desc, "first_share": hex(&c[0].to_bytes())}));
      }
    }
    // the WASM grouping call on the same bytes
    let line = BASE64_STANDARD.encode(input);
    for joined in [line.clone(), format!("{}\n{}", line, line)] {
      cx.eval();
      if let Err(p) = guard(|| star_wasm::group_shares(&joined, "t")) {
        cx.viol("C09/panic/star_wasm::group_shares", format!("group_shares panicked: {}", p), json!({"entry": "group_shares", "how": desc, "input": hexs(joined.as_bytes())}));
      }
    }
  }
  if let Ok(Ok(s)) = guard(|| star_sharks::Share::try_from(input)) {
    cx.count("decoded_shamir_shares", 1);
    for t in [0u32, 1, 2, u32::MAX] {
      for c in [vec![s.clone()], vec![s.clone(), s.clone()], vec![]] {
        cx.eval();
        if let Err(p) = guard(|| star_sharks::Sharks(t).recover(&c).map_err(|e| e.to_string())) {
          cx.viol("C09/panic/Sharks::recover", format!("Sharks({}).recover panicked: {}", t, p), json!({"entry": "Sharks::recover", "share": hex(input), "n": c.len()}));
        }
      }
    }
  }
}

fn honest_shares() -> Vec<adss::Share> {
  getrandom::verif::reset(0xC09);
  (0..3).map(|_| super::c05::adss_share(2, &prbytes(1, 32), &prbytes(2, 32)).unwrap()).collect()
}

fn run_wire(cx: &mut CaseCx, case: &Value) {
  let bases = all_bases();
  let (name, base, fields) = &bases[case["base"].as_u64().unwrap() as usize];
  let honest = honest_shares();
  let part = case["part"].as_u64().unwrap() as usize;
  let parts = case["parts"].as_u64().unwrap() as usize;
  let muts = mutations(base, fields);
  for (i, (desc, input)) in muts.iter().enumerate() {
    if i % parts == part {
      cx.nontrivial(fnv(input));
      consume(cx, &format!("{}: {}", name, desc), input, &honest);
    }
  }
  cx.outcome(format!("{}", name));
  if part == 0 {
    cx.sample(json!({"base": name, "mutations": muts.len()}));
  }
}
fn run_short(cx: &mut CaseCx, case: &Value) {
  let honest = honest_shares();
  let part = case["part"].as_u64().unwrap() as usize;
  let parts = case["parts"].as_u64().unwrap() as usize;
  short_strings(&[0x00, 0x01, 0x04, 0x18, 0x40, 0xfc, 0xff], case["maxlen"].as_u64().unwrap() as usize, part, parts, |b| {
    cx.nontrivial(fnv(b));
    consume(cx, "short string", b, &honest);
  });
}

/// decoded-but-degenerate share values handed to the recovery functions
fn run_degenerate(cx: &mut CaseCx, _case: &Value) {
  let e = |s: &str| rm::le24(&s.parse().unwrap()).to_vec();
  let mk = |t: u32, s: Vec<u8>, c: &[u8], d: &[u8]| {
    let mut b = t.to_le_bytes().to_vec();
    rm::put_chunk(&mut b, &s);
    rm::put_chunk(&mut b, c);
    rm::put_chunk(&mut b, d);
    b.extend_from_slice(&[7u8; 64]);
    b
  };
  let shamirs: Vec<(&str, Vec<u8>)> = vec![
    ("no y", e("1")),
    ("no y, other x", e("2")),
    ("one y", [e("1"), e("5")].concat()),
    ("one y, other x", [e("2"), e("9")].concat()),
    ("two y", [e("3"), e("5"), e("6")].concat()),
    ("x = 0", [e("0"), e("5")].concat()),
    ("x = p-1", [e("340282366920938463463374607431768223906"), e("5")].concat()),
    // y just above 2^128 (129-bit elements): the interpolated secret has a non-zero 17th byte
    ("y = 2^128", [e("1"), e("340282366920938463463374607431768211456")].concat()),
    ("y = 2^128, other x", [e("2"), e("340282366920938463463374607431768211456")].concat()),
    ("y = 2^128+5", [e("3"), e("340282366920938463463374607431768211461")].concat()),
    ("y = p-1", [e("4"), e("340282366920938463463374607431768223906")].concat()),
    ("y = p-1, other x", [e("5"), e("340282366920938463463374607431768223906")].concat()),
  ];
  let thresholds = [0u32, 1, 2, 3, u32::MAX];
  let mut shares: Vec<(String, adss::Share)> = vec![];
  for (n, s) in &shamirs {
    for &t in &thresholds {
      for (c, d) in [(&b""[..], &b""[..]), (&[1u8; 32][..], &[2u8; 32][..])] {
        if let Some(sh) = adss::Share::from_bytes(&mk(t, s.clone(), c, d)) {
          shares.push((format!("{} t={} |C|={}", n, t, c.len()), sh));
        }
      }
    }
  }
  cx.count("degenerate_shares", shares.len() as u64);
  let n = shares.len();
  // every single share, every ordered pair, and the empty list
  cx.eval();
  if let Err(p) = guard(|| adss::recover(&Vec::<adss::Share>::new()).map(|c| c.get_message())) {
    cx.viol("C09/panic/adss::recover", format!("adss::recover(&[]) panicked: {}", p), json!({"entry": "adss::recover", "collection": []}));
  }
  cx.eval();
  if let Err(p) = guard(|| sta_rs::share_recover(&[]).map(|c| c.get_message())) {
    cx.viol("C09/panic/sta_rs::share_recover", format!("share_recover(&[]) panicked: {}", p), json!({"entry": "share_recover"}));
  }
  for i in 0..n {
    for j in 0..=n {
      let mut c = vec![shares[i].1.clone()];
      let mut names = vec![shares[i].0.clone()];
      if j < n {
        c.push(shares[j].1.clone());
        names.push(shares[j].0.clone());
      }
      cx.eval();
      cx.nontrivial(fnv_str(&format!("{}|{}", i, j)));
      match guard(|| adss::recover(&c).map(|x| x.get_message()).map_err(|e| e.to_string())) {
        Err(p) => cx.viol("C09/panic/adss::recover", format!("adss::recover panicked on degenerate shares: {}", p), json!({"entry": "adss::recover", "collection": names, "first_share": hex(&c[0].to_bytes())})),
        Ok(Ok(_)) => cx.count("degenerate_recovered", 1),
        Ok(Err(_)) => cx.count("degenerate_rejected", 1),
      }
      let sc: Vec<sta_rs::Share> = c.iter().filter_map(|x| sta_rs::Share::from_bytes(&x.to_bytes())).collect();
      cx.eval();
      if let Err(p) = guard(|| sta_rs::share_recover(&sc).map(|x| x.get_message())) {
        cx.viol("C09/panic/sta_rs::share_recover", format!("share_recover panicked on degenerate shares: {}", p), json!({"entry": "share_recover", "collection": names}));
      }
      let joined = c.iter().map(|x| BASE64_STANDARD.encode(x.to_bytes())).collect::<Vec<_>>().join("\n");
      cx.eval();
      if let Err(p) = guard(|| star_wasm::group_shares(&joined, "e")) {
        cx.viol("C09/panic/star_wasm::group_shares", format!("group_shares panicked on degenerate shares: {}", p), json!({"entry": "group_shares", "collection": names}));
      }
      // Shamir level
      let ss: Vec<star_sharks::Share> = c.iter().filter_map(|x| rm::parse_adss(&x.to_bytes())).filter_map(|p| star_sharks::Share::try_from(&rm::print_shamir(&p.s)[..]).ok()).collect();
      for t in [0u32, 1, 2, u32::MAX] {
        cx.eval();
        if let Err(p) = guard(|| star_sharks::Sharks(t).recover(&ss).map_err(|e| e.to_string())) {
          cx.viol("C09/panic/Sharks::recover", format!("Sharks({}).recover panicked: {}", t, p), json!({"entry": "Sharks::recover", "collection": names}));
        }
      }
    }
  }
  cx.outcome("degenerate values");
  cx.sample(json!({"degenerate_shares": n, "example": shares.get(0).map(|s| s.0.clone())}));
}

/// the WASM grouping call: every line count 0..3 over a line alphabet, several epochs
fn run_group_shares(cx: &mut CaseCx, _case: &Value) {
  getrandom::verif::reset(0x6A5);
  let m = b"measurement".to_vec();
  let rnd = local_randomness(&m, b"t", 2);
  let s1 = gen_report(&m, b"t", 2, &rnd, &None).unwrap().share.to_bytes();
  let s2 = gen_report(&m, b"t", 2, &rnd, &None).unwrap().share.to_bytes();
  // shares of the same measurement created under OTHER thresholds, and of another measurement
  let s3 = gen_report(&m, b"t", 3, &local_randomness(&m, b"t", 3), &None).unwrap().share.to_bytes();
  let s4 = gen_report(&m, b"t", 1, &local_randomness(&m, b"t", 1), &None).unwrap().share.to_bytes();
  let s5 = gen_report(b"other", b"t", 2, &local_randomness(b"other", b"t", 2), &None).unwrap().share.to_bytes();
  let mut lines: Vec<String> = vec![BASE64_STANDARD.encode(&s1), BASE64_STANDARD.encode(&s2), BASE64_STANDARD.encode(&s3), BASE64_STANDARD.encode(&s4), BASE64_STANDARD.encode(&s5), "".into(), "!".into(), "AAAA".into(), "A".into(), "AA==".into(), "AAA".into(), "====".into(), " ".into(), "\r".into(), "é".into(), BASE64_STANDARD.encode(&s1).trim_end_matches('=').to_string(), format!("{}=", BASE64_STANDARD.encode(&s1)), BASE64_STANDARD.encode(&s1).replace('+', "-").replace('/', "_")];
  for n in 0..s1.len() {
    lines.push(BASE64_STANDARD.encode(&s1[..n]));
  }
  // a multi-byte character (2, 3 and 4 bytes in UTF-8) at EVERY offset 0..=12 of an otherwise base64-looking line,
  // and inside a valid share line
  let mut mb: Vec<String> = vec![];
  for ch in ["é", "€", "😀"] {
    for k in 0..=12usize {
      mb.push(format!("{}{}{}", "A".repeat(k), ch, "AAAA"));
    }
    let b = BASE64_STANDARD.encode(&s1);
    mb.push(format!("{}{}{}", &b[..8], ch, &b[8..]));
  }
  let epochs = ["", "t", "é", "a\nb"];
  let call = |cx: &mut CaseCx, joined: &str, ep: &str| {
    cx.eval();
    cx.nontrivial(fnv_str(&format!("{}|{}", joined, ep)));
    match guard(|| star_wasm::group_shares(joined, ep)) {
      Err(p) => cx.viol("C09/panic/star_wasm::group_shares", format!("group_shares panicked: {}", p), json!({"entry": "group_shares", "input": hexs(joined.as_bytes()), "epoch": ep})),
      Ok(Some(_)) => cx.count("grouped_some", 1),
      Ok(None) => cx.count("grouped_none", 1),
    }
  };
  let valid1 = BASE64_STANDARD.encode(&s1);
  for l in &mb {
    for ep in ["t", "é"] {
      call(cx, l, ep);
      call(cx, &format!("{}\n{}", l, valid1), ep);
      call(cx, &format!("{}\n{}", valid1, l), ep);
    }
  }
  for ep in epochs {
    call(cx, "", ep);
    call(cx, "\n", ep);
    for a in &lines {
      call(cx, a, ep);
      for b in lines.iter().take(18) {
        call(cx, &format!("{}\n{}", a, b), ep);
        call(cx, &format!("{}\n{}", b, a), ep);
        for c in lines.iter().take(8) {
          call(cx, &format!("{}\n{}\n{}", b, a, c), ep);
        }
      }
    }
  }
  cx.outcome("group_shares");
  cx.sample(json!({"lines": lines.len(), "example_lines": ["", "!", "AAAA", "<b64 of every prefix of a share>"]}));
}


/// "... panics or ABORTS": an abort (stack exhaustion, allocation failure) cannot be caught inside the process,
/// so large inputs are fed to the decoders in child processes, on an ordinary 2 MiB thread; a child that dies by a
/// signal is the violation, a child that reports a caught panic as well
fn run_big_inputs(cx: &mut CaseCx, _case: &Value) {
  let runs = match crate::probe::big_input_runs() {
    Ok(r) => r,
    Err(e) => {
      cx.count("probe_processes_unavailable", 1);
      cx.note(format!("probe processes could not be run ({}): big-input check skipped", e));
      return;
    }
  };
  for (kind, r) in runs {
    cx.eval();
    cx.nontrivial(fnv_str(&kind));
    match r {
      Ok(out) if out.starts_with("answered") => cx.count("big_inputs_survived", 1),
      Ok(out) => cx.viol("C09/panic/big-input", format!("a decoder panicked on the large input '{}' ({})", kind, out), json!({"input": kind})),
      Err(e) => cx.viol("C09/abort/big-input", format!("the process that fed the large input '{}' to a decoder did not exit normally: {} (an abort - stack exhaustion or allocation failure - takes the whole server down and cannot be reported through the function's failure result)", kind, e), json!({"input": kind, "termination": e})),
    }
  }
  cx.outcome("big inputs");
}

pub fn undecodable_points() -> Vec<[u8; 32]> {
  let mut v: Vec<[u8; 32]> = vec![[0xff; 32]];
  let mut neg = [0u8; 32];
  neg[0] = 1; // "negative" field element
  v.push(neg);
  let mut pfield = [0xffu8; 32];
  pfield[0] = 0xed;
  pfield[31] = 0x7f; // p itself: non-canonical
  v.push(pfield);
  let mut hi = RISTRETTO_BASEPOINT_POINT.compress().to_bytes();
  hi[31] |= 0x80;
  v.push(hi);
  // small even values that are not valid encodings (no square root)
  let mut k = 2u8;
  while v.len() < 8 && k < 250 {
    let mut b = [0u8; 32];
    b[0] = k;
    if CompressedRistretto(b).decompress().is_none() {
      v.push(b);
    }
    k += 2;
  }
  v.retain(|b| CompressedRistretto(*b).decompress().is_none());
  v
}

fn run_server_eval(cx: &mut CaseCx, _case: &Value) {
  cx.entropy(1);
  let mut server = pp::Server::new(vec![0, 1, 5]).expect("server");
  server.puncture(5).expect("puncture");
  let (valid, _r) = pp::Client::blind(b"input");
  let vb = *valid.as_bytes();
  let mut pts: Vec<(String, [u8; 32], bool)> = vec![("valid".into(), vb, true), ("identity".into(), RistrettoPoint::identity().compress().to_bytes(), true), ("basepoint".into(), RISTRETTO_BASEPOINT_POINT.compress().to_bytes(), true)];
  for (i, u) in undecodable_points().into_iter().enumerate() {
    pts.push((format!("undecodable#{}", i), u, false));
  }
  for off in 0..32 {
    for f in BYTE_FAULTS {
      let mut b = vb;
      b[off] = byte_fault(b[off], f);
      if b != vb {
        let ok = CompressedRistretto(b).decompress().is_some();
        pts.push((format!("valid point byte {} {}", off, f), b, ok));
      }
    }
  }
  for (name, bytes, decodable) in &pts {
    let p = pp::Point::from(&bytes[..]);
    for md in [0u8, 1, 5, 9, 255] {
      for verifiable in [false, true] {
        cx.eval();
        cx.nontrivial(fnv_str(&format!("{}|{}|{}", name, md, verifiable)));
        match guard(|| server.eval(&p, md, verifiable).map(|e| e.proof.is_some())) {
          Err(pn) => cx.viol("C09/panic/Server::eval", format!("Server::eval panicked: {}", pn), json!({"entry": "Server::eval", "point": hex(bytes), "which": name, "md": md, "verifiable": verifiable})),
          Ok(Ok(_)) => {
            cx.count("eval_ok", 1);
            if !decodable {
              cx.viol("C09/malformed-accepted/Server::eval", "Server::eval answered for an undecodable point", json!({"point": hex(bytes), "md": md}));
            }
          }
          Ok(Err(_)) => cx.count("eval_err", 1),
        }
      }
    }
  }
  cx.outcome("Server::eval");
  cx.sample(json!({"points": pts.len(), "undecodable": pts.iter().filter(|p| !p.2).count()}));
}


/// every short history of punctures, evaluations and state imports on a small server: no panic anywhere
fn run_server_histories(cx: &mut CaseCx, case: &Value) {
  cx.entropy(5);
  let tags = [0u8, 2, 128, 130, 255];
  let base = pp::Server::new(tags.to_vec()).expect("server");
  let other = {
    // a smaller key state of another lineage, to import
    // (it also publishes tag 77, which the importing server never had)
    let mut s = pp::Server::new(vec![0, 2, 77]).expect("server");
    let _ = s.puncture(0);
    bincode::serialize(&s.get_private_key()).expect("export")
  };
  let (pt, _) = pp::Client::blind(b"h");
  #[derive(Clone, Copy, Debug)]
  enum A {
    P(u8),
    E(u8),
    V(u8),
    Import,
    ImportSelf,
  }
  let mut alpha: Vec<A> = vec![];
  for &t in &tags {
    alpha.push(A::P(t));
    alpha.push(A::E(t));
  }
  alpha.push(A::V(2));
  alpha.push(A::V(128));
  // a tag that only the imported foreign state publishes
  alpha.push(A::V(77));
  alpha.push(A::Import);
  alpha.push(A::ImportSelf);
  let first = case["first"].as_u64().unwrap() as usize;
  let depth = case["depth"].as_u64().unwrap() as usize;
  let mut stop = false;
  for_each_seq(alpha.len(), depth - 1, |rest| {
    if stop {
      return;
    }
    let mut s = base.clone();
    let snapshot = bincode::serialize(&base.get_private_key()).expect("export");
    let seq: Vec<A> = std::iter::once(alpha[first]).chain(rest.iter().map(|&i| alpha[i])).collect();
    cx.eval();
    cx.nontrivial(fnv_str(&format!("{:?}", seq)));
    for (k, a) in seq.iter().enumerate() {
      let r = match a {
        A::P(t) => guard(|| s.puncture(*t).is_ok()),
        A::E(t) => guard(|| s.eval(&pt, *t, false).is_ok()),
        A::V(t) => guard(|| s.eval(&pt, *t, true).is_ok()),
        A::Import => guard(|| {
          let st: pp::ServerKeyState = bincode::deserialize(&other).expect("state");
          s.set_private_key(st);
          true
        }),
        A::ImportSelf => guard(|| {
          let st: pp::ServerKeyState = bincode::deserialize(&snapshot).expect("state");
          s.set_private_key(st);
          true
        }),
      };
      if let Err(p) = r {
        cx.viol("C09/panic/Server-history", format!("step {} of the history {:?} panicked: {}", k, seq, p.chars().take(160).collect::<String>()), json!({"entry": "Server::eval / puncture / set_private_key", "history": format!("{:?}", seq), "step": k}));
        stop = true;
        return;
      }
    }
    cx.count("histories", 1);
  });
  cx.outcome("server histories");
}

fn run_verify(cx: &mut CaseCx, _case: &Value) {
  cx.entropy(2);
  let server = pp::Server::new(vec![0, 1]).expect("server");
  let pk = server.get_public_key();
  let pkb = pk.serialize_to_bincode().expect("pk bincode");
  let (blinded, _r) = pp::Client::blind(b"input");
  let honest = server.eval(&blinded, 1, true).expect("eval");
  let proof_bytes = honest.proof.as_ref().unwrap().serialize_to_bincode().unwrap();
  let und = undecodable_points();
  // public keys: honest, and bincode-loaded variants with undecodable points / missing tag
  let mut pks: Vec<(String, pp::ServerPublicKey)> = vec![("honest".into(), pk.clone())];
  // layout: base_pk(32) | map len u64 | (u8 key, 32 bytes)*
  for (ui, u) in und.iter().enumerate().take(3) {
    let mut b = pkb.clone();
    b[..32].copy_from_slice(u);
    if let Ok(k) = pp::ServerPublicKey::load_from_bincode(&b) {
      pks.push((format!("undecodable base point #{}", ui), k));
    }
    for slot in 0..2usize {
      let mut b = pkb.clone();
      let at = 32 + 8 + slot * 33 + 1;
      b[at..at + 32].copy_from_slice(u);
      if let Ok(k) = pp::ServerPublicKey::load_from_bincode(&b) {
        pks.push((format!("undecodable tag point #{} in slot {}", ui, slot), k));
      }
    }
  }
  {
    let mut b = pkb[..32].to_vec();
    b.extend_from_slice(&0u64.to_le_bytes());
    if let Ok(k) = pp::ServerPublicKey::load_from_bincode(&b) {
      pks.push(("no tags".into(), k));
    }
  }
  // decodable but DEGENERATE keys: the entry of a tag is the negation of the base point (the per-tag key the
  // verifier computes, base + entry, is then the neutral element), equals the base point, or is the neutral
  // element itself; the base point is the neutral element
  {
    use curve25519_dalek::ristretto::CompressedRistretto;
    let ident = RistrettoPoint::identity().compress().to_bytes();
    let base = CompressedRistretto(pkb[..32].try_into().unwrap()).decompress();
    for slot in 0..2usize {
      let at = 32 + 8 + slot * 33 + 1;
      let mut variants: Vec<(String, [u8; 32])> = vec![(format!("neutral element as tag point in slot {}", slot), ident), (format!("base point as tag point in slot {}", slot), pkb[..32].try_into().unwrap())];
      if let Some(bp) = base {
        variants.push((format!("negated base point as tag point in slot {} (entries cancel out)", slot), (-bp).compress().to_bytes()));
      }
      for (name, val) in variants {
        let mut b = pkb.clone();
        b[at..at + 32].copy_from_slice(&val);
        if let Ok(k) = pp::ServerPublicKey::load_from_bincode(&b) {
          pks.push((name, k));
        }
      }
    }
    let mut b = pkb.clone();
    b[..32].copy_from_slice(&ident);
    if let Ok(k) = pp::ServerPublicKey::load_from_bincode(&b) {
      pks.push(("neutral element as base point".into(), k));
    }
  }
  cx.count("public_key_variants", pks.len() as u64);
  let mut points: Vec<(String, [u8; 32], bool)> = vec![("honest".into(), [0u8; 32], true), ("identity".into(), RistrettoPoint::identity().compress().to_bytes(), true)];
  for (i, u) in und.iter().enumerate() {
    points.push((format!("undecodable#{}", i), *u, false));
  }
  let proofs: Vec<(&str, Option<Vec<u8>>)> = vec![("honest", Some(proof_bytes.clone())), ("zero", Some(vec![0u8; 64])), ("none", None)];
  for (pkn, k) in &pks {
    for (on, ob, ood) in &points {
      for (inn, ib, iod) in &points {
        for (prn, prb) in &proofs {
          for md in [0u8, 1, 7] {
            let out_pt = if on == "honest" { pp::Point::from(&honest.output.as_bytes()[..]) } else { pp::Point::from(&ob[..]) };
            let in_pt = if inn == "honest" { pp::Point::from(&blinded.as_bytes()[..]) } else { pp::Point::from(&ib[..]) };
            let proof = prb.as_ref().map(|b| pp::ProofDLEQ::load_from_bincode(b).expect("proof bytes"));
            let ev = pp::Evaluation { output: out_pt, proof };
            cx.eval();
            cx.nontrivial(fnv_str(&format!("{}|{}|{}|{}|{}", pkn, on, inn, prn, md)));
            // a key whose only damaged point belongs to ANOTHER tag is as good as the honest key for md = 1
            let pk_honest_for_md1 = pkn == "honest" || pkn.ends_with("in slot 0") || pkn.contains("in slot 0 ");
            let all_honest = pk_honest_for_md1 && on == "honest" && inn == "honest" && *prn == "honest" && md == 1;
            match guard(|| pp::Client::verify(k, &in_pt, &ev, md)) {
              Err(p) => cx.viol("C09/panic/Client::verify", format!("Client::verify panicked: {}", p), json!({"entry": "Client::verify", "public_key": pkn, "output": on, "input": inn, "proof": prn, "md": md})),
              Ok(true) => {
                cx.count("verify_true", 1);
                if !all_honest {
                  cx.viol("C09/malformed-accepted/Client::verify", "Client::verify returned true for a malformed / substituted evaluation", json!({"public_key": pkn, "output": on, "input": inn, "proof": prn, "md": md, "decodable": [ood, iod]}));
                }
              }
              Ok(false) => {
                cx.count("verify_false", 1);
                if all_honest {
                  cx.viol("C09/honest-rejected/Client::verify", "Client::verify rejected the honest evaluation", json!({}));
                }
              }
            }
          }
        }
      }
    }
    // a server that imported this public key must not crash either (verifiable eval combines the points)
    cx.eval();
  }
  cx.outcome("Client::verify");
  cx.sample(json!({"public_keys": pks.iter().map(|p| p.0.clone()).collect::<Vec<_>>(), "points": points.len(), "proofs": 3}));
}


/// the JSON forms a client receives from the randomness server (Evaluation = output point + proof)
fn run_json(cx: &mut CaseCx, _case: &Value) {
  use base64::prelude::{BASE64_STANDARD_NO_PAD, BASE64_URL_SAFE};
  cx.entropy(4);
  let server = pp::Server::new(vec![1]).expect("server");
  let (blinded, _) = pp::Client::blind(b"x");
  let ev = server.eval(&blinded, 1, true).expect("eval");
  let good: Value = serde_json::to_value(&ev).expect("json");
  let out = *ev.output.as_bytes();
  let mut outputs: Vec<String> = vec!["".into(), "!".into(), "====".into(), "A".into(), "AA".into(), "AAA".into(), "é".into()];
  for n in 0..=48usize {
    let bytes: Vec<u8> = (0..n).map(|i| out[i % 32]).collect();
    outputs.push(BASE64_STANDARD.encode(&bytes));
    outputs.push(BASE64_STANDARD_NO_PAD.encode(&bytes));
    outputs.push(BASE64_URL_SAFE.encode(&bytes));
  }
  let std32 = BASE64_STANDARD.encode(out);
  for k in 0..std32.len() {
    outputs.push(std32[..k].to_string());
    let mut x = std32.clone().into_bytes();
    x[k] = b'*';
    outputs.push(String::from_utf8(x).unwrap());
  }
  let mut docs: Vec<String> = vec![];
  for o in &outputs {
    let mut v = good.clone();
    v["output"] = Value::String(o.clone());
    docs.push(v.to_string());
  }
  // structural damage: every prefix of the valid document, wrong types, missing fields
  let gs = good.to_string();
  for k in 0..gs.len() {
    if gs.is_char_boundary(k) {
      docs.push(gs[..k].to_string());
    }
  }
  for d in ["{}", "[]", "null", "{\"output\":1,\"proof\":null}", "{\"output\":null}", "{\"output\":[1,2,3],\"proof\":null}", "{\"proof\":null}", "{\"output\":\"\",\"proof\":{\"c\":[],\"s\":[]}}"] {
    docs.push(d.to_string());
  }
  for js in docs {
    cx.eval();
    cx.nontrivial(fnv_str(&js));
    match guard(|| serde_json::from_str::<pp::Evaluation>(&js).map(|e| e.proof.is_some())) {
      Err(p) => cx.viol("C09/panic/Evaluation-json", format!("restoring an Evaluation from JSON panicked: {}", p.chars().take(160).collect::<String>()), json!({"entry": "serde_json::from_str::<Evaluation>", "input": js.chars().take(200).collect::<String>()})),
      Ok(Ok(_)) => cx.count("json_loaded", 1),
      Ok(Err(_)) => cx.count("json_rejected", 1),
    }
    cx.eval();
    if let Err(p) = guard(|| serde_json::from_str::<pp::Point>(&js).map(|_| ())) {
      cx.viol("C09/panic/Point-json", format!("restoring a Point from JSON panicked: {}", p.chars().take(160).collect::<String>()), json!({"entry": "serde_json::from_str::<Point>", "input": js.chars().take(200).collect::<String>()}));
    }
  }
  cx.outcome("json forms");
}

fn run_bincode(cx: &mut CaseCx, _case: &Value) {
  cx.entropy(3);
  let server = pp::Server::new((0u8..8).collect()).expect("server");
  let pkb = server.get_public_key().serialize_to_bincode().unwrap();
  let (blinded, _r) = pp::Client::blind(b"x");
  let prb = server.eval(&blinded, 1, true).unwrap().proof.unwrap().serialize_to_bincode().unwrap();
  let try_pk = |cx: &mut CaseCx, b: &[u8], how: &str| {
    cx.eval();
    cx.nontrivial(fnv(b) ^ 1);
    match guard(|| pp::ServerPublicKey::load_from_bincode(b).map(|_| ())) {
      Err(p) => cx.viol("C09/panic/ServerPublicKey::load_from_bincode", format!("panicked: {}", p), json!({"entry": "ServerPublicKey::load_from_bincode", "how": how, "input": hexs(b)})),
      Ok(Ok(())) => cx.count("pk_loaded", 1),
      Ok(Err(_)) => cx.count("pk_rejected", 1),
    }
  };
  let try_pr = |cx: &mut CaseCx, b: &[u8], how: &str| {
    cx.eval();
    cx.nontrivial(fnv(b) ^ 2);
    match guard(|| pp::ProofDLEQ::load_from_bincode(b).map(|_| ())) {
      Err(p) => cx.viol("C09/panic/ProofDLEQ::load_from_bincode", format!("panicked: {}", p), json!({"entry": "ProofDLEQ::load_from_bincode", "how": how, "input": hexs(b)})),
      Ok(Ok(())) => cx.count("proof_loaded", 1),
      Ok(Err(_)) => cx.count("proof_rejected", 1),
    }
  };
  for n in 0..=pkb.len() {
    try_pk(cx, &pkb[..n], "prefix");
  }
  for n in 0..=prb.len() {
    try_pr(cx, &prb[..n], "prefix");
  }
  for v in len_boundary_values(8) {
    for hi in [0u32, 1, u32::MAX] {
      let mut b = pkb.clone();
      b[32..36].copy_from_slice(&v.to_le_bytes());
      b[36..40].copy_from_slice(&hi.to_le_bytes());
      try_pk(cx, &b, "map length");
    }
  }
  for off in 0..pkb.len() {
    for f in BYTE_FAULTS {
      let mut b = pkb.clone();
      b[off] = byte_fault(b[off], f);
      try_pk(cx, &b, "byte fault");
    }
  }
  for off in 0..prb.len() {
    for f in BYTE_FAULTS {
      let mut b = prb.clone();
      b[off] = byte_fault(b[off], f);
      try_pr(cx, &b, "byte fault");
    }
  }
  for size in [0usize, 1, 63, 64, 65, 100, 16383, 16384, 16385, 10_000, 100_000] {
    for fill in [0u8, 98, 0xff] {
      try_pk(cx, &vec![fill; size], "constant fill");
      try_pr(cx, &vec![fill; size], "constant fill");
    }
    let mut padded = pkb.clone();
    padded.resize(size.max(pkb.len()), 0);
    try_pk(cx, &padded, "valid key padded");
  }
  cx.outcome("bincode loaders");
  cx.sample(json!({"pk_len": pkb.len(), "proof_len": prb.len()}));
}

pub fn spec() -> PropSpec {
  PropSpec {
    id: "C09",
    level: "fault_enumeration",
    assumptions: vec![
      "entry points are the property's list, read inclusively for 'decoders for ... proofs': the serde JSON forms of Evaluation (output point + proof) and Point that a client receives are decoders of data from another party as well; every call is wrapped in catch_unwind; malformed input must surface as None / Err / false",
      "aborts (allocation failure, stack overflow) would terminate the checker with a signal exit (reported as machinery failure, exit >= 128): none of the entry points sizes an allocation from an unchecked length field, so no child-process sandbox is used",
      "not in the property's list and therefore not asserted: Client::unblind, Point::from(&[u8]) with a non-32-byte slice, GGM::eval with a short output buffer, retrieve_outputs",
    ],
    thorough_budget_s: 1200,
    checks: vec![
      Check {
        name: "wire-inputs",
        rule: "every single-fault mutation of the 13 base encodings (as C08) through the 7 decoders; every input that decodes is handed on to adss::recover, sta_rs::share_recover, Sharks::recover (thresholds 0,1,2,2^32-1) and star_wasm::group_shares, alone, doubled and mixed with honest shares; oracle: no panic",
        gen: |_| {
          let mut v = vec![];
          for b in 0..all_bases().len() {
            for part in 0..4 {
              v.push(json!({"base": b, "part": part, "parts": 4}));
            }
          }
          v
        },
        run: run_wire,
        min_counts: &[("decoded_adss_shares", 100), ("decoded_shamir_shares", 100)],
      },
      Check {
        name: "short-strings",
        rule: "ALL byte strings of length <= 6 (quick) / 7 (thorough) over {00,01,04,18,40,fc,ff} through decoders and consumers",
        gen: |tier| (0..32).map(|p| json!({"part": p, "parts": 32, "maxlen": if tier.thorough() { 7 } else { 6 }})).collect(),
        run: run_short,
        min_counts: &[("evaluations", 10_000)],
      },
      Check {
        name: "degenerate-values",
        rule: "structurally valid but degenerate shares (no y, one y, two y, x=0, x=p-1, y in [2^128, p) on constant polynomials) x thresholds {0,1,2,3,2^32-1} x empty/32-byte C,D: the empty list, every single share and every ordered pair through adss::recover, share_recover, group_shares and Sharks::recover",
        gen: |_| vec![json!({})],
        run: run_degenerate,
        min_counts: &[("degenerate_shares", 40), ("degenerate_rejected", 100)],
      },
      Check {
        name: "group_shares",
        rule: "line alphabet {2 valid shares, '', '!', 'AAAA', padding variants, URL-safe alphabet, non-ASCII, base64 of EVERY prefix of a share} in 1-, 2- and 3-line collections x 4 epochs",
        gen: |_| vec![json!({})],
        run: run_group_shares,
        min_counts: &[("grouped_none", 100), ("grouped_some", 1)],
      },
      Check {
        name: "Server::eval",
        rule: "points {valid, identity, basepoint, 8 undecodable encodings, every single-byte fault (32 offsets x 5) of a valid point} x tags {registered, unregistered, punctured} x verifiable flag: no panic, undecodable points answered with Err",
        gen: |_| vec![json!({})],
        run: run_server_eval,
        min_counts: &[("eval_ok", 10), ("eval_err", 100)],
      },
      Check {
        name: "server-histories",
        rule: "server with tags {0,2,128,130,255}: EVERY history of length <= 4 (thorough 5) over {puncture(t), eval(t), verifiable eval(2|128|77), import of a foreign key state with fewer tags plus one tag (77) the server never had, re-import of the initial state}: no step may panic (evaluation of a blinded point is a listed entry point; its behaviour depends on the key's history)",
        gen: |tier| (0..15u64).map(|f| json!({"first": f, "depth": if tier.thorough() { 5 } else { 4 }})).collect(),
        run: run_server_histories,
        min_counts: &[("histories", 10_000)],
      },
      Check {
        name: "big-inputs",
        rule: "aborts are observed from OUTSIDE: nine child processes each feed one large input to the decoders on an ordinary 2 MiB thread - a valid report / share / adss share followed by 8 MiB of zero bytes (two million empty chunks), 200000 nested chunks, 20000 share lines and one 16 MiB line through group_shares, JSON nested 300000 deep, a public key claiming 2^40 entries - and must exit normally whatever the decoder answers",
        gen: |_| vec![json!({})],
        run: run_big_inputs,
        min_counts: &[("big_inputs_survived", 9)],
      },
      Check {
        name: "Client::verify",
        rule: "full cross product {public key: honest, bincode-loaded with an undecodable base point / tag point (3 encodings, both slots), no tags} x {output, input: honest, identity, 8 undecodable} x {proof: honest, zero, none} x tags {0,1,7}: no panic, true only for the all-honest cell",
        gen: |_| vec![json!({})],
        run: run_verify,
        min_counts: &[("verify_true", 1), ("verify_false", 1000), ("public_key_variants", 5)],
      },
      Check {
        name: "json-forms",
        rule: "the JSON form of an Evaluation as a client receives it (output point + proof): output field = base64 (padded / unpadded / url-safe) of 0..48 bytes, every character-prefix and every single-character corruption of the valid string, every prefix of the whole document, wrong types and missing fields; also parsed as a bare Point: no panic",
        gen: |_| vec![json!({})],
        run: run_json,
        min_counts: &[("json_rejected", 200), ("json_loaded", 1)],
      },
      Check {
        name: "bincode-loaders",
        rule: "every prefix of a valid public key and proof, map-length field x 21 boundary values x 3 high words, every byte x 5 faults, constant fills and padded valid keys at sizes around both limits (63,64,65,16383,16384,16385, 10^4, 10^5)",
        gen: |_| vec![json!({})],
        run: run_bincode,
        min_counts: &[("pk_rejected", 100), ("pk_loaded", 1), ("proof_loaded", 1), ("proof_rejected", 10)],
      },
    ],
  }
}
