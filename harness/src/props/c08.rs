//! C08 — wire encodings of shares and reports round-trip and reject malformed input,
//! in agreement with an independent parser of the documented layout.
use crate::mc::*;
use crate::refmodel as rm;
use crate::sut::*;
use crate::wire::*;
use serde_json::{json, Value};
use std::convert::TryFrom;

pub struct Decoder {
  pub name: &'static str,
  /// real decoder followed by the real encoder: Some(re-encoding) if accepted
  pub real: fn(&[u8]) -> Option<Vec<u8>>,
  /// reference parser followed by the reference printer: Some(canonical form) if well-formed
  pub reference: fn(&[u8]) -> Option<Vec<u8>>,
}
pub fn decoders() -> Vec<Decoder> {
  vec![
    Decoder { name: "star_sharks::Share::try_from", real: |b| star_sharks::Share::try_from(b).ok().map(|s| Vec::<u8>::from(&s)), reference: |b| rm::parse_shamir(b).map(|s| rm::print_shamir(&s)) },
    Decoder { name: "adss::Share::from_bytes", real: |b| adss::Share::from_bytes(b).map(|s| s.to_bytes()), reference: |b| rm::parse_adss(b).map(|s| rm::print_adss(&s)) },
    Decoder { name: "sta_rs::Share::from_bytes", real: |b| sta_rs::Share::from_bytes(b).map(|s| s.to_bytes()), reference: |b| rm::parse_adss(b).map(|s| rm::print_adss(&s)) },
    Decoder { name: "sta_rs::Message::from_bytes", real: |b| sta_rs::Message::from_bytes(b).map(|m| m.to_bytes()), reference: |b| rm::parse_report(b).map(|r| rm::print_report(&r)) },
    Decoder { name: "adss::load_u32", real: |b| adss::load_u32(b).map(|u| u.to_le_bytes().to_vec()), reference: |b| rm::parse_u32(b).map(|u| u.to_le_bytes().to_vec()) },
    Decoder {
      name: "adss::load_bytes",
      real: |b| {
        adss::load_bytes(b).map(|c| {
          let mut out = vec![];
          adss::store_bytes(c, &mut out);
          out
        })
      },
      reference: |b| {
        rm::parse_chunk(b).map(|c| {
          let mut out = vec![];
          rm::put_chunk(&mut out, &c);
          out
        })
      },
    },
    Decoder { name: "adss::AccessStructure::from_bytes", real: |b| adss::AccessStructure::from_bytes(b).map(|a| a.to_bytes().to_vec()), reference: |b| rm::parse_u32(b).map(|u| u.to_le_bytes().to_vec()) },
  ]
}

/// feed one input to every decoder and compare with the reference
pub fn judge_input(cx: &mut CaseCx, decs: &[Decoder], desc: &str, input: &[u8]) {
  for d in decs {
    cx.eval();
    let real = guard(|| (d.real)(input));
    let want = (d.reference)(input);
    let short = d.name.rsplit("::").nth(1).unwrap_or(d.name);
    let det = || json!({"decoder": d.name, "mutation": desc, "input": hex(input), "input_len": input.len()});
    match (real, want) {
      (Err(p), _) => cx.viol(format!("C08/panic/{}", d.name), format!("{} panicked instead of rejecting: {}", d.name, p), det()),
      (Ok(Some(re)), Some(canon)) => {
        cx.count("accepted", 1);
        if re != canon {
          cx.viol(format!("C08/re-encoding/{}", d.name), format!("{} accepted the input but its re-encoding is not the canonical form of the input", d.name), json!({"decoder": d.name, "mutation": desc, "input": hex(input), "re_encoding": hex(&re), "canonical": hex(&canon)}));
        }
      }
      (Ok(None), None) => cx.count("rejected", 1),
      (Ok(Some(_)), None) => cx.viol(format!("C08/accepts-malformed/{}", d.name), format!("{} accepted a string the layout rejects", d.name), det()),
      (Ok(None), Some(_)) => cx.viol(format!("C08/rejects-wellformed/{}", d.name), format!("{} rejected a string that is well-formed per the documented layout", d.name), det()),
    }
    let _ = short;
  }
}

pub fn elem_bytes(v: &str) -> [u8; 24] {
  rm::le24(&v.parse().unwrap())
}
pub fn shamir_bases() -> Vec<(String, Vec<u8>)> {
  let p1 = "340282366920938463463374607431768223906";
  let e = |s: &str| elem_bytes(s).to_vec();
  vec![
    ("shamir x only".into(), e("7")),
    ("shamir x,y".into(), [e("1"), e("340282366920938463463374607431768211456")].concat()),
    ("shamir x,y1,y2".into(), [e(p1), e("0"), e("18446744073709551616")].concat()),
    ("shamir x,y + 5 trailing".into(), [e("2"), e("3"), vec![9u8; 5]].concat()),
  ]
}
pub fn adss_bases() -> Vec<(String, Vec<u8>)> {
  let mut v = vec![];
  for (i, (t, ml, rl)) in [(2u32, 32usize, 32usize), (1, 0, 0), (3, 1, 33), (2, 5, 0)].iter().enumerate() {
    getrandom::verif::reset(0xADD5 + i as u64);
    let s = match super::c05::adss_share(*t, &prbytes(i as u64, *ml), &prbytes(100 + i as u64, *rl)) {
      Ok(s) => s,
      Err(_) => continue,
    };
    v.push((format!("adss t={} |M|={} |R|={}", t, ml, rl), s.to_bytes()));
  }
  // the same layout with another number of y values in the inner Shamir chunk (0, 2, 3): lengths consistent,
  // every element in range - well-formed per the layout although no dealer of this library produces them
  if let Some(base) = v.first().and_then(|b| rm::parse_adss(&b.1)) {
    for k in [0usize, 2, 3] {
      let mut p = base.clone();
      p.s.y = (0..k).map(|i| if i == 0 { base.s.y[0].clone() } else { rm::big(1u128 << (40 * i)) + rm::big(i as u128) }).collect();
      v.push((format!("adss t=2 |M|=32 |R|=32 with {} y values", k), rm::print_adss(&p)));
    }
  }
  v
}
pub fn report_bases() -> Vec<(String, Vec<u8>)> {
  let mut v = vec![];
  let cfgs: Vec<(Vec<u8>, Vec<u8>, u32, Option<Vec<u8>>)> = vec![(b"a".to_vec(), b"t".to_vec(), 2, None), (prbytes(8, 32), b"epoch".to_vec(), 3, Some(prbytes(9, 16))), (vec![], vec![], 1, Some(vec![]))];
  for (i, (m, e, t, aux)) in cfgs.iter().enumerate() {
    getrandom::verif::reset(0x4E9 + i as u64);
    // a base that cannot be built (the code under test refuses or panics on these inputs) is left out here;
    // the properties that own report generation (C01, C08 round trips) report that
    let r = match guard(|| gen_report(m, e, *t, &local_randomness(m, e, *t), aux)) {
      Ok(Ok(r)) => r,
      _ => continue,
    };
    v.push((format!("report |m|={} t={} aux={:?}", m.len(), t, aux.as_ref().map(|a| a.len())), r.to_bytes()));
  }
  if let Some(base) = v.first().and_then(|b| rm::parse_report(&b.1)) {
    let mut r = base.clone();
    r.share.s.y.push(rm::big(77));
    v.push(("report |m|=1 t=2 whose share carries 2 y values".into(), rm::print_report(&r)));
  }
  v
}
pub fn all_bases() -> Vec<(String, Vec<u8>, Vec<Field>)> {
  let mut v = vec![];
  for (n, b) in shamir_bases() {
    let f = fields_shamir(&b, 0, b.len(), &[], "");
    v.push((n, b, f));
  }
  for (n, b) in adss_bases() {
    let f = fields_adss(&b, 0, &[], "");
    v.push((n, b, f));
  }
  for (n, b) in report_bases() {
    let f = fields_report(&b);
    v.push((n, b, f));
  }
  // chunk helpers
  let mut c = vec![];
  rm::put_chunk(&mut c, b"hello");
  v.push(("chunk".into(), c.clone(), vec![Field { name: "len".into(), off: 0, len: 4, kind: Kind::Len, parents: vec![] }, Field { name: "data".into(), off: 4, len: 5, kind: Kind::Data, parents: vec![0] }]));
  v.push(("u32".into(), vec![2, 0, 0, 0], vec![Field { name: "value".into(), off: 0, len: 4, kind: Kind::U32, parents: vec![] }]));
  v
}

fn run_mutations(cx: &mut CaseCx, case: &Value) {
  let bases = all_bases();
  let (name, base, fields) = &bases[case["base"].as_u64().unwrap() as usize];
  let decs = decoders();
  let muts = mutations(base, fields);
  let part = case["part"].as_u64().unwrap() as usize;
  let parts = case["parts"].as_u64().unwrap() as usize;
  for (i, (desc, input)) in muts.iter().enumerate() {
    if i % parts != part {
      continue;
    }
    cx.nontrivial(fnv(input));
    judge_input(cx, &decs, &format!("{}: {}", name, desc), input);
  }
  cx.outcome(format!("{}: {} mutations", name, muts.len()));
  if part == 0 {
    cx.sample(json!({"base": name, "len": base.len(), "fields": fields.iter().map(|f| format!("{}@{}+{}", f.name, f.off, f.len)).collect::<Vec<_>>(), "mutations": muts.len(), "example": muts.get(5).map(|m| m.0.clone())}));
  }
}
fn run_splices(cx: &mut CaseCx, case: &Value) {
  let bases = all_bases();
  let a = &bases[case["a"].as_u64().unwrap() as usize];
  let b = &bases[case["b"].as_u64().unwrap() as usize];
  let decs = decoders();
  for (desc, input) in splices(&a.1, &a.2, &b.1, &b.2) {
    cx.nontrivial(fnv(&input));
    judge_input(cx, &decs, &format!("{} / {}: {}", a.0, b.0, desc), &input);
  }
  cx.outcome("splices");
}
fn run_short(cx: &mut CaseCx, case: &Value) {
  let decs = decoders();
  let part = case["part"].as_u64().unwrap() as usize;
  let parts = case["parts"].as_u64().unwrap() as usize;
  let maxlen = case["maxlen"].as_u64().unwrap() as usize;
  short_strings(&[0x00, 0x01, 0x04, 0x18, 0x40, 0xff], maxlen, part, parts, |b| {
    cx.nontrivial(fnv(b));
    judge_input(cx, &decs, "short string", b);
  });
  cx.outcome("short strings");
}

/// honest values: decode(encode(v)) == v and the encoding follows the documented layout
fn run_roundtrip(cx: &mut CaseCx, case: &Value) {
  let t = case["t"].as_u64().unwrap() as u32;
  let ms = meas_alphabet(true);
  let es = epoch_alphabet(true);
  let m = &ms[case["m"].as_u64().unwrap() as usize];
  let e = &es[case["e"].as_u64().unwrap() as usize];
  let auxa = aux_alphabet();
  let rnd = local_randomness(m, e, t);
  for (ai, aux) in auxa.iter().enumerate() {
    getrandom::verif::set_group(ai as u32 + 1);
    let msg = match gen_report(m, e, t, &rnd, aux) {
      Ok(x) => x,
      Err(err) => {
        cx.viol("C08/generate-failed", err, json!({}));
        return;
      }
    };
    let enc = msg.to_bytes();
    cx.eval();
    cx.nontrivial(fnv(&enc));
    // layout of the report from its observable parts, by the independent printer
    let mut want = vec![];
    rm::put_chunk(&mut want, &msg.ciphertext.to_bytes());
    rm::put_chunk(&mut want, &msg.share.to_bytes());
    rm::put_chunk(&mut want, &msg.tag);
    if enc != want {
      cx.viol("C08/layout/report", "Message::to_bytes is not chunk(ciphertext) | chunk(share) | chunk(tag) with 4-byte LE length prefixes", json!({"got": hexs(&enc), "want": hexs(&want)}));
    }
    match guard(|| sta_rs::Message::from_bytes(&enc)) {
      Ok(Some(m2)) => {
        if m2 != msg {
          cx.viol("C08/roundtrip/report", "Message::from_bytes(to_bytes(m)) != m", json!({"bytes": hexs(&enc)}));
        }
      }
      other => cx.viol("C08/roundtrip/report", format!("an honest report does not decode: {:?}", other.map(|o| o.is_some())), json!({"bytes": hexs(&enc)})),
    }
    // the share inside: documented layout, expected field sizes
    let sb = msg.share.to_bytes();
    match rm::parse_adss(&sb) {
      Some(p) => {
        // documented: 4-byte LE threshold, chunks, 64-byte authentication tag (the number of y values and the
        // lengths of the encrypted fields are protocol choices, not part of the layout)
        if rm::print_adss(&p) != sb || p.threshold != t || p.j.len() != 64 {
          cx.viol("C08/layout/share", format!("share layout unexpected: threshold field {} (client used {}), |J|={}", p.threshold, t, p.j.len()), json!({"bytes": hexs(&sb)}));
        }
        // thresholds 0 and 2^32-1 survive a decode/encode cycle untouched
        for tv in [0u32, 1, 255, 256, 65535, 65536, u32::MAX] {
          let mut b = sb.clone();
          b[..4].copy_from_slice(&tv.to_le_bytes());
          cx.eval();
          match guard(|| sta_rs::Share::from_bytes(&b).map(|s| s.to_bytes())) {
            Ok(Some(re)) if re == b => {}
            other => cx.viol("C08/roundtrip/threshold", format!("share with threshold field {} does not round-trip: {:?}", tv, other.map(|o| o.map(|b| hexs(&b)))), json!({"threshold": tv})),
          }
        }
      }
      None => cx.viol("C08/layout/share", "an honest share does not parse per the documented layout", json!({"bytes": hexs(&sb)})),
    }
    match guard(|| sta_rs::Share::from_bytes(&sb)) {
      Ok(Some(s2)) => {
        if s2 != msg.share {
          cx.viol("C08/roundtrip/share", "Share::from_bytes(to_bytes(s)) != s", json!({}));
        }
      }
      _ => cx.viol("C08/roundtrip/share", "an honest share does not decode", json!({})),
    }
  }
  cx.outcome(format!("t={}", t));
  cx.sample(json!({"t": t, "measurement_len": m.len(), "report_len_no_aux": gen_report(m, e, t, &rnd, &None).map(|r| r.to_bytes().len()).unwrap_or(0)}));
}

/// large honest reports (payloads beyond 64 KiB) round-trip like any other
fn run_roundtrip_big(cx: &mut CaseCx, case: &Value) {
  let ml = case["ml"].as_u64().unwrap() as usize;
  let al = case["al"].as_u64().unwrap() as usize;
  let m = prbytes(ml as u64, ml);
  let aux = if al == 0 { None } else { Some(prbytes(al as u64 + 1, al)) };
  let msg = match gen_report(&m, b"e", 2, &local_randomness(&m, b"e", 2), &aux) {
    Ok(x) => x,
    Err(e) => {
      cx.viol("C08/generate-failed", e, json!({}));
      return;
    }
  };
  let enc = msg.to_bytes();
  cx.eval();
  cx.nontrivial(fnv(&enc));
  match guard(|| sta_rs::Message::from_bytes(&enc)) {
    Ok(Some(m2)) if m2 == msg && m2.to_bytes() == enc => cx.count("big_roundtrips", 1),
    other => cx.viol("C08/roundtrip/report", format!("an honest report with a {}-byte measurement and {} bytes of associated data (ciphertext {} bytes) does not round-trip: decoded={:?}", ml, al, msg.ciphertext.to_bytes().len(), other.map(|o| o.is_some())), json!({"measurement_len": ml, "aux_len": al, "ciphertext_len": msg.ciphertext.to_bytes().len()})),
  }
  match rm::parse_report(&enc) {
    Some(r) if rm::print_report(&r) == enc => {}
    _ => cx.viol("C08/layout/report", "large report does not follow the documented layout", json!({"measurement_len": ml})),
  }
  cx.outcome("big report");
}

fn run_roundtrip_adss(cx: &mut CaseCx, case: &Value) {
  let ml = case["ml"].as_u64().unwrap() as usize;
  let rl = case["rl"].as_u64().unwrap() as usize;
  let t = case["t"].as_u64().unwrap() as u32;
  let (m, r) = (prbytes(ml as u64, ml), prbytes(7 + rl as u64, rl));
  let s = match super::c05::adss_share(t, &m, &r) {
    Ok(s) => s,
    Err(e) => {
      cx.viol("C08/share-failed", e, json!({}));
      return;
    }
  };
  let b = s.to_bytes();
  cx.eval();
  cx.nontrivial(fnv(&b));
  match rm::parse_adss(&b) {
    Some(p) => {
      if rm::print_adss(&p) != b || p.threshold != t || p.c.len() != ml || p.d.len() != rl {
        cx.viol("C08/layout/adss", format!("layout: threshold {}, |C|={} (|M|={}), |D|={} (|R|={})", p.threshold, p.c.len(), ml, p.d.len(), rl), json!({}));
      }
    }
    None => cx.viol("C08/layout/adss", "honest adss share does not parse per the documented layout", json!({"len": b.len()})),
  }
  match guard(|| adss::Share::from_bytes(&b)) {
    Ok(Some(s2)) => {
      if s2 != s || s2.to_bytes() != b {
        cx.viol("C08/roundtrip/adss", "adss::Share::from_bytes(to_bytes(s)) != s", json!({}));
      }
    }
    _ => cx.viol("C08/roundtrip/adss", "honest adss share does not decode", json!({"ml": ml, "rl": rl})),
  }
  // shamir level: Vec<u8>::from(&Share) is x || y.. as 24-byte LE elements
  cx.outcome("adss roundtrip");
}
fn run_roundtrip_shamir(cx: &mut CaseCx, _case: &Value) {
  use ff::PrimeField;
  let vals = ["0", "1", "18446744073709551615", "18446744073709551616", "340282366920938463463374607431768211455", "340282366920938463463374607431768211456", "340282366920938463463374607431768223906"];
  for (i, x) in vals.iter().enumerate() {
    for k in (0..=12usize).chain([15, 16, 17, 20, 31, 32, 33]) {
      let xb: num_bigint::BigUint = x.parse().unwrap();
      let ys: Vec<num_bigint::BigUint> = (0..k).map(|j| vals[(i + j + 1) % vals.len()].parse().unwrap()).collect();
      let share = star_sharks::Share { x: fp_from_big(&xb).unwrap(), y: ys.iter().map(|y| fp_from_big(y).unwrap()).collect() };
      let enc = Vec::<u8>::from(&share);
      cx.eval();
      cx.nontrivial(fnv(&enc));
      let want = rm::print_shamir(&rm::ShamirShare { x: xb.clone(), y: ys.clone() });
      if enc != want {
        cx.viol("C08/layout/shamir", "Vec<u8>::from(&Share) is not x || y1 || .. as 24-byte little-endian integers", json!({"got": hex(&enc), "want": hex(&want)}));
      }
      match star_sharks::Share::try_from(&enc[..]) {
        Ok(s2) if s2 == share => {}
        _ => cx.viol("C08/roundtrip/shamir", "Share::try_from(Vec::from(&s)) != s", json!({"bytes": hex(&enc)})),
      }
      let _ = share.x.to_repr();
    }
  }
  cx.outcome("shamir roundtrip");
  cx.sample(json!({"x_values": vals, "y_counts": [0, 1, 2, 3]}));
}

pub fn spec() -> PropSpec {
  let nb = all_bases().len();
  let _ = nb;
  PropSpec {
    id: "C08",
    level: "fault_enumeration",
    assumptions: vec![
      "the independent parser/printer in refmodel::layout is the documented layout (4-byte LE threshold and length prefixes, 24-byte LE elements < p, 64-byte tag, trailing partial element / trailing report bytes ignored)",
      "all byte strings cannot be enumerated: decided on every single-fault mutation of 13 annotated base encodings, all splices at field boundaries, and all strings of length <= 8 (thorough: 9) over {00,01,04,18,40,ff}",
    ],
    thorough_budget_s: 1200,
    checks: vec![
      Check {
        name: "roundtrip-reports",
        rule: "every (t, measurement, epoch) x 6 associated-data shapes: to_bytes equals the independent printer of the observable parts, from_bytes(to_bytes(v)) == v for report and share, share field sizes, threshold field values {0,1,255,256,65535,65536,2^32-1} survive decode/encode",
        gen: |tier| {
          let mut v = vec![];
          for t in [1u64, 2, 5] {
            for m in 0..meas_alphabet(true).len() {
              for e in 0..(if tier.thorough() { 6 } else { 2 }) {
                v.push(json!({"t": t, "m": m, "e": e}));
              }
            }
          }
          v
        },
        run: run_roundtrip,
        min_counts: &[("evaluations", 300)],
      },
      Check {
        name: "roundtrip-large-reports",
        rule: "honest reports whose ciphertext length straddles 2^16 (65527, 65528, 65529 payload bytes via measurement only / measurement + associated data) and 70000 / 200000 bytes: decode(encode(v)) == v",
        gen: |_| vec![json!({"ml": 65523, "al": 0}), json!({"ml": 65531, "al": 0}), json!({"ml": 65532, "al": 0}), json!({"ml": 65533, "al": 0}), json!({"ml": 100, "al": 65427}), json!({"ml": 100, "al": 65428}), json!({"ml": 70000, "al": 70000}), json!({"ml": 0, "al": 200000})],
        run: run_roundtrip_big,
        min_counts: &[("big_roundtrips", 8)],
      },
      Check {
        name: "roundtrip-adss",
        rule: "adss shares for |M|,|R| in {0,1,31,32,33,166,100000}^2 x t in {1,3}: layout and round trip",
        gen: |_| {
          let mut v = vec![];
          for ml in [0u64, 1, 31, 32, 33, 166, 100_000] {
            for rl in [0u64, 1, 31, 32, 33, 166, 100_000] {
              for t in [1u64, 3] {
                v.push(json!({"ml": ml, "rl": rl, "t": t}));
              }
            }
          }
          v
        },
        run: run_roundtrip_adss,
        min_counts: &[("evaluations", 90)],
      },
      Check { name: "roundtrip-shamir", rule: "Shamir shares with 0..12, 15..17, 20, 31..33 y over extreme element values: layout and round trip", gen: |_| vec![json!({})], run: run_roundtrip_shamir, min_counts: &[("evaluations", 20)] },
      Check {
        name: "single-faults",
        rule: "17 annotated base encodings (Shamir share with 0,1,2 y and a partial element; 4 adss shares + the first with 0, 2, 3 in-range y values in its Shamir chunk; 3 reports + one whose share carries 2 y values; chunk; u32) x {every prefix, every length/threshold field x 21 boundary values, every 24-byte element replaced by p-1,p,p+1,2^192-1,0, every offset x 5 byte faults, garbage of 1/23/24/48 bytes appended and inserted at the end of every nested chunk with adjusted and stale lengths}; every input through all 7 decoders: accept <=> reference accepts, re-encoding == canonical form; distinct = inputs",
        gen: |_| {
          let mut v = vec![];
          for b in 0..all_bases().len() {
            for part in 0..4 {
              v.push(json!({"base": b, "part": part, "parts": 4}));
            }
          }
          v
        },
        run: run_mutations,
        min_counts: &[("accepted", 1000), ("rejected", 10_000)],
      },
      Check {
        name: "splices",
        rule: "all ordered pairs of base encodings: a[..i] + b[j..] for every pair of field boundaries (i, j)",
        gen: |tier| {
          let n = all_bases().len();
          let mut v = vec![];
          for a in 0..n {
            for b in 0..n {
              if tier.thorough() || true {
                v.push(json!({"a": a, "b": b}));
              }
            }
          }
          v
        },
        run: run_splices,
        min_counts: &[("accepted", 100), ("rejected", 1000)],
      },
      Check {
        name: "short-strings",
        rule: "ALL byte strings of length <= 8 (quick) / 9 (thorough) over {00,01,04,18,40,ff} through all 7 decoders",
        gen: |tier| (0..64).map(|p| json!({"part": p, "parts": 64, "maxlen": if tier.thorough() { 9 } else { 8 }})).collect(),
        run: run_short,
        min_counts: &[("accepted", 100), ("rejected", 10_000)],
      },
    ],
  }
}
