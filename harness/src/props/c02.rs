//! C02 — sub-threshold confidentiality: < t distinct shares never yield key or message.
use crate::mc::*;
use crate::refmodel as rm;
use crate::sut::*;
use num_bigint::BigUint;
use num_traits::Zero;
use serde_json::{json, Value};
use std::collections::HashMap;

struct Sharing {
  name: &'static str,
  t: u32,
  shares: Vec<sta_rs::Share>,
  xs: Vec<BigUint>,
  secret: Vec<u8>, // the shared message r0 (recovered from all shares)
}

fn make_sharing(cx: &mut CaseCx, name: &'static str, meas: &[u8], epoch: &[u8], t: u32, n: usize, group0: u32) -> Option<Sharing> {
  let rnd = local_randomness(meas, epoch, t);
  let mut shares = vec![];
  let mut xs = vec![];
  for i in 0..n {
    getrandom::verif::set_group(group0 + i as u32);
    let m = match gen_report(meas, epoch, t, &rnd, &None) {
      Ok(m) => m,
      Err(e) => {
        cx.viol("C02/generate-failed", format!("Message::generate failed: {}", e), json!({"sharing": name}));
        return None;
      }
    };
    xs.push(share_x(&m.share.to_bytes())?);
    shares.push(m.share.clone());
  }
  // the secret of this sharing, as the recovery interface produces it from enough shares
  let mut full = shares.clone();
  while full.len() < t as usize {
    getrandom::verif::set_group(group0 + 100 + full.len() as u32);
    full.push(gen_report(meas, epoch, t, &rnd, &None).ok()?.share);
  }
  let secret = match recover_msg(&full) {
    Ok(Ok(m)) => m,
    other => {
      if t >= 1 {
        cx.viol("C02/baseline-recovery-failed", format!("{} honest shares of sharing {} (t={}) do not recover: {:?}", full.len(), name, t, other), json!({"sharing": name}));
      }
      return None;
    }
  };
  Some(Sharing { name, t, shares, xs, secret })
}

/// all sequences over A's shares + foreign shares; oracle by per-sharing distinct counts
fn run_mix(cx: &mut CaseCx, case: &Value) {
  let t = case["t"].as_u64().unwrap() as u32;
  let meas_a = meas_alphabet(true)[case["m"].as_u64().unwrap() as usize].clone();
  let epoch = epoch_alphabet(true)[case["e"].as_u64().unwrap() as usize].clone();
  let mut meas_b = meas_a.clone();
  meas_b.push(b'B');
  let mut meas_c = meas_a.clone();
  meas_c.push(b'C');
  let mut epoch2 = epoch.clone();
  epoch2.push(b'2');
  let tu = t as usize;
  let mut sharings: Vec<Sharing> = vec![];
  let specs: Vec<(&'static str, Vec<u8>, Vec<u8>, u32, usize)> = vec![
    ("A", meas_a.clone(), epoch.clone(), t, tu + 1),
    ("B(other measurement, reaches its threshold)", meas_b, epoch.clone(), t, tu),
    ("C(other measurement, t-1 shares)", meas_c, epoch.clone(), t, tu - 1),
    ("A/other-epoch", meas_a.clone(), epoch2, t, 1),
    ("A/threshold+1", meas_a.clone(), epoch.clone(), t + 1, 1),
    ("A/threshold-1", meas_a.clone(), epoch.clone(), t - 1, 1),
  ];
  for (k, (name, m, e, tt, n)) in specs.into_iter().enumerate() {
    match make_sharing(cx, name, &m, &e, tt, n, 1 + 200 * k as u32) {
      Some(s) => sharings.push(s),
      None => return,
    }
  }
  // symbol table: (sharing index, share index)
  let mut sym: Vec<(usize, usize)> = vec![];
  for (si, s) in sharings.iter().enumerate() {
    for j in 0..s.shares.len() {
      sym.push((si, j));
    }
  }
  let part = case["part"].as_u64().unwrap_or(0) as usize;
  let parts = case["parts"].as_u64().unwrap_or(1) as usize;
  let max_len = tu + 2;
  let mut idx = 0usize;
  let (mut n_err, mut n_other_ok) = (0u64, 0u64);
  for_each_seq(sym.len(), max_len, |seq| {
    idx += 1;
    if seq.is_empty() || idx % parts != part {
      return;
    }
    // distinct share points per sharing
    let mut reach_a = false;
    let mut reach_other = false;
    for (si, s) in sharings.iter().enumerate() {
      let mut xs: Vec<&BigUint> = seq.iter().filter(|&&k| sym[k].0 == si).map(|&k| &s.xs[sym[k].1]).collect();
      xs.sort();
      xs.dedup();
      if xs.len() >= s.t as usize && !xs.is_empty() {
        if si == 0 {
          reach_a = true;
        } else {
          reach_other = true;
        }
      }
    }
    if reach_a {
      return; // A reaches its threshold: not a sub-threshold collection
    }
    let shares: Vec<sta_rs::Share> = seq.iter().map(|&k| sharings[sym[k].0].shares[sym[k].1].clone()).collect();
    let res = recover_msg(&shares);
    cx.eval();
    cx.count("states", 1);
    cx.count("transitions", 1);
    cx.nontrivial(fnv_str(&format!("{}|{:?}", case, seq)));
    let names = || seq.iter().map(|&k| format!("{}#{}", sharings[sym[k].0].name, sym[k].1)).collect::<Vec<_>>();
    match res {
      Ok(Ok(m)) => {
        if m == sharings[0].secret {
          cx.viol("C02/secret-from-sub-threshold", format!("recovery returned measurement A's secret from a collection holding fewer than t={} distinct shares of A", t), json!({"collection": names()}));
        } else if !reach_other {
          cx.viol("C02/ok-without-any-threshold", "recovery succeeded although no measurement in the collection reaches its own threshold", json!({"collection": names(), "message": hexs(&m)}));
        } else {
          n_other_ok += 1;
        }
      }
      Ok(Err(_)) => n_err += 1,
      Err(p) => cx.viol("C02/recover-panicked", format!("recovery panicked: {}", p), json!({"collection": names()})),
    }
  });
  cx.count("rejected", n_err);
  cx.count("other_measurement_recovered", n_other_ok);
  cx.outcome(format!("t={} err", t));
  if n_other_ok > 0 {
    cx.outcome("other-measurement-ok");
  }
  cx.sample(json!({"t": t, "symbols": sym.len(), "rejected": n_err, "other_measurement_recovered": n_other_ok}));
}


/// Reports of NEIGHBOURING contexts never complete a sub-threshold collection: t-1 shares of A plus
/// shares of the same measurement under every epoch a canonicalisation could merge with A's (and of
/// every neighbouring measurement under A's epoch, and of neighbouring thresholds).
fn run_neighbour_contexts(cx: &mut CaseCx, case: &Value) {
  let t = case["t"].as_u64().unwrap() as u32;
  let bases: Vec<Vec<u8>> = vec![b"epoch".to_vec(), "caf\u{e9} ".as_bytes().to_vec(), vec![0x80], vec![0xff, 0xfe], vec![0, 0, 0, 254], vec![0xc3, 0x28], vec![], b"1".to_vec(), b"11".to_vec(), b"wk".to_vec(), b"wk1".to_vec()];
  let base = bases[case["b"].as_u64().unwrap() as usize % bases.len()].clone();
  let meas = b"https://example.com/a".to_vec();
  for as_epoch in [true, false] {
    let (m_a, e_a) = if as_epoch { (meas.clone(), base.clone()) } else { (base.clone(), b"e".to_vec()) };
    let a = match make_sharing(cx, "A", &m_a, &e_a, t, t as usize - 1, 1) {
      Some(a) => a,
      None => return,
    };
    let mut nbs: Vec<(String, Vec<u8>, Vec<u8>, u32)> = super::c04::neighbours(&base).into_iter().map(|(how, n)| if as_epoch { (format!("epoch: {}", how), m_a.clone(), n, t) } else { (format!("measurement: {}", how), n, e_a.clone(), t) }).collect();
    for t2 in [t + 1, t + 256, t + 65536, t << 8] {
      nbs.push((format!("threshold {} instead of {}", t2, t), m_a.clone(), e_a.clone(), t2));
    }
    // the boundary between measurement and epoch shifted by 1..3 bytes in either direction (an unframed
    // concatenation of the two merges these contexts with A's)
    for k in 1..=3usize {
      if e_a.len() >= k {
        nbs.push((format!("boundary shifted: the first {} epoch byte(s) appended to the measurement", k), [&m_a[..], &e_a[..k]].concat(), e_a[k..].to_vec(), t));
      }
      if m_a.len() >= k {
        nbs.push((format!("boundary shifted: the last {} measurement byte(s) prepended to the epoch", k), m_a[..m_a.len() - k].to_vec(), [&m_a[m_a.len() - k..], &e_a[..]].concat(), t));
      }
    }
    // contexts that a variable-width framing of (epoch, threshold) would merge with A's: only where A's own
    // (epoch, threshold) is one side of such a pair
    if as_epoch {
      for ((e1, t1), (e2, t2), how) in super::c04::framing_pairs() {
        if e1 == e_a && t1 == t && t2 <= 300 {
          nbs.push((how.clone(), m_a.clone(), e2.clone(), t2));
        } else if e2 == e_a && t2 == t && t1 <= 300 {
          nbs.push((how, m_a.clone(), e1, t1));
        }
      }
    }
    for (how, m_n, e_n, t_n) in nbs {
      // the neighbouring context has ANOTHER secret: otherwise its cohort, on reaching its own threshold, opens A's
      // reports (and the other way round)
      if t_n >= 1 && t_n <= 300 {
        if let Some(nb) = make_sharing(&mut cx.scratch(), "neighbour", &m_n, &e_n, t_n, 0, 9000) {
          cx.eval();
          if nb.secret == a.secret {
            cx.viol("C02/secret-shared-between-contexts", format!("the context of A (threshold {}) and a DIFFERENT context ({}; threshold {}) share one secret: whichever cohort reaches its own threshold first opens the other's reports although that one is still below its threshold", t, how, t_n), json!({"t": t, "A": {"measurement": hexs(&m_a), "epoch": hexs(&e_a)}, "other": {"measurement": hexs(&m_n), "epoch": hexs(&e_n), "threshold": t_n}, "relation": how}));
            return;
          }
          cx.count("neighbour_secrets_differ", 1);
        }
      }
      let rnd = local_randomness(&m_n, &e_n, t_n);
      // k shares of the neighbour complete t-k shares of A, k = 1..t-1, in both orders
      for k in 1..t as usize {
        let mut foreign = vec![];
        for i in 0..k {
          getrandom::verif::set_group(500 + i as u32);
          match gen_report(&m_n, &e_n, t_n, &rnd, &None) {
            Ok(r) => foreign.push(r.share),
            Err(_) => break,
          }
        }
        if foreign.len() != k {
          continue;
        }
        let own: Vec<sta_rs::Share> = a.shares.iter().take(t as usize - k).cloned().collect();
        for order in 0..2 {
          let coll: Vec<sta_rs::Share> = if order == 0 { own.iter().chain(foreign.iter()).cloned().collect() } else { foreign.iter().chain(own.iter()).cloned().collect() };
          cx.eval();
          cx.count("states", 1);
          cx.count("transitions", 1);
          cx.nontrivial(fnv_str(&format!("{}|{}|{}|{}|{}", case, as_epoch, how, k, order)));
          let d = || json!({"t": t, "A": {"measurement": hexs(&m_a), "epoch": hexs(&e_a)}, "neighbour": {"measurement": hexs(&m_n), "epoch": hexs(&e_n), "threshold": t_n}, "relation": how, "shares_of_A": t as usize - k, "shares_of_neighbour": k});
          match recover_msg(&coll) {
            Ok(Ok(m)) => {
              // the neighbour alone reaches its own threshold only if k >= t_n
              if m == a.secret {
                cx.viol("C02/secret-from-sub-threshold/neighbour-context", format!("{} share(s) of A plus {} share(s) reported under a DIFFERENT context ({}) recover A's secret: neither context reached its threshold", t as usize - k, k, how), d());
                return;
              } else if (k as u32) < t_n {
                cx.viol("C02/ok-without-any-threshold/neighbour-context", format!("recovery succeeds on {} share(s) of A plus {} share(s) of a different context ({}) although no context reaches its threshold", t as usize - k, k, how), d());
                return;
              }
            }
            Ok(Err(_)) => cx.count("rejected", 1),
            Err(p) => {
              cx.viol("C02/recover-panicked", p, d());
              return;
            }
          }
        }
      }
    }
  }
  cx.outcome(format!("t={} rejected", t));
  cx.sample(json!({"t": t, "base": hexs(&base)}));
}


/// Sharks level (the distinct-share counting in front of the interpolation): t-1 genuine shares padded with
/// anything that sits on an evaluation point ALREADY present never pass the count - exact copies, copies
/// whose y was altered, shares of another secret / another dealer at the same points - and, at the report
/// level, the same paddings never recover.
fn run_point_padding(cx: &mut CaseCx, case: &Value) {
  use core::convert::TryFrom;
  use star_sharks::{Share, Sharks};
  let t = case["t"].as_u64().unwrap() as u32;
  let tu = t as usize;
  let secret = rm::le24(&BigUint::from(0x5ec2e7u64)).to_vec();
  let other_secret = rm::le24(&BigUint::from(0xabcdefu64)).to_vec();
  cx.entropy(7);
  let own: Vec<Share> = match sharks_dealer(t, &secret) {
    Ok(d) => d.take(tu - 1).collect(),
    Err(_) => return,
  };
  let foreign: Vec<Share> = match sharks_dealer(t, &other_secret) {
    Ok(d) => d.take(tu - 1).collect(),
    Err(_) => return,
  };
  if own.iter().zip(foreign.iter()).any(|(a, b)| a.x != b.x) {
    cx.count("dealers_do_not_share_points", 1);
  }
  // padding alphabet: for every own share - exact copy, y altered in the lowest / highest byte, the other dealer's share at that point
  let mut pads: Vec<(String, Share)> = vec![];
  for (i, sh) in own.iter().enumerate() {
    pads.push((format!("exact copy of share {}", i), sh.clone()));
    let enc = Vec::<u8>::from(sh);
    for (what, at, bit) in [("lowest", 24usize, 1u8), ("middle", 32, 0x10), ("second highest", 39, 0x80)] {
      let mut b = enc.clone();
      b[at] ^= bit;
      if let Ok(f) = Share::try_from(b.as_slice()) {
        pads.push((format!("copy of share {} with its y altered ({} byte)", i, what), f));
      }
    }
    if i < foreign.len() && foreign[i].x == sh.x {
      pads.push((format!("another secret's share at the point of share {}", i), foreign[i].clone()));
    }
  }
  let np = pads.len();
  let mut colls: Vec<(Vec<usize>, usize)> = vec![]; // (pad indices, placement)
  for a in 0..np {
    for place in 0..3 {
      colls.push((vec![a], place));
    }
    for b in 0..np {
      colls.push((vec![a, b], 0));
      colls.push((vec![a, b], 1));
    }
  }
  for (pi, place) in colls {
    let padv: Vec<Share> = pi.iter().map(|&k| pads[k].1.clone()).collect();
    let coll: Vec<Share> = match place {
      0 => own.iter().cloned().chain(padv.iter().cloned()).collect(),
      1 => padv.iter().cloned().chain(own.iter().cloned()).collect(),
      _ => {
        let mut v = own.clone();
        v.insert(v.len() / 2, padv[0].clone());
        v
      }
    };
    cx.eval();
    cx.count("states", 1);
    cx.count("transitions", 1);
    cx.nontrivial(fnv_str(&format!("{}|{:?}|{}", t, pi, place)));
    let names: Vec<&str> = pi.iter().map(|&k| pads[k].0.as_str()).collect();
    let sharks = Sharks(t);
    match guard(|| sharks.recover(&coll).map_err(|e| e.to_string())) {
      Ok(Err(_)) => cx.count("rejected", 1),
      Ok(Ok(v)) => {
        cx.viol(
          if v == secret { "C02/secret-from-sub-threshold/point-padding" } else { "C02/ok-without-any-threshold/point-padding" },
          format!("Sharks({}).recover accepts {} genuine shares padded with [{}]: the collection holds only {} distinct evaluation points", t, tu - 1, names.join("; "), tu - 1),
          json!({"t": t, "padding": names, "placement": place, "returned_the_secret": v == secret}),
        );
        return;
      }
      Err(p) => {
        cx.viol("C02/recover-panicked", p, json!({"t": t, "padding": names}));
        return;
      }
    }
  }
  cx.outcome(format!("t={} rejected", t));
  cx.sample(json!({"t": t, "paddings": np}));
}


/// Coefficient census: the clause "non-constant coefficients are non-zero, pairwise distinct" over several
/// thousand sharings (a coefficient source that degenerates once in a few hundred draws shows here), and
/// the direct consequence: t-1 shares never interpolate to the sharing key.
fn run_coefficient_census(cx: &mut CaseCx, case: &Value) {
  let t = case["t"].as_u64().unwrap() as u32;
  let lo = case["lo"].as_u64().unwrap();
  let epoch = b"census".to_vec();
  let mut seen: HashMap<BigUint, u64> = HashMap::new();
  for i in lo..lo + 500 {
    let meas = format!("census-measurement-{}", i).into_bytes();
    let rnd = local_randomness(&meas, &epoch, t);
    let n = t as usize + 1;
    let mut pts: Vec<(BigUint, BigUint)> = vec![];
    for k in 0..n {
      getrandom::verif::set_group(k as u32 + 1);
      if let Ok(m) = gen_report(&meas, &epoch, t, &rnd, &None) {
        if let Some(p) = rm::parse_adss(&m.share.to_bytes()) {
          if let Some(y) = p.s.y.first() {
            pts.push((p.s.x.clone(), y.clone()));
          }
        }
      }
    }
    let mut xs: Vec<&BigUint> = pts.iter().map(|p| &p.0).collect();
    xs.sort();
    xs.dedup();
    if pts.len() != n || xs.len() != n {
      continue;
    }
    let coeffs = rm::interpolate_coeffs(&pts[..t as usize]);
    cx.eval();
    cx.count("sharings_examined", 1);
    cx.nontrivial(i ^ ((t as u64) << 32));
    let d = || json!({"measurement": format!("census-measurement-{}", i), "t": t});
    if rm::horner(&coeffs, &pts[t as usize].0) != pts[t as usize].1 {
      cx.viol("C02/poly/not-one-polynomial", "shares of one measurement do not lie on one polynomial of degree <= t-1", d());
      return;
    }
    for (j, c) in coeffs.iter().enumerate().skip(1) {
      if c.is_zero() {
        cx.viol(if j == t as usize - 1 { "C02/poly/degree-too-low" } else { "C02/poly/zero-coefficient" }, format!("census-measurement-{} (t={}): coefficient {} of the sharing polynomial is zero{}", i, t, j, if j == t as usize - 1 { " - the polynomial has degree < t-1, so t-1 shares determine the sharing key" } else { "" }), d());
        return;
      }
      if let Some(prev) = seen.insert(c.clone(), i) {
        cx.viol("C02/poly/coefficient-repeated", format!("a non-constant coefficient of census-measurement-{} also occurs in the polynomial of census-measurement-{}", i, prev), d());
        return;
      }
      cx.count("coefficients_examined", 1);
    }
    // consequence, checked directly: t-1 shares do not interpolate to the constant term
    if t >= 2 && rm::lagrange_at_zero(&pts[..t as usize - 1]) == coeffs[0] {
      cx.viol("C02/poly/degree-too-low", format!("census-measurement-{}: t-1 = {} shares interpolate to the sharing key", i, t - 1), d());
      return;
    }
  }
  cx.outcome(format!("t={}", t));
}

/// adss level: nothing of the message, the coins or the sharing key in the clear in an encoded share, for
/// every (message length, coins length) pair of a grid - in particular unequal lengths
fn run_adss_scan(cx: &mut CaseCx, case: &Value) {
  let ml = case["ml"].as_u64().unwrap() as usize;
  let lens = [0usize, 8, 16, 24, 31, 32, 33, 48, 64, 100, 166, 200];
  for &rl in &lens {
    for t in [1u32, 2, 3] {
      let m = prbytes(0x5CA0 + ml as u64, ml);
      let r = prbytes(0x5CA1 + rl as u64 * 7, rl);
      getrandom::verif::set_group(1);
      let share = match guard(|| adss::Commune::new(t, m.clone(), r.clone(), None).share().map_err(|e| e.to_string())) {
        Ok(Ok(s)) => s,
        _ => continue,
      };
      let enc = share.to_bytes();
      cx.eval();
      cx.nontrivial(fnv_str(&format!("{}|{}|{}", ml, rl, t)));
      for (what, secret) in [("message", &m), ("coins", &r)] {
        if secret.len() < 8 {
          continue;
        }
        for off in 0..=(secret.len() - 8) {
          if let Some(at) = enc.windows(8).position(|w| w == &secret[off..off + 8]) {
            cx.viol(format!("C02/secret-in-clear/adss-{}", what), format!("bytes {}..{} of the {} appear in the clear at offset {} of an encoded adss share (|M| = {}, |R| = {}, t = {})", off, off + 8, what, at, ml, rl, t), json!({"message_len": ml, "coins_len": rl, "t": t, "secret": what, "secret_offset": off, "share_offset": at}));
            return;
          }
        }
      }
      cx.count("adss_shares_scanned", 1);
    }
  }
  cx.outcome("adss scan");
}


/// adss level, caller-supplied transcripts: under ONE custom transcript the sharings of different (message,
/// coins) must still have different keys and different polynomials (the secrets must be bound into the
/// derivation whatever transcript the caller supplies) - otherwise shares of one sharing complete another
fn run_custom_transcripts(cx: &mut CaseCx, case: &Value) {
  use strobe_rs::{SecParam, Strobe};
  let t = case["t"].as_u64().unwrap() as u32;
  let mk = |which: u64| -> Option<Strobe> {
    match which {
      0 => None,
      1 => {
        let mut s = Strobe::new(b"adss", SecParam::B128);
        s.ad(b"context", false);
        Some(s)
      }
      2 => Some(Strobe::new(b"other protocol", SecParam::B128)),
      _ => {
        let mut s = Strobe::new(b"adss", SecParam::B128);
        s.meta_ad(b"x", false);
        Some(s)
      }
    }
  };
  let which = case["transcript"].as_u64().unwrap();
  let mut keys: HashMap<BigUint, String> = HashMap::new();
  let mut coeffs_seen: HashMap<BigUint, String> = HashMap::new();
  for i in 0..40u64 {
    // vary the message only, the coins only, both
    let (m, r) = match i % 3 {
      0 => (format!("message-{}", i).into_bytes(), b"fixed coins".to_vec()),
      1 => (b"fixed message".to_vec(), format!("coins-{}", i).into_bytes()),
      _ => (format!("message-{}", i).into_bytes(), format!("coins-{}", i).into_bytes()),
    };
    let name = format!("(message {:?}, coins {:?})", String::from_utf8_lossy(&m), String::from_utf8_lossy(&r));
    let mut pts: Vec<(BigUint, BigUint)> = vec![];
    for k in 0..t as usize + 1 {
      getrandom::verif::set_group(k as u32 + 1);
      match guard(|| adss::Commune::new(t, m.clone(), r.clone(), mk(which)).share().map_err(|e| e.to_string())) {
        Ok(Ok(sh)) => {
          if let Some(p) = rm::parse_adss(&sh.to_bytes()) {
            if let Some(y) = p.s.y.first() {
              pts.push((p.s.x.clone(), y.clone()));
            }
          }
        }
        _ => {}
      }
    }
    let mut xs: Vec<&BigUint> = pts.iter().map(|p| &p.0).collect();
    xs.sort();
    xs.dedup();
    if pts.len() != t as usize + 1 || xs.len() != pts.len() {
      continue;
    }
    let coeffs = rm::interpolate_coeffs(&pts[..t as usize]);
    cx.eval();
    cx.nontrivial(fnv_str(&format!("{}|{}|{}", which, t, i)));
    let d = || json!({"t": t, "transcript": which, "sharing": name});
    if let Some(prev) = keys.insert(coeffs[0].clone(), name.clone()) {
      cx.viol("C02/poly/key-shared-between-sharings", format!("under one caller-supplied transcript the sharings {} and {} have the SAME sharing key (constant term): the key does not depend on the message and the coins, so whoever knows the transcript knows the key and shares of one sharing complete the other", prev, name), d());
      return;
    }
    for c in coeffs.iter().skip(1) {
      if let Some(prev) = coeffs_seen.insert(c.clone(), name.clone()) {
        cx.viol("C02/poly/coefficient-repeated", format!("under one caller-supplied transcript a non-constant coefficient of {} also occurs in the polynomial of {}", name, prev), d());
        return;
      }
    }
    cx.count("transcript_sharings_examined", 1);
  }
  cx.outcome(format!("t={} transcript={}", t, which));
}


/// sharks level: secrets whose ELEMENTS have special values (an aligned all-zero chunk, one, p-1, repeated) -
/// every element's polynomial has exact degree t-1 with non-zero, pairwise distinct non-constant coefficients,
/// and no single share carries a secret element as its value
fn run_special_secrets(cx: &mut CaseCx, case: &Value) {
  use star_sharks::{Share, Sharks};
  let t = case["t"].as_u64().unwrap() as u32;
  let p = rm::p();
  let one = BigUint::from(1u32);
  let specials: Vec<Vec<BigUint>> = vec![
    vec![BigUint::zero()],
    vec![BigUint::zero(), BigUint::zero()],
    vec![BigUint::from(7u32), BigUint::zero(), BigUint::from(9u32)],
    vec![BigUint::zero(), BigUint::from(7u32)],
    vec![one.clone()],
    vec![&p - &one, BigUint::zero(), &p - &one],
    vec![BigUint::from(5u32), BigUint::from(5u32), BigUint::from(5u32)],
    vec![&one << 64usize, BigUint::zero()],
  ];
  for elems in specials {
    let mut secret = vec![];
    for e in &elems {
      secret.extend_from_slice(&rm::le24(e));
    }
    cx.entropy(fnv(&secret) ^ t as u64);
    let shares: Vec<Share> = match guard(|| sharks_dealer(t, &secret).map(|d| d.take(t as usize + 1).collect::<Vec<Share>>())) {
      Ok(Ok(s)) => s,
      _ => continue,
    };
    if shares.len() != t as usize + 1 {
      continue;
    }
    cx.eval();
    cx.nontrivial(fnv(&secret) ^ ((t as u64) << 40));
    let names: Vec<String> = elems.iter().map(|e| e.to_string()).collect();
    let d = || json!({"t": t, "secret_elements": names});
    let mut seen: HashMap<BigUint, usize> = HashMap::new();
    for (j, e) in elems.iter().enumerate() {
      let pts: Vec<(BigUint, BigUint)> = shares.iter().map(|s| (fp_to_big(&s.x), s.y.get(j).map(fp_to_big).unwrap_or_default())).collect();
      let coeffs = rm::interpolate_coeffs(&pts[..t as usize]);
      if coeffs[0] != *e || rm::horner(&coeffs, &pts[t as usize].0) != pts[t as usize].1 {
        cx.viol("C02/poly/not-one-polynomial", format!("element {} of the secret {:?}: the shares are not on one polynomial of degree <= t-1 with that constant term", j, names), d());
        return;
      }
      for (i, c) in coeffs.iter().enumerate().skip(1) {
        if c.is_zero() {
          cx.viol(if i == t as usize - 1 { "C02/poly/degree-too-low" } else { "C02/poly/zero-coefficient" }, format!("element {} (value {}) of the secret {:?} is shared with a polynomial whose coefficient {} is zero{}", j, e, names, i, if t >= 2 { ": fewer than t shares determine it (for a constant polynomial a single share carries the element itself)" } else { "" }), d());
          return;
        }
        if let Some(prev) = seen.insert(c.clone(), j) {
          cx.viol("C02/poly/coefficient-repeated", format!("elements {} and {} of the secret {:?} are shared with the same non-constant coefficient", prev, j, names), d());
          return;
        }
      }
      // no single share carries the element as its value (t >= 2)
      if t >= 2 {
        if let Some(k) = pts.iter().position(|q| q.1 == *e) {
          cx.viol("C02/share-carries-secret", format!("share number {} carries element {} (value {}) of the secret {:?} in the clear", k + 1, j, e, names), d());
          return;
        }
      }
      cx.count("special_elements_examined", 1);
    }
  }
  cx.outcome(format!("t={}", t));
}

/// E-env: the caller's entropy answers with a RUN of zeros (1..16 all-zero 24-byte candidates, then fresh): the
/// share point must never be x = 0 (the value at 0 is the sharing key itself) and the share must not carry the
/// sharing key as its value
fn run_zero_entropy_runs(cx: &mut CaseCx, case: &Value) {
  let t = case["t"].as_u64().unwrap() as u32;
  let meas = b"zero entropy runs".to_vec();
  let epoch = b"e".to_vec();
  let rnd = local_randomness(&meas, &epoch, t);
  // the sharing key, from t honest reports
  let mut pts: Vec<(BigUint, BigUint)> = vec![];
  for k in 0..t {
    getrandom::verif::set_group(k + 1);
    if let Ok(m) = gen_report(&meas, &epoch, t, &rnd, &None) {
      if let Some(p) = rm::parse_adss(&m.share.to_bytes()) {
        if let Some(y) = p.s.y.first() {
          pts.push((p.s.x.clone(), y.clone()));
        }
      }
    }
  }
  if pts.len() != t as usize {
    return;
  }
  let key = rm::lagrange_at_zero(&pts);
  for run in [1usize, 2, 3, 7, 8, 9, 15, 16, 33] {
    getrandom::verif::set_script(&vec![0u8; 24 * run]);
    let r = gen_report(&meas, &epoch, t, &rnd, &None);
    getrandom::verif::clear_script();
    cx.eval();
    cx.nontrivial(fnv_str(&format!("{}|{}", t, run)));
    match r {
      Ok(m) => {
        if let Some(p) = rm::parse_adss(&m.share.to_bytes()) {
          if p.s.x.is_zero() || p.s.y.first() == Some(&key) {
            cx.viol("C02/share-carries-secret/zero-entropy-run", format!("a client whose entropy source answers with {} all-zero candidates in a row produces the share at x = {} whose value is the sharing key itself (threshold {})", run, p.s.x, t), json!({"t": t, "zero_candidates": run}));
            return;
          }
          cx.count("zero_runs_survived", 1);
        }
      }
      // refusing to produce a share under a broken entropy source is acceptable
      Err(_) => cx.count("zero_runs_refused", 1),
    }
  }
  cx.outcome(format!("t={}", t));
}

/// forged threshold field on sub-threshold collections of A's own shares
fn run_forged(cx: &mut CaseCx, case: &Value) {
  let t = case["t"].as_u64().unwrap() as u32;
  let tu = t as usize;
  let meas = meas_alphabet(true)[case["m"].as_u64().unwrap() as usize].clone();
  let epoch = epoch_alphabet(true)[case["e"].as_u64().unwrap() as usize].clone();
  let a = match make_sharing(cx, "A", &meas, &epoch, t, tu + 1, 1) {
    Some(s) => s,
    None => return,
  };
  let mut forged_vals: Vec<u32> = (0..t).collect();
  forged_vals.extend([t + 1, t + 2, 255, 256, 65536 + t, u32::MAX]);
  let exhaustive = tu <= 4;
  let mut sels: Vec<Vec<usize>> = vec![];
  if exhaustive {
    for_each_seq(tu + 1, tu + 1, |s| {
      if !s.is_empty() && distinct(&a.xs, s) < tu {
        sels.push(s.to_vec());
      }
    });
  } else {
    // structured: every (t-1)-subset prefix padded with duplicates
    sels.push((0..tu - 1).collect());
    let mut v: Vec<usize> = (0..tu - 1).collect();
    v.push(0);
    v.push(tu - 2);
    sels.push(v);
    sels.push((1..tu).rev().collect());
    sels.push(vec![0]);
    sels.push(vec![0, 0]);
  }
  for sel in &sels {
    for &fv in &forged_vals {
      for mode in ["first", "all", "all-but-first", "last"] {
        let mut shares = vec![];
        for (pos, &i) in sel.iter().enumerate() {
          let forge = match mode {
            "first" => pos == 0,
            "all" => true,
            "all-but-first" => pos != 0,
            _ => pos == sel.len() - 1,
          };
          if forge {
            let mut b = a.shares[i].to_bytes();
            b[..4].copy_from_slice(&fv.to_le_bytes());
            match sta_rs::Share::from_bytes(&b) {
              Some(s) => shares.push(s),
              None => {
                cx.count("forged_share_undecodable", 1);
                shares.clear();
                break;
              }
            }
          } else {
            shares.push(a.shares[i].clone());
          }
        }
        if shares.is_empty() {
          continue;
        }
        let res = recover_msg(&shares);
        cx.eval();
        cx.count("states", 1);
        cx.count("transitions", 1);
        cx.nontrivial(fnv_str(&format!("{}|{:?}|{}|{}", case, sel, fv, mode)));
        match res {
          Ok(Err(_)) => cx.count("rejected", 1),
          Ok(Ok(m)) => cx.viol(
            if m == a.secret { "C02/forged-threshold-reveals-secret" } else { "C02/forged-threshold-ok" },
            format!("recovery succeeded on {} distinct shares (< t={}) after rewriting the threshold field to {} ({})", distinct(&a.xs, sel), t, fv, mode),
            json!({"sel": sel, "forged_threshold": fv, "mode": mode, "secret_revealed": m == a.secret}),
          ),
          Err(p) => cx.viol("C02/recover-panicked", format!("recovery panicked on a forged threshold: {}", p), json!({"sel": sel, "forged_threshold": fv, "mode": mode})),
        }
      }
    }
  }
  cx.outcome(format!("t={} forged", t));
  cx.sample(json!({"t": t, "selections": sels.len(), "forged_values": forged_vals}));
}
fn distinct(xs: &[BigUint], sel: &[usize]) -> usize {
  super::c01::distinct_x(xs, sel)
}

fn find(hay: &[u8], needle: &[u8]) -> Option<usize> {
  if needle.is_empty() || hay.len() < needle.len() {
    return None;
  }
  hay.windows(needle.len()).position(|w| w == needle)
}

/// no secret of the client appears in the clear in an encoded report
fn run_scan(cx: &mut CaseCx, case: &Value) {
  let t = case["t"].as_u64().unwrap() as u32;
  let meas = meas_alphabet(true)[case["m"].as_u64().unwrap() as usize].clone();
  let epoch = epoch_alphabet(true)[case["e"].as_u64().unwrap() as usize].clone();
  let rnd = local_randomness(&meas, &epoch, t);
  let auxa = aux_alphabet();
  let n = t as usize + 1;
  let mut msgs = vec![];
  for i in 0..n {
    getrandom::verif::set_group(i as u32 + 1);
    match gen_report(&meas, &epoch, t, &rnd, &auxa[i % auxa.len()]) {
      Ok(m) => msgs.push(m),
      Err(e) => {
        cx.viol("C02/generate-failed", e, json!({}));
        return;
      }
    }
  }
  let shares: Vec<sta_rs::Share> = msgs.iter().map(|m| m.share.clone()).collect();
  let r0 = match recover_msg(&shares) {
    Ok(Ok(m)) => m,
    _ => return,
  };
  let mut secrets: Vec<(&str, Vec<u8>)> = vec![("client randomness", rnd.to_vec()), ("r0 (shared message / key seed)", r0.clone())];
  // r1 / r2 through the public derivation helper; used only if it self-validates
  let mut derived = vec![];
  for i in 0..3u8 {
    let mut out = [0u8; 32];
    if guard(|| sta_rs::strobe_digest(&rnd, &[&[i]], "star_derive_randoms", &mut out)).is_ok() {
      derived.push(out.to_vec());
    }
  }
  if derived.len() == 3 && derived[0] == r0 && derived[2] == msgs[0].tag {
    secrets.push(("r1 (coins)", derived[1].clone()));
  } else {
    cx.count("coins_unobservable", 1);
    cx.note("coins r1 could not be re-derived through the public helper (derivation changed?): scanned secrets exclude r1 in those cases");
  }
  let mut key = vec![0u8; 16];
  sta_rs::derive_ske_key(&r0, &epoch, &mut key);
  secrets.push(("payload encryption key", key));
  // sharing key K: reference interpolation at zero of the parsed Shamir points
  let parsed: Vec<rm::AdssShare> = shares.iter().filter_map(|s| rm::parse_adss(&s.to_bytes())).collect();
  if parsed.len() == n && parsed.iter().all(|s| s.s.y.len() == 1) {
    let pts: Vec<(BigUint, BigUint)> = parsed.iter().take(t as usize).map(|s| (s.s.x.clone(), s.s.y[0].clone())).collect();
    let k = rm::le24(&rm::lagrange_at_zero(&pts));
    secrets.push(("sharing key K", k[..16].to_vec()));
    if k[16..] != [0u8; 8] {
      cx.viol("C02/constant-term-shape", "constant term of the sharing polynomial is not K || 0^8", json!({"constant": hex(&k)}));
    }
  }
  if meas.len() >= 16 {
    secrets.push(("measurement", meas.clone()));
  }
  for (i, m) in msgs.iter().enumerate() {
    let enc = m.to_bytes();
    for (name, s) in &secrets {
      cx.eval();
      cx.nontrivial(fnv_str(&format!("{}|{}|{}", case, i, name)));
      // every >=16-byte window of the secret against every offset of the report
      let w = 16.min(s.len());
      for off in 0..=(s.len() - w) {
        if let Some(at) = find(&enc, &s[off..off + w]) {
          cx.viol(format!("C02/secret-in-clear/{}", name.split(' ').next().unwrap()), format!("{} (bytes {}..{}) appears in the clear at offset {} of the encoded report", name, off, off + w, at), json!({"report": i, "secret": name, "offset": at}));
          break;
        }
      }
    }
    if m.tag == r0 || m.tag == rnd.to_vec() {
      cx.viol("C02/tag-equals-secret", "the report tag equals a secret derivation value", json!({"report": i}));
    }
  }
  cx.outcome(format!("scanned {} secrets", secrets.len()));
  cx.sample(json!({"t": t, "secrets": secrets.iter().map(|s| s.0).collect::<Vec<_>>(), "report_len": msgs[0].to_bytes().len()}));
}

/// exact degree t-1, non-zero pairwise distinct coefficients, disjoint between measurements
fn run_poly(cx: &mut CaseCx, case: &Value) {
  let ts: Vec<u32> = case["ts"].as_array().unwrap().iter().map(|v| v.as_u64().unwrap() as u32).collect();
  let ms = meas_alphabet(true);
  let es = epoch_alphabet(true);
  let mut seen: HashMap<BigUint, String> = HashMap::new();
  for &t in &ts {
    for mi in [1usize, 4, 10] {
      for ei in [0usize, 1] {
        let name = format!("t={} m#{} e#{}", t, mi, ei);
        let rnd = local_randomness(&ms[mi], &es[ei], t);
        let n = t as usize + 2;
        let mut shares_xy: Vec<(BigUint, Vec<BigUint>)> = vec![];
        for i in 0..n {
          getrandom::verif::set_group(i as u32 + 1);
          let m = match gen_report(&ms[mi], &es[ei], t, &rnd, &None) {
            Ok(m) => m,
            Err(e) => {
              cx.viol("C02/generate-failed", e, json!({"cfg": name}));
              return;
            }
          };
          let p = match rm::parse_adss(&m.share.to_bytes()) {
            Some(p) if !p.s.y.is_empty() => p,
            _ => {
              cx.viol("C02/share-layout", "share does not parse to an x and at least one y", json!({"cfg": name}));
              return;
            }
          };
          shares_xy.push((p.s.x, p.s.y));
        }
        let width = shares_xy[0].1.len();
        if shares_xy.iter().any(|s| s.1.len() != width) {
          cx.viol("C02/share-layout", "shares of one sharing carry different numbers of values", json!({"cfg": name}));
          return;
        }
        let mut xs: Vec<&BigUint> = shares_xy.iter().map(|p| &p.0).collect();
        xs.sort();
        xs.dedup();
        if xs.len() != n {
          cx.count("point_collision_skipped", 1);
          continue;
        }
        cx.eval();
        cx.nontrivial(fnv_str(&name));
        // one polynomial per value position; ALL their non-constant coefficients must be pairwise distinct
        for j in 0..width {
          let pts: Vec<(BigUint, BigUint)> = shares_xy.iter().map(|s| (s.0.clone(), s.1[j].clone())).collect();
          let coeffs = rm::interpolate_coeffs(&pts[..t as usize]);
          for extra in &pts[t as usize..] {
            if rm::horner(&coeffs, &extra.0) != extra.1 {
              cx.viol("C02/poly/not-one-polynomial", format!("{}: shares of one measurement do not lie on one polynomial of degree <= t-1", name), json!({"cfg": name, "value_position": j}));
            }
          }
          if t >= 2 && coeffs[t as usize - 1].is_zero() {
            cx.viol("C02/poly/degree-too-low", format!("{}: leading coefficient is zero (degree < t-1)", name), json!({"cfg": name, "value_position": j}));
          }
          if t >= 2 {
            let low = rm::interpolate_coeffs(&pts[..t as usize - 1]);
            if rm::horner(&low, &pts[t as usize - 1].0) == pts[t as usize - 1].1 {
              cx.viol("C02/poly/degree-too-low", format!("{}: t-1 shares already determine the polynomial (degree < t-1)", name), json!({"cfg": name, "value_position": j}));
            }
          }
          for (i, c) in coeffs.iter().enumerate().skip(1) {
            if c.is_zero() {
              cx.viol("C02/poly/zero-coefficient", format!("{}: coefficient of x^{} is zero", name, i), json!({"cfg": name, "degree": i}));
            }
            if let Some(prev) = seen.insert(c.clone(), format!("{} value {} x^{}", name, j, i)) {
              cx.viol("C02/poly/coefficient-reused", format!("{}: coefficient of x^{} (value position {}) equals coefficient {}", name, i, j, prev), json!({"cfg": name, "degree": i, "other": prev}));
            }
          }
          if j == 0 && width == 1 && coeffs[0].bits() > 128 {
            cx.viol("C02/constant-term-shape", format!("{}: constant term is not K || 0^8", name), json!({"cfg": name}));
          }
        }
        cx.outcome(format!("degree {}", t - 1));
      }
    }
  }
  cx.sample(json!({"thresholds": ts, "distinct_nonconstant_coefficients": seen.len()}));
}


/// clients that reuse ONE generator object for several measurements must not tie the measurements together
fn run_generator_reuse(cx: &mut CaseCx, case: &Value) {
  use sta_rs::{Message, MessageGenerator, SingleMeasurement};
  let t = case["t"].as_u64().unwrap() as u32;
  let x = b"measurement X".to_vec();
  let y = b"measurement Y (another one)".to_vec();
  let epoch = b"e".to_vec();
  let report = |mg: &MessageGenerator| -> Option<Message> {
    let mut rnd = [0u8; 32];
    guard(|| mg.sample_local_randomness(&mut rnd)).ok()?;
    guard(|| Message::generate(mg, &rnd, None).ok()).ok().flatten()
  };
  // t-1 reports of X from fresh generators, then Y's reports from a generator that served X before
  let mut xs = vec![];
  for _ in 0..t - 1 {
    xs.push(report(&MessageGenerator::new(SingleMeasurement::new(&x), t, &epoch)));
  }
  let mut mg = MessageGenerator::new(SingleMeasurement::new(&x), t, &epoch);
  let _warm = report(&mg);
  mg.x = SingleMeasurement::new(&y);
  let mut ys = vec![];
  for _ in 0..t - 1 {
    ys.push(report(&mg));
  }
  let pool: Vec<sta_rs::Share> = xs.into_iter().chain(ys.into_iter()).flatten().map(|m| m.share).collect();
  if pool.len() != 2 * (t as usize - 1) {
    return;
  }
  // neither X (t-1 reports) nor Y (t-1 reports) reaches the threshold: every sequence must fail
  for_each_seq(pool.len(), (t as usize + 1).min(5), |seq| {
    if seq.is_empty() {
      return;
    }
    let shares: Vec<sta_rs::Share> = seq.iter().map(|&i| pool[i].clone()).collect();
    cx.eval();
    cx.count("states", 1);
    cx.count("transitions", 1);
    cx.nontrivial(fnv_str(&format!("{}|{:?}", t, seq)));
    match recover_msg(&shares) {
      Ok(Err(_)) => cx.count("rejected", 1),
      Ok(Ok(_)) => cx.viol("C02/ok-without-any-threshold", format!("t-1 reports of X plus t-1 reports of Y (Y's from a generator object that reported X before): recovery succeeded although no measurement reaches the threshold {}", t), json!({"t": t, "collection": seq.iter().map(|&i| if i < t as usize - 1 { format!("X#{}", i) } else { format!("Y#{}", i + 1 - t as usize) }).collect::<Vec<_>>()})),
      Err(p) => cx.viol("C02/recover-panicked", p, json!({"t": t})),
    }
  });
  cx.outcome(format!("generator reuse t={}", t));
}

/// every payload length: no 16-byte window of the measurement in the clear (all lengths 16..=400 once)
fn run_length_sweep(cx: &mut CaseCx, case: &Value) {
  let lo = case["lo"].as_u64().unwrap() as usize;
  for len in lo..lo + 32 {
    for aux in [None, Some(prbytes(len as u64, 24))] {
      let meas = prbytes(0x5CA + len as u64, len);
      let rnd = local_randomness(&meas, b"e", 2);
      let msg = match gen_report(&meas, b"e", 2, &rnd, &aux) {
        Ok(m) => m,
        Err(e) => {
          cx.viol("C02/generate-failed", e, json!({"len": len}));
          continue;
        }
      };
      let enc = msg.to_bytes();
      cx.eval();
      cx.nontrivial(fnv(&enc));
      for (what, secret) in [("measurement", &meas), ("associated data", aux.as_ref().unwrap_or(&vec![]))] {
        if secret.len() < 16 {
          continue;
        }
        for off in 0..=(secret.len() - 16) {
          if let Some(at) = find(&enc, &secret[off..off + 16]) {
            cx.viol(format!("C02/secret-in-clear/{}", what.split(' ').next().unwrap()), format!("{} bytes {}..{} appear in the clear at offset {} of the encoded report (measurement length {}, payload length {})", what, off, off + 16, at, len, 4 + len + aux.as_ref().map(|a| 4 + a.len()).unwrap_or(0)), json!({"measurement_len": len, "aux_len": aux.as_ref().map(|a| a.len()), "offset": at}));
            break;
          }
        }
      }
    }
  }
  cx.outcome("length sweep");
}


/// sharings whose message||coins bytes coincide at a different split must stay separate (adss level)
fn run_boundary_shift(cx: &mut CaseCx, case: &Value) {
  use adss::{Commune, Share};
  let t = case["t"].as_u64().unwrap() as u32;
  let k = case["k"].as_u64().unwrap() as usize;
  let m1 = prbytes(0xB0, 16);
  let r1 = prbytes(0xB1, 40);
  let m2 = [&m1[..], &r1[..k]].concat();
  let r2 = r1[k..].to_vec();
  let mk = |m: &Vec<u8>, r: &Vec<u8>, n: usize| -> Vec<Share> { (0..n).filter_map(|_| guard(|| Commune::new(t, m.clone(), r.clone(), None).share().ok()).ok().flatten()).collect() };
  let a = mk(&m1, &r1, t as usize - 1);
  let b = mk(&m2, &r2, t as usize - 1);
  if a.len() + b.len() != 2 * (t as usize - 1) {
    return;
  }
  let pool: Vec<&Share> = a.iter().chain(b.iter()).collect();
  for_each_seq(pool.len(), (t as usize + 1).min(5), |seq| {
    if seq.is_empty() {
      return;
    }
    let sh: Vec<Share> = seq.iter().map(|&i| pool[i].clone()).collect();
    cx.eval();
    cx.count("states", 1);
    cx.count("transitions", 1);
    cx.nontrivial(fnv_str(&format!("{}|{}|{:?}", t, k, seq)));
    match guard(|| adss::recover(&sh).map(|c| c.get_message()).map_err(|e| e.to_string())) {
      Ok(Err(_)) => cx.count("rejected", 1),
      Ok(Ok(m)) => cx.viol("C02/ok-without-any-threshold", format!("t-1 shares of (M1, R1) and t-1 shares of (M1 || R1[..{}], R1[{}..]) - two different sharings whose message||coins bytes coincide - recover {} although neither reaches the threshold {}", k, k, if m == m1 { "M1" } else { "a message" }, t), json!({"t": t, "split_shift": k, "collection": seq})),
      Err(p) => cx.viol("C02/recover-panicked", p, json!({"t": t})),
    }
  });
  cx.outcome("boundary shift");
}

/// the dealer behind iterator adapters never deals the point 0 (which carries the secret in the clear)
fn run_dealer_adapters(cx: &mut CaseCx, _case: &Value) {
  use star_sharks::{Share, Sharks};
  for t in [2u32, 3, 5] {
    let secret = crate::refmodel::le24(&num_bigint::BigUint::from(0x5ec2e7u64)).to_vec();
    let mk = || sharks_dealer(t, &secret).ok();
    let shapes: Vec<(&str, Box<dyn Fn() -> Option<Vec<Share>>>)> = vec![
      ("nth(0) on a fresh dealer", Box::new(|| mk().map(|mut d| d.nth(0).into_iter().collect()))),
      ("nth(1) on a fresh dealer", Box::new(|| mk().map(|mut d| d.nth(1).into_iter().collect()))),
      ("skip(0).take(2)", Box::new(|| mk().map(|d| d.skip(0).take(2).collect()))),
      ("step_by(1).take(2)", Box::new(|| mk().map(|d| d.step_by(1).take(2).collect()))),
      ("next, then nth(0)", Box::new(|| mk().map(|mut d| { let a = d.next(); a.into_iter().chain(d.nth(0)).collect() }))),
      ("take(1), then skip(1).take(1)", Box::new(|| mk().map(|mut d| { let a: Vec<Share> = d.by_ref().take(1).collect(); a.into_iter().chain(d.skip(1).take(1)).collect() }))),
    ];
    for (name, f) in shapes {
      cx.eval();
      cx.nontrivial(fnv_str(&format!("{}|{}", t, name)));
      match guard(|| f()) {
        Ok(Some(shares)) => {
          let xs: Vec<num_bigint::BigUint> = shares.iter().map(|s| fp_to_big(&s.x)).collect();
          for (i, sh) in shares.iter().enumerate() {
            let enc = Vec::<u8>::from(sh);
            if xs[i] == num_bigint::BigUint::from(0u32) || enc[24..] == secret[..] {
              cx.viol("C02/share-carries-secret", format!("t={}: the dealer used through {} dealt the share (x = {}) whose value is the secret itself", t, name, xs[i]), json!({"t": t, "usage": name}));
            }
            if xs[..i].contains(&xs[i]) {
              cx.viol("C02/dealer-repeats-point", format!("t={}: the dealer used through {} dealt x = {} twice", t, name, xs[i]), json!({"t": t, "usage": name}));
            }
          }
          cx.count("adapter_usages", 1);
        }
        _ => {}
      }
    }
  }
}

fn gen_mix(tier: Tier) -> Vec<Value> {
  let mut v = vec![];
  let ts: &[u64] = if tier.thorough() { &[2, 3, 4] } else { &[2, 3] };
  for &t in ts {
    let cfgs: Vec<(usize, usize)> = if t == 4 { vec![(4, 1)] } else if tier.thorough() { vec![(0, 0), (1, 1), (4, 2), (7, 0), (12, 1)] } else { vec![(0, 0), (4, 1), (7, 2)] };
    let parts = match t {
      2 => 1,
      3 => 8,
      _ => 64,
    };
    for (m, e) in cfgs {
      for part in 0..parts {
        v.push(json!({"t": t, "m": m, "e": e, "part": part, "parts": parts}));
      }
    }
  }
  v
}
fn gen_forged(tier: Tier) -> Vec<Value> {
  let mut v = vec![];
  let ts: &[u64] = if tier.thorough() { &[2, 3, 4, 5, 6, 34, 64] } else { &[2, 3, 4, 64] };
  for &t in ts {
    for (m, e) in [(0usize, 0usize), (4, 1)] {
      v.push(json!({"t": t, "m": m, "e": e}));
    }
  }
  v
}
fn gen_scan(tier: Tier) -> Vec<Value> {
  let mut v = vec![];
  let nm = meas_alphabet(true).len();
  let ne = if tier.thorough() { epoch_alphabet(true).len() } else { 3 };
  for t in [2u64, 3, 5] {
    for m in 0..nm {
      for e in 0..ne {
        v.push(json!({"t": t, "m": m, "e": e}));
      }
    }
  }
  v
}

pub fn spec() -> PropSpec {
  PropSpec {
    id: "C02",
    level: "model_checking",
    assumptions: vec![
      "cryptographic strength of Strobe/Keccak (MAC unforgeability, PRF outputs) is the trusted base: decided are the structural consequences (no recovery below threshold on every enumerated collection, no secret in the clear at any offset, polynomial shape)",
      "a coincidental 16-byte match of a secret window inside random report bytes has probability < 2^-100 per comparison",
      "collection lengths are bounded by t+2; thresholds by the listed ones",
    ],
    thorough_budget_s: 1500,
    checks: vec![
      Check {
        name: "mixtures",
        rule: "alphabet = t+1 shares of A + t shares of another measurement B + t-1 shares of C + 1 share each of A under another epoch / threshold t+1 / threshold t-1; EVERY sequence of length 1..t+2 over that alphabet in which A has < t distinct shares is handed to share_recover: must never return A's secret, and must be Err unless some other sharing reaches its own threshold; non-trivial = every such sequence",
        gen: gen_mix,
        run: run_mix,
        min_counts: &[("rejected", 1000)],
      },
      Check {
        name: "neighbour-contexts",
        rule: "t in {2,3}; A = t-1 honest shares under 7 base strings (text, accented+padded, invalid UTF-8, binary counter, empty) used as epoch and as measurement; for EVERY neighbouring context (each single-bit flip, appended / prepended bytes, dropped bytes, case folding, BOM, U+FFFD, lossy UTF-8, NFC/NFD, trimming; thresholds t+1, t+256, t+65536, t<<8) k = 1..t-1 shares of the neighbour complete t-k shares of A, both orders: never A's secret, never Ok",
        gen: |_| {
          let mut v = vec![];
          for t in [2u64, 3] {
            for b in 0..11u64 {
              v.push(json!({"t": t, "b": b}));
            }
          }
          v
        },
        run: run_neighbour_contexts,
        min_counts: &[("rejected", 3000)],
      },
      Check {
        name: "point-padding",
        rule: "sharks level, t in {2,3,4,5,9}: t-1 genuine shares padded with every 1- and 2-element combination of {exact copy, copy with y altered in the lowest / a middle / the top byte, another secret's share at the same point} of each share, appended / prepended / inserted: Sharks::recover must be Err (only t-1 distinct evaluation points)",
        gen: |_| [2u64, 3, 4, 5, 9].iter().map(|t| json!({"t": t})).collect(),
        run: run_point_padding,
        min_counts: &[("rejected", 500)],
      },
      Check {
        name: "coefficient-census",
        rule: "the polynomial clause over 2000 sharings per threshold (t in {2,3,4}; thorough 8000): all coefficients interpolated by the big-integer model from t shares (a further share on the polynomial): every non-constant coefficient non-zero and pairwise distinct across the sharings of a batch of 500, and t-1 shares never interpolate to the constant term",
        gen: |tier| {
          let mut v = vec![];
          for t in [2u64, 3, 4] {
            for c in 0..(if tier.thorough() { 16u64 } else { 4 }) {
              v.push(json!({"t": t, "lo": c * 500}));
            }
          }
          v
        },
        run: run_coefficient_census,
        min_counts: &[("sharings_examined", 5000), ("coefficients_examined", 10_000)],
      },
      Check {
        name: "adss-share-scan",
        rule: "adss level: (|M|, |R|) over {0,8,16,24,31,32,33,48,64,100,166,200}^2 x t in {1,2,3}: every 8-byte window of the message and of the coins against every offset of the encoded share (unequal lengths in particular)",
        gen: |_| [0u64, 8, 16, 24, 31, 32, 33, 48, 64, 100, 166, 200].iter().map(|l| json!({"ml": l})).collect(),
        run: run_adss_scan,
        min_counts: &[("adss_shares_scanned", 400)],
      },
      Check {
        name: "custom-transcripts",
        rule: "adss level, t in {2,3}, the default transcript and 3 caller-supplied ones: 40 sharings per transcript that differ in the message only, the coins only, or both: sharing keys (constant terms, model interpolation) pairwise distinct and non-constant coefficients pairwise distinct - the secrets are bound into the derivation whatever transcript the caller supplies",
        gen: |_| {
          let mut v = vec![];
          for t in [2u64, 3] {
            for w in 0..4u64 {
              v.push(json!({"t": t, "transcript": w}));
            }
          }
          v
        },
        run: run_custom_transcripts,
        min_counts: &[("transcript_sharings_examined", 300)],
      },
      Check {
        name: "special-secrets",
        rule: "sharks level, t in {2,3,5}: secrets whose elements are special values (an aligned all-zero chunk alone / twice / between others, one, p-1, a repeated value, 2^64): every element's polynomial (model interpolation from t shares, a further share on it) has non-zero, pairwise distinct non-constant coefficients and no single share carries an element as its value",
        gen: |_| [2u64, 3, 5].iter().map(|t| json!({"t": t})).collect(),
        run: run_special_secrets,
        min_counts: &[("special_elements_examined", 40)],
      },
      Check {
        name: "zero-entropy-runs",
        rule: "E-env with a deviation RUN: the client's entropy source answers with 1, 2, 3, 7, 8, 9, 15, 16, 33 all-zero 24-byte candidates in a row (then fresh), t in {2,3}: the share is never at x = 0 and never carries the sharing key (a refusal is acceptable)",
        gen: |_| [2u64, 3].iter().map(|t| json!({"t": t})).collect(),
        run: run_zero_entropy_runs,
        min_counts: &[("zero_runs_survived", 10)],
      },
      Check {
        name: "forged-thresholds",
        rule: "every sequence over A's t+1 shares with < t distinct (structured family for t > 4) x threshold field rewritten on the encoded share to each of {0..t-1, t+1, t+2, 255, 256, 65536+t, 2^32-1} x {first share, all, all but first, last}: must be Err",
        gen: gen_forged,
        run: run_forged,
        min_counts: &[("rejected", 1000)],
      },
      Check {
        name: "secret-scan",
        rule: "every report of every configuration (t x all measurements x epochs, aux round-robin): every 16-byte window of client randomness, r0, r1, sharing key K, payload key and the measurement against every byte offset of Message::to_bytes; distinct = (configuration, report, secret)",
        gen: gen_scan,
        run: run_scan,
        min_counts: &[("evaluations", 500)],
      },
      Check {
        name: "generator-reuse",
        rule: "history on one generator object: it reports X, its measurement field is reassigned to Y, it reports Y t-1 times; together with t-1 fresh reports of X every sequence (length <= t+1) must fail - neither measurement reaches the threshold",
        gen: |_| (2..=4u64).map(|t| json!({"t": t})).collect(),
        run: run_generator_reuse,
        min_counts: &[("rejected", 100)],
      },
      Check {
        name: "boundary-shifted-sharings",
        rule: "adss level: sharings (M1, R1) and (M1 || R1[..k], R1[k..]) for k in {1, 8, 16, 39} and t in {2,3}: t-1 shares of each, every sequence of length <= t+1 must fail (the message/coins boundary is part of the sharing)",
        gen: |_| {
          let mut v = vec![];
          for t in [2u64, 3] {
            for k in [1u64, 8, 16, 39] {
              v.push(json!({"t": t, "k": k}));
            }
          }
          v
        },
        run: run_boundary_shift,
        min_counts: &[("rejected", 100)],
      },
      Check {
        name: "dealer-adapters",
        rule: "sharks level: the dealer used through nth / skip / step_by / take on fresh and advanced dealers (t in {2,3,5}): never the point x = 0 (the share would be the secret), never the same point twice",
        gen: |_| vec![json!({})],
        run: run_dealer_adapters,
        min_counts: &[("adapter_usages", 12)],
      },
      Check {
        name: "payload-length-sweep",
        rule: "every measurement length 16..=431 (with and without 24 bytes of associated data): every 16-byte window of the measurement / associated data against every offset of the encoded report (a cipher that skips a block at one length residue)",
        gen: |_| (0..13u64).map(|i| json!({"lo": 16 + i * 32})).collect(),
        run: run_length_sweep,
        min_counts: &[("evaluations", 800)],
      },
      Check {
        name: "polynomial-shape",
        rule: "reference interpolation of ALL coefficients from t of t+2 shares: remaining shares on the polynomial, exact degree t-1, non-constant coefficients non-zero and pairwise distinct across all configurations (3 measurements x 2 epochs x thresholds incl. 33,34,64,65), constant term K||0^8",
        gen: |t| if t.thorough() { vec![json!({"ts": [2, 3, 4, 5, 8]}), json!({"ts": [16, 32, 33]}), json!({"ts": [34, 35, 64]}), json!({"ts": [65, 100]})] } else { vec![json!({"ts": [2, 3, 4, 5]}), json!({"ts": [33, 34]}), json!({"ts": [64]})] },
        run: run_poly,
        min_counts: &[("evaluations", 10)],
      },
    ],
  }
}
