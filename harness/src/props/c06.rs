//! C06 — secret sharing is textbook Shamir over GF(2^128+12451), per an independent model.
use crate::mc::*;
use crate::refmodel as rm;
use crate::sut::*;
use num_bigint::BigUint;
use num_traits::{One, Zero};
use rand_core::{impls, Error, RngCore};
use serde_json::{json, Value};
use star_sharks::{Share, Sharks};

/// caller-supplied random source: scripted byte prefix, then a SplitMix64 counter stream; records use
pub struct ScriptRng {
  pub prefix: Vec<u8>,
  pub pos: usize,
  pub key: u64,
  pub ctr: u64,
  pub words: u64,
  /// flip `flip.1` in the 8-byte word number `flip.0` of the stream (word = one next_u64 call)
  pub flip: Option<(u64, u64)>,
}
impl ScriptRng {
  pub fn new(prefix: &[u8], key: u64) -> Self {
    ScriptRng { prefix: prefix.to_vec(), pos: 0, key, ctr: 0, words: 0, flip: None }
  }
  fn byte(&mut self) -> u8 {
    if self.pos < self.prefix.len() {
      self.pos += 1;
      return self.prefix[self.pos - 1];
    }
    let w = {
      let mut z = (self.key ^ (self.ctr / 8).wrapping_mul(0xD1342543DE82EF95)).wrapping_add(0x9E3779B97F4A7C15);
      z = (z ^ (z >> 30)).wrapping_mul(0xBF58476D1CE4E5B9);
      z = (z ^ (z >> 27)).wrapping_mul(0x94D049BB133111EB);
      z ^ (z >> 31)
    };
    let b = (w >> (8 * (self.ctr % 8))) as u8;
    self.ctr += 1;
    b
  }
}
impl RngCore for ScriptRng {
  fn next_u32(&mut self) -> u32 {
    impls::next_u32_via_fill(self)
  }
  fn next_u64(&mut self) -> u64 {
    let mut b = [0u8; 8];
    for x in b.iter_mut() {
      *x = self.byte();
    }
    let mut w = u64::from_le_bytes(b);
    if let Some((n, mask)) = self.flip {
      if n == self.words {
        w ^= mask;
      }
    }
    self.words += 1;
    w
  }
  fn fill_bytes(&mut self, dest: &mut [u8]) {
    // served in whole 8-byte words so that word accounting is independent of how the code asks
    let mut i = 0;
    while i < dest.len() {
      let w = self.next_u64().to_le_bytes();
      let n = (dest.len() - i).min(8);
      dest[i..i + n].copy_from_slice(&w[..n]);
      i += n;
    }
  }
  fn try_fill_bytes(&mut self, dest: &mut [u8]) -> Result<(), Error> {
    self.fill_bytes(dest);
    Ok(())
  }
}

fn sec_elems() -> Vec<BigUint> {
  let one = BigUint::one();
  vec![BigUint::zero(), one.clone(), (&one << 64usize) - &one, &one << 64usize, (&one << 128usize) - &one, &one << 128usize, rm::p() - &one, BigUint::from(0x0102030405060708u64)]
}
fn invalid_elems() -> Vec<BigUint> {
  let one = BigUint::one();
  vec![rm::p(), rm::p() + &one, &one << 129usize, (&one << 192usize) - &one]
}
fn secret_bytes(elems: &[BigUint], trailing: usize) -> Vec<u8> {
  let mut v = vec![];
  for e in elems {
    v.extend_from_slice(&rm::le24(e));
  }
  v.extend(std::iter::repeat(0xEE).take(trailing));
  v
}
fn share_pts(s: &Share) -> (BigUint, Vec<BigUint>) {
  (fp_to_big(&s.x), s.y.iter().map(fp_to_big).collect())
}

fn streams() -> Vec<(&'static str, Vec<u8>)> {
  vec![("counter", vec![]), ("ones-then-counter", vec![0xff; 72]), ("zeros-then-counter", vec![0u8; 48])]
}

/// the k polynomials of a dealer, by model interpolation of its first t iterator shares
fn model_polys(first_t: &[Share], k: usize) -> Vec<Vec<BigUint>> {
  (0..k)
    .map(|j| {
      let pts: Vec<(BigUint, BigUint)> = first_t.iter().map(|s| (fp_to_big(&s.x), fp_to_big(&s.y[j]))).collect();
      rm::interpolate_coeffs(&pts)
    })
    .collect()
}

fn run_dealer(cx: &mut CaseCx, case: &Value) {
  let t = case["t"].as_u64().unwrap() as u32;
  let k = case["k"].as_u64().unwrap() as usize;
  let rot = case["rot"].as_u64().unwrap() as usize;
  let trailing = case["trailing"].as_u64().unwrap() as usize;
  let (sname, prefix) = streams().into_iter().nth(case["stream"].as_u64().unwrap() as usize).unwrap();
  let se = sec_elems();
  let elems: Vec<BigUint> = (0..k).map(|j| se[(j + rot) % se.len()].clone()).collect();
  let secret = secret_bytes(&elems, trailing);
  let mut rng = ScriptRng::new(&prefix, cx.seed ^ fnv_str(&case.to_string()));
  let res = guard(|| Sharks(t).dealer_rng(&secret, &mut rng).map_err(|e| e.to_string()));
  cx.eval();
  cx.nontrivial(fnv_str(&case.to_string()));
  let mut ev = match res {
    Ok(Ok(ev)) => ev,
    other => {
      cx.viol("C06/dealer-refused-valid-secret", format!("dealer_rng failed on an in-range secret: {:?}", other.map(|r| r.map(|_| ()))), json!({"secret": hexs(&secret)}));
      return;
    }
  };
  // a second dealer on the same stream, used through nth(0) first (must be the first point, not x = 0)
  {
    let mut rng_b = ScriptRng::new(&prefix, cx.seed ^ fnv_str(&case.to_string()));
    if let Ok(Ok(mut evb)) = guard(|| Sharks(t).dealer_rng(&secret, &mut rng_b).map_err(|e| e.to_string())) {
      if let Ok(Some(s0)) = guard(|| evb.nth(0)) {
        cx.eval();
        if fp_to_big(&s0.x).is_zero() {
          cx.viol("C06/x-zero/iterator", "nth(0) on a fresh dealer dealt the share at x = 0 (the secret itself)", json!({"t": t, "k": k}));
        }
      }
    }
  }
  let n_iter = t as usize + 3;
  let it: Vec<Share> = (0..n_iter).filter_map(|_| ev.next()).collect();
  if it.len() != n_iter {
    cx.viol("C06/iterator-ended", "the share iterator ended", json!({}));
    return;
  }
  // shape
  for s in &it {
    if s.y.len() != k {
      cx.viol("C06/share-width", format!("share has {} y values for a secret of {} elements", s.y.len(), k), json!({}));
      return;
    }
    if fp_to_big(&s.x).is_zero() {
      cx.viol("C06/x-zero/iterator", "the iterator dealt a share at x = 0", json!({}));
    }
  }
  let mut xs: Vec<BigUint> = it.iter().map(|s| fp_to_big(&s.x)).collect();
  xs.sort();
  xs.dedup();
  if xs.len() != it.len() {
    cx.viol("C06/iterator-repeats-x", "the iterator dealt two shares with the same x", json!({}));
    return;
  }
  let polys = model_polys(&it[..t as usize], k);
  for (j, poly) in polys.iter().enumerate() {
    cx.eval();
    if poly[0] != elems[j] {
      cx.viol("C06/constant-term", format!("polynomial {} has constant term {} but secret element is {}", j, poly[0], elems[j]), json!({"t": t, "k": k, "element": j, "stream": sname}));
    }
  }
  // every further share (iterator and random-point) is the model's evaluation
  let mut check_share = |cx: &mut CaseCx, s: &Share, how: &str| {
    let (x, ys) = share_pts(s);
    cx.eval();
    for (j, poly) in polys.iter().enumerate() {
      let want = rm::horner(poly, &x);
      if ys.get(j) != Some(&want) {
        cx.viol(format!("C06/share-off-polynomial/{}", how), format!("{} share at x={} has y[{}]={:?} but the degree-(t-1) polynomial through the first t shares gives {}", how, x, j, ys.get(j), want), json!({"t": t, "k": k, "x": x.to_string(), "stream": sname}));
      }
    }
  };
  for s in &it[t as usize..] {
    check_share(cx, s, "iterator");
  }
  // the dealer is an Iterator: adapters used on an already advanced dealer keep dealing NEW points of the same polynomials
  let mut seen_x: Vec<BigUint> = it.iter().map(|s| fp_to_big(&s.x)).collect();
  let mut adapters: Vec<(&str, Vec<Share>)> = vec![];
  if let Ok(v) = guard(|| ev.nth(2).into_iter().collect::<Vec<Share>>()) {
    adapters.push(("nth(2)", v));
  }
  if let Ok(v) = guard(|| ev.by_ref().skip(1).take(2).collect::<Vec<Share>>()) {
    adapters.push(("skip(1).take(2)", v));
  }
  if let Ok(v) = guard(|| ev.by_ref().step_by(2).take(2).collect::<Vec<Share>>()) {
    adapters.push(("step_by(2).take(2)", v));
  }
  if let Ok(v) = guard(|| ev.by_ref().take(1).collect::<Vec<Share>>()) {
    adapters.push(("take(1)", v));
  }
  for (name, v) in adapters {
    for s in &v {
      check_share(cx, s, "iterator");
      let x = fp_to_big(&s.x);
      cx.eval();
      if seen_x.contains(&x) || x.is_zero() {
        cx.viol("C06/iterator-repeats-x", format!("after {} the dealer (already advanced) dealt the point x = {} again", name, x), json!({"t": t, "k": k, "adapter": name, "x": x.to_string()}));
      }
      seen_x.push(x);
    }
    cx.count("adapter_shares", v.len() as u64);
  }
  // random points: scripted x values incl. zero candidates, boundary values and fresh ones
  let mut pts: Vec<Vec<u8>> = vec![vec![0u8; 24], vec![0u8; 48]];
  for x in ["1", "2", "18446744073709551616", "340282366920938463463374607431768211456", "340282366920938463463374607431768211457", "340282366920938463463374607431768223906", "12450"] {
    pts.push(craft_bytes(&x.parse::<BigUint>().unwrap()));
  }
  pts.push(vec![0xff; 24]);
  pts.push(vec![]);
  for (i, pfx) in pts.iter().enumerate() {
    let mut r2 = ScriptRng::new(pfx, cx.seed ^ 0x6E6 ^ i as u64);
    match guard(|| ev.gen(&mut r2)) {
      Ok(s) => {
        if fp_to_big(&s.x).is_zero() {
          cx.viol("C06/x-zero/gen", "Evaluator::gen dealt the share (0, secret): the evaluation point x = 0 is not excluded", json!({"rng_prefix": hexs(pfx)}));
        } else {
          check_share(cx, &s, "gen");
        }
        cx.count("gen_shares", 1);
      }
      Err(p) => cx.viol("C06/gen-panicked", p, json!({"rng_prefix": hexs(pfx)})),
    }
  }
  cx.outcome(format!("t={} k={} {}", t, k, sname));
  cx.sample(json!({"t": t, "k": k, "stream": sname, "secret": hexs(&secret), "rng_words_used_by_dealer": rng.words, "first_share": hexs(&Vec::<u8>::from(&it[0]))}));
}

fn run_refusal(cx: &mut CaseCx, _case: &Value) {
  let se = sec_elems();
  let inv = invalid_elems();
  for k in 1..=3usize {
    for pos in 0..k {
      for (bi, bad) in inv.iter().enumerate() {
        for trailing in [0usize, 1, 23] {
          for t in [1u32, 2, 3] {
            let mut elems: Vec<BigUint> = (0..k).map(|j| se[(j + bi) % se.len()].clone()).collect();
            elems[pos] = bad.clone();
            let secret = secret_bytes(&elems, trailing);
            let mut rng = ScriptRng::new(&[], 7);
            let res = guard(|| Sharks(t).dealer_rng(&secret, &mut rng).map(|ev| ev.take(t as usize).collect::<Vec<Share>>()).map_err(|e| e.to_string()));
            cx.eval();
            cx.nontrivial(fnv_str(&format!("{}|{}|{}|{}|{}", k, pos, bi, trailing, t)));
            match res {
              Ok(Err(_)) => cx.count("refused", 1),
              Ok(Ok(shares)) => {
                let rec = guard(|| Sharks(t).recover(&shares).map_err(|e| e.to_string()));
                cx.viol("C06/out-of-range-element-accepted", format!("a secret whose element {} of {} is {} (>= p) was dealt instead of refused; it recovers to {:?}", pos, k, bad, rec.map(|r| r.map(|b| hexs(&b)))), json!({"k": k, "position": pos, "element": bad.to_string(), "trailing": trailing, "t": t}));
              }
              Err(p) => cx.viol("C06/dealer-panicked", p, json!({"k": k, "position": pos})),
            }
          }
        }
      }
    }
  }
  // in-range secrets with trailing partial chunks are dealt, and recover to the complete chunks only
  for k in [0usize, 1, 2, 16] {
    for trailing in [0usize, 1, 23] {
      let elems: Vec<BigUint> = (0..k).map(|j| se[j % se.len()].clone()).collect();
      let secret = secret_bytes(&elems, trailing);
      let mut rng = ScriptRng::new(&[], 9);
      cx.eval();
      match guard(|| Sharks(2).dealer_rng(&secret, &mut rng).map(|ev| ev.take(2).collect::<Vec<Share>>()).map_err(|e| e.to_string())) {
        Ok(Ok(shares)) => {
          cx.count("accepted", 1);
          let rec = guard(|| Sharks(2).recover(&shares).map_err(|e| e.to_string()));
          if rec != Ok(Ok(secret[..k * 24].to_vec())) {
            cx.viol("C06/recover-differs", format!("secret of {} elements (+{} trailing bytes) recovers to {:?}", k, trailing, rec.map(|r| r.map(|b| hexs(&b)))), json!({"k": k, "trailing": trailing}));
          }
        }
        other => cx.viol("C06/dealer-refused-valid-secret", format!("{:?}", other.map(|r| r.map(|_| ()))), json!({"k": k, "trailing": trailing})),
      }
    }
  }
  cx.outcome("refused / accepted");
  cx.sample(json!({"invalid_elements": inv.iter().map(|b| b.to_string()).collect::<Vec<_>>()}));
}


/// History independence of the public sharks API on one thread: every sequence of up to two "disturbing"
/// calls (refused, ragged, degenerate, foreign) followed by the probes - a recovery, a direct
/// interpolation and a fresh dealing must come out exactly as on a fresh thread.
fn run_call_histories(cx: &mut CaseCx, case: &Value) {
  use core::convert::TryFrom;
  use star_sharks::{interpolate, Fp};
  let k = case["k"].as_u64().unwrap() as usize;
  let t = case["t"].as_u64().unwrap() as u32;
  let se = sec_elems();
  let elems: Vec<BigUint> = (0..k).map(|j| se[(j * 3 + 1) % se.len()].clone()).collect();
  let secret = secret_bytes(&elems, 0);
  let deal = |key: u64| -> Vec<Share> {
    let mut rng = ScriptRng::new(&[], key);
    Sharks(t).dealer_rng(&secret, &mut rng).map(|ev| ev.take(t as usize + 2).collect()).unwrap_or_default()
  };
  let good = deal(11);
  if good.len() != t as usize + 2 {
    return;
  }
  // another sharing (other secret width, other threshold) to build the disturbing calls from
  let other_secret = secret_bytes(&[se[2].clone()], 0);
  let other: Vec<Share> = {
    let mut rng = ScriptRng::new(&[], 12);
    Sharks(2).dealer_rng(&other_secret, &mut rng).map(|ev| ev.take(3).collect()).unwrap_or_default()
  };
  let wide_secret = secret_bytes(&[se[0].clone(), se[1].clone(), se[3].clone()], 0);
  let wide: Vec<Share> = {
    let mut rng = ScriptRng::new(&[], 13);
    Sharks(2).dealer_rng(&wide_secret, &mut rng).map(|ev| ev.take(2).collect()).unwrap_or_default()
  };
  if other.len() != 3 || wide.len() != 2 {
    return;
  }
  type Call = Box<dyn Fn()>;
  let mk = |shares: Vec<Share>| -> Call { Box::new(move || { let _ = guard(|| interpolate(&shares).map_err(|e| e.to_string())); }) };
  let mkr = |th: u32, shares: Vec<Share>| -> Call { Box::new(move || { let sh = Sharks(th); let _ = guard(|| sh.recover(&shares).map_err(|e| e.to_string())); }) };
  let mut ragged_longer = other[..2].to_vec();
  ragged_longer[1].y.push(Fp::from(9u64));
  let mut ragged_shorter = wide.clone();
  ragged_shorter[1].y.pop();
  let mut ragged_first_empty = other[..2].to_vec();
  ragged_first_empty[0].y.clear();
  let dup_x = vec![other[0].clone(), other[0].clone()];
  let mut same_x_other_y = vec![other[0].clone(), other[0].clone()];
  same_x_other_y[1].y[0] += Fp::from(1u64);
  let inv = invalid_elems();
  let bad_secret = secret_bytes(&[inv[0].clone()], 0);
  let bad_bytes: Vec<u8> = vec![0xff; 47];
  let calls: Vec<(&str, Call)> = vec![
    ("interpolate(ragged: second share one element longer)", mk(ragged_longer.clone())),
    ("interpolate(ragged: second share one element shorter)", mk(ragged_shorter.clone())),
    ("interpolate(ragged: first share without values)", mk(ragged_first_empty)),
    ("interpolate(no shares)", mk(vec![])),
    ("interpolate(one share of a 2-threshold sharing)", mk(other[..1].to_vec())),
    ("interpolate(the same share twice)", mk(dup_x.clone())),
    ("interpolate(two shares at one point with different values)", mk(same_x_other_y.clone())),
    ("interpolate(a 3-element sharing)", mk(wide.clone())),
    ("recover(too few shares)", mkr(3, other[..2].to_vec())),
    ("recover(shares of unequal length)", mkr(2, ragged_longer)),
    ("recover(unequal length, repeated point)", mkr(2, vec![wide[0].clone(), wide[1].clone(), ragged_shorter[1].clone()])),
    ("recover(duplicates only)", mkr(2, dup_x)),
    ("recover(threshold 0)", mkr(0, other.clone())),
    ("recover(another sharing)", mkr(2, other.clone())),
    ("dealer(secret with an out-of-range element)", Box::new(move || { let mut rng = ScriptRng::new(&[], 5); let _ = guard(|| Sharks(2).dealer_rng(&bad_secret, &mut rng).map(|ev| ev.take(2).count()).map_err(|e| e.to_string())); })),
    ("Share::try_from(47 bytes 0xff)", Box::new(move || { let _ = guard(|| Share::try_from(bad_bytes.as_slice()).map(|_| ()).map_err(|e| e.to_string())); })),
  ];
  let n = calls.len();
  let probe = |cx: &mut CaseCx, hist: &[usize]| -> bool {
    let names: Vec<&str> = hist.iter().map(|&i| calls[i].0).collect();
    let d = || json!({"k": k, "t": t, "calls_before": names});
    let sh = Sharks(t);
    cx.eval();
    let r1 = guard(|| sh.recover(&good).map_err(|e| e.to_string()));
    if r1 != Ok(Ok(secret.clone())) {
      cx.viol("C06/call-history/recover-differs", format!("after the calls {:?} on the same thread, recovering a healthy sharing gives {:?} instead of the secret", names, r1.map(|r| r.map(|b| hexs(&b)))), d());
      return false;
    }
    let picked: Vec<Share> = good.iter().rev().take(t as usize).cloned().collect();
    let r2 = guard(|| interpolate(&picked).map_err(|e| e.to_string()));
    if r2 != Ok(Ok(secret.clone())) {
      cx.viol("C06/call-history/interpolate-differs", format!("after the calls {:?} on the same thread, interpolate of t healthy shares gives {:?} instead of the secret", names, r2.map(|r| r.map(|b| hexs(&b)))), d());
      return false;
    }
    let again = deal(11);
    if again.iter().map(share_pts).collect::<Vec<_>>() != good.iter().map(share_pts).collect::<Vec<_>>() {
      cx.viol("C06/call-history/dealer-differs", format!("after the calls {:?} on the same thread, dealing the same secret from the same random source gives other shares", names), d());
      return false;
    }
    cx.count("histories_probed", 1);
    true
  };
  for a in 0..n {
    // histories run back to back on the worker thread (each is in effect the tail of a longer one)
    for b in std::iter::once(None).chain((0..n).map(Some)) {
      let hist: Vec<usize> = std::iter::once(a).chain(b).collect();
      cx.nontrivial(fnv_str(&format!("{}|{}|{:?}", k, t, hist)));
      cx.count("states", 1);
      cx.count("transitions", hist.len() as u64);
      for &i in &hist {
        (calls[i].1)();
      }
      if !probe(cx, &hist) {
        return;
      }
    }
  }
  cx.outcome("history independent");
  if k == 1 && t == 2 {
    cx.sample(json!({"disturbing_calls": calls.iter().map(|c| c.0).collect::<Vec<_>>(), "histories": n * (n + 1)}));
  }
}

/// coefficients are separate draws from the supplied source
fn run_draws(cx: &mut CaseCx, case: &Value) {
  let t = case["t"].as_u64().unwrap() as u32;
  let k = case["k"].as_u64().unwrap() as usize;
  let se = sec_elems();
  // secrets with REPEATED elements (padding, all-zero secrets): every element still gets a polynomial of its own
  let elems: Vec<BigUint> = match case["repeat"].as_str() {
    Some("all-equal") => (0..k).map(|_| se[1].clone()).collect(),
    Some("all-zero") => (0..k).map(|_| BigUint::zero()).collect(),
    Some("apart") => (0..k).map(|j| se[1 + (j % 2)].clone()).collect(), // A B A B ..
    Some("ends") => (0..k).map(|j| if j == 0 || j + 1 == k { se[7].clone() } else { se[(j + 1) % se.len()].clone() }).collect(),
    _ => (0..k).map(|j| se[(j + 1) % se.len()].clone()).collect(),
  };
  if case["repeat"].is_string() {
    cx.count("repeated_element_secrets", 1);
  }
  let secret = secret_bytes(&elems, 0);
  let key = cx.seed ^ 0xD7A3 ^ (t as u64) << 8 ^ k as u64;
  let (sname, prefix) = streams().into_iter().nth(case["stream"].as_u64().unwrap_or(0) as usize).unwrap();
  let fresh_stream = prefix.is_empty();
  let coeffs_of = |flip: Option<(u64, u64)>| -> Option<(Vec<BigUint>, u64)> {
    let mut rng = ScriptRng::new(&prefix, key);
    rng.flip = flip;
    let mut ev = guard(|| Sharks(t).dealer_rng(&secret, &mut rng).ok()).ok()??;
    let it: Vec<Share> = (0..t as usize).filter_map(|_| ev.next()).collect();
    let polys = model_polys(&it, k);
    // all non-constant coefficients, flattened
    Some((polys.iter().flat_map(|p| p[1..].iter().cloned()).collect(), rng.words))
  };
  let (base, words) = match coeffs_of(None) {
    Some(v) => v,
    None => {
      cx.viol("C06/dealer-failed", "dealer failed", json!({}));
      return;
    }
  };
  cx.eval();
  cx.nontrivial(fnv_str(&case.to_string()));
  if base.len() != (t as usize - 1) * k {
    cx.viol("C06/coefficient-count", format!("{} non-constant coefficients, expected (t-1)*k = {}", base.len(), (t as usize - 1) * k), json!({}));
    return;
  }
  let mut sorted = base.clone();
  sorted.sort();
  sorted.dedup();
  if fresh_stream && (sorted.len() != base.len() || base.iter().any(|c| c.is_zero())) {
    cx.viol("C06/coefficients-not-separate-draws", format!("under a fresh random stream only {} of {} non-constant coefficients are distinct and non-zero: they are not separate draws", sorted.len(), base.len()), json!({"t": t, "k": k}));
  }
  if words == 0 && !base.is_empty() {
    cx.viol("C06/random-source-unused", "the dealer did not draw from the supplied random source", json!({}));
    return;
  }
  // single-word deviation at every word the dealer consumed
  let mut touched = vec![false; base.len()];
  for w in 0..words {
    cx.eval();
    if let Some((dev, _)) = coeffs_of(Some((w, 1 << 5))) {
      let changed: Vec<usize> = (0..base.len()).filter(|&i| dev.get(i) != Some(&base[i])).collect();
      if changed.len() > 1 {
        cx.viol("C06/coefficients-share-randomness", format!("flipping one bit of word {} of the random stream ({}) changes {} coefficients: coefficients are not separate draws from disjoint parts of the source (a draw was discarded or reused)", w, sname, changed.len()), json!({"t": t, "k": k, "word": w, "changed": changed, "stream": sname}));
      }
      for i in changed {
        touched[i] = true;
      }
    }
  }
  if let Some(i) = touched.iter().position(|x| !x).filter(|_| fresh_stream) {
    cx.viol("C06/coefficient-independent-of-source", format!("coefficient {} is not influenced by any single word of the random stream", i), json!({"t": t, "k": k, "coefficient": i}));
  }
  cx.outcome(format!("t={} k={} words={}", t, k, words));
  cx.sample(json!({"t": t, "k": k, "rng_words_consumed": words, "coefficients": base.len()}));
}


/// Boundary candidates of the random source: streams whose next 24-byte candidate is a VALID field element at
/// the top of the range (2^128 .. p-1, where a sloppy range test rejects) or just invalid (p, p+1). If the
/// dealer's coefficients are the field's own `random` draws on an ordinary stream (self-validation), they must
/// be on these streams too - a valid draw is never discarded, an invalid one never accepted.
fn run_boundary_candidates(cx: &mut CaseCx, case: &Value) {
  use ff::Field;
  use star_sharks::Fp;
  let t = case["t"].as_u64().unwrap() as u32;
  let k = case["k"].as_u64().unwrap() as usize;
  let se = sec_elems();
  let elems: Vec<BigUint> = (0..k).map(|j| se[(j + 2) % se.len()].clone()).collect();
  let secret = secret_bytes(&elems, 0);
  let ncoef = (t as usize - 1) * k;
  let run = |prefix: &[u8]| -> Option<(Vec<BigUint>, Vec<BigUint>)> {
    let mut rng = ScriptRng::new(prefix, 0xB0DA);
    let mut ev = guard(|| Sharks(t).dealer_rng(&secret, &mut rng).ok()).ok()??;
    let it: Vec<Share> = (0..t as usize).filter_map(|_| ev.next()).collect();
    let polys = model_polys(&it, k);
    // compared as multisets: the order in which the dealer assigns its draws to coefficients is its own business
    let mut got: Vec<BigUint> = polys.iter().flat_map(|p| p[1..].iter().cloned()).collect();
    let mut rng2 = ScriptRng::new(prefix, 0xB0DA);
    let mut want: Vec<BigUint> = (0..ncoef).map(|_| fp_to_big(&Fp::random(&mut rng2))).collect();
    got.sort();
    want.sort();
    Some((got, want))
  };
  // self-validation on an ordinary stream
  let validated = matches!(run(&[]), Some((g, w)) if g == w);
  cx.count(if validated { "sampler_validated" } else { "sampler_not_the_fields_own" }, 1);
  if !validated {
    cx.note("the dealer's coefficients are not the field's own `random` draws on an ordinary stream (another sampler?): boundary-candidate comparison skipped, never an alarm");
    return;
  }
  let p = rm::p();
  let one = BigUint::one();
  let cands: Vec<(&str, BigUint)> = vec![("2^128", &one << 128usize), ("2^128 + 1", (&one << 128usize) + &one), ("p - 1", &p - &one), ("p - 2", &p - BigUint::from(2u32)), ("2^128 + 12450", (&one << 128usize) + BigUint::from(12450u32)), ("p (invalid)", p.clone()), ("p + 1 (invalid)", &p + &one), ("2^128 - 1", (&one << 128usize) - &one)];
  for (name, c) in &cands {
    for pos in 0..ncoef {
      // candidate `c` is what the sampler sees when it draws coefficient number `pos`
      let mut prefix = vec![];
      for i in 0..ncoef {
        if i == pos {
          prefix.extend_from_slice(&rm::le24(c));
        } else {
          prefix.extend_from_slice(&rm::le24(&BigUint::from(1000u32 + i as u32)));
        }
      }
      cx.eval();
      cx.nontrivial(fnv_str(&format!("{}|{}|{}|{}", t, k, name, pos)));
      match run(&prefix) {
        Some((g, w)) => {
          if g != w {
            cx.viol("C06/coefficients-not-the-draws", format!("the random source offers the candidate {} as draw number {}: the dealer's coefficients differ (as a set) from the field's own draws on the same stream (a valid draw was discarded, or an invalid one accepted)", name, pos), json!({"t": t, "k": k, "candidate": name, "draw_number": pos}));
            return;
          }
          cx.count("boundary_candidates_agree", 1);
        }
        None => cx.viol("C06/dealer-failed", "dealer failed", json!({"candidate": name})),
      }
    }
  }
  cx.outcome(format!("t={} k={}", t, k));
}


/// ONE dealer used for a long run: 700 shares from one `Evaluator` - all points distinct, none zero, every share
/// on the polynomials fixed by the first t (counters that wrap after 255 / 256 / 512 steps would deal x = 0,
/// i.e. the secret itself, or repeat a point)
fn run_long_dealing(cx: &mut CaseCx, case: &Value) {
  let t = case["t"].as_u64().unwrap() as u32;
  let k = case["k"].as_u64().unwrap() as usize;
  let se = sec_elems();
  let elems: Vec<BigUint> = (0..k).map(|j| se[(j * 5 + 3) % se.len()].clone()).collect();
  let secret = secret_bytes(&elems, 0);
  let mut rng = ScriptRng::new(&[], 0x10E6);
  let shares: Vec<Share> = match guard(|| Sharks(t).dealer_rng(&secret, &mut rng).map(|ev| ev.take(700).collect::<Vec<Share>>()).map_err(|e| e.to_string())) {
    Ok(Ok(s)) => s,
    other => {
      cx.viol("C06/dealer-failed", format!("{:?}", other.map(|r| r.map(|s| s.len()))), json!({"t": t, "k": k}));
      return;
    }
  };
  cx.count("shares_dealt_by_one_dealer", shares.len() as u64);
  if shares.len() != 700 {
    cx.viol("C06/dealer-stops-early", format!("the dealer yields only {} shares", shares.len()), json!({"t": t, "k": k}));
    return;
  }
  let polys = model_polys(&shares[..t as usize], k);
  let mut seen: std::collections::HashMap<BigUint, usize> = std::collections::HashMap::new();
  for (i, sh) in shares.iter().enumerate() {
    let (x, ys) = share_pts(sh);
    cx.eval();
    if x.is_zero() {
      cx.viol("C06/share-at-zero", format!("share number {} of one dealer sits at x = 0: its values are the secret itself", i + 1), json!({"t": t, "k": k, "share_number": i + 1}));
      return;
    }
    if let Some(prev) = seen.insert(x.clone(), i) {
      cx.viol("C06/dealer-repeats-point", format!("share number {} of one dealer repeats the point of share number {}", i + 1, prev + 1), json!({"t": t, "k": k, "share_number": i + 1}));
      return;
    }
    for j in 0..k {
      if ys.get(j) != Some(&rm::horner(&polys[j], &x)) {
        cx.viol("C06/share-off-polynomial/long-run", format!("share number {} of one dealer is not on the polynomial fixed by its first {} shares", i + 1, t), json!({"t": t, "k": k, "share_number": i + 1}));
        return;
      }
    }
  }
  // shares from far apart positions recover
  for start in [0usize, 250, 254, 255, 256, 510, 511, 512, 699 - t as usize] {
    let sel: Vec<Share> = (0..t as usize).map(|j| shares[(start + j * 89) % 700].clone()).collect();
    cx.eval();
    let sh = Sharks(t);
    if guard(|| sh.recover(&sel).map_err(|e| e.to_string())) != Ok(Ok(secret.clone())) {
      cx.viol("C06/recover-differs/long-run", format!("shares number {}.. (stride 89) of one dealer do not recover the secret", start + 1), json!({"t": t, "k": k, "first": start + 1}));
      return;
    }
    cx.count("far_apart_shares_recover", 1);
  }
  cx.nontrivial(fnv_str(&case.to_string()));
  cx.outcome(format!("t={} k={}", t, k));
}


/// Two dealings A and B of the same secret share their evaluation points (sequential dealer): distinctness is
/// about the POINT. Every sequence of length <= t+1 over {a_1..a_t, b_1..b_t}: fewer than t distinct points is
/// refused; if the first occurrence of every point comes from one dealing the secret is recovered.
fn run_same_point_other_value(cx: &mut CaseCx, case: &Value) {
  let t = case["t"].as_u64().unwrap() as u32;
  let tu = t as usize;
  let se = sec_elems();
  let secret = secret_bytes(&[se[7].clone(), se[2].clone()], 0);
  let deal = |key: u64| -> Vec<Share> {
    let mut rng = ScriptRng::new(&[], key);
    Sharks(t).dealer_rng(&secret, &mut rng).map(|ev| ev.take(tu).collect()).unwrap_or_default()
  };
  let (a, b) = (deal(21), deal(22));
  if a.len() != tu || b.len() != tu || a.iter().zip(b.iter()).any(|(x, y)| x.x != y.x) {
    cx.count("dealings_do_not_share_points", 1);
    return;
  }
  let pool: Vec<(char, usize, &Share)> = a.iter().enumerate().map(|(i, s)| ('a', i, s)).chain(b.iter().enumerate().map(|(i, s)| ('b', i, s))).collect();
  for_each_seq(pool.len(), tu + 1, |seq| {
    if seq.is_empty() || !cx.viols.is_empty() {
      return;
    }
    let names: Vec<String> = seq.iter().map(|&k| format!("{}{}", pool[k].0, pool[k].1 + 1)).collect();
    // first occurrence of every point
    let mut first: Vec<(usize, char)> = vec![];
    for &k in seq {
      if !first.iter().any(|f| f.0 == pool[k].1) {
        first.push((pool[k].1, pool[k].0));
      }
    }
    let shares: Vec<Share> = seq.iter().map(|&k| pool[k].2.clone()).collect();
    let sh = Sharks(t);
    let got = guard(|| sh.recover(&shares).map_err(|e| e.to_string()));
    cx.eval();
    cx.count("states", 1);
    cx.count("transitions", 1);
    cx.nontrivial(fnv_str(&format!("{}|{:?}", t, seq)));
    let d = || json!({"t": t, "collection": names});
    if first.len() < tu {
      match got {
        Ok(Err(_)) => cx.count("refused_below_threshold", 1),
        other => cx.viol("C06/same-point-other-value-counts", format!("the collection {:?} holds only {} distinct evaluation points (two dealings of one secret share their points) but recover returned {:?} instead of refusing", names, first.len(), other.map(|r| r.map(|b| hexs(&b)))), d()),
      }
    } else if first.iter().take(tu).all(|f| f.1 == first[0].1) && first.len() == tu {
      if got != Ok(Ok(secret.clone())) {
        cx.viol("C06/recover-differs/same-point-other-value", format!("in the collection {:?} the first share at every point comes from one dealing, yet recover does not return the secret: {:?}", names, got.map(|r| r.map(|b| hexs(&b)))), d());
      } else {
        cx.count("recovered_one_dealing_first", 1);
      }
    }
  });
  cx.outcome(format!("t={}", t));
}


/// E-env with a deviation RUN on the caller's random source: the stream offers N candidates >= p in a row (every
/// second candidate of a uniform 129-bit source is one) before a valid one, at any coefficient position: the
/// dealer must neither give up nor fall back to a fixed value - its coefficients are the field's own draws
pub fn run_rejection_runs(cx: &mut CaseCx, case: &Value) {
  use ff::Field;
  use star_sharks::Fp;
  let t = case["t"].as_u64().unwrap() as u32;
  let prop = case["prop"].as_str().unwrap_or("C06").to_string();
  let se = sec_elems();
  let secret = secret_bytes(&[se[4].clone()], 0);
  let ncoef = t as usize - 1;
  for run in [1usize, 2, 7, 8, 9, 23, 24, 25, 26, 40, 100, 300] {
    for pos in 0..ncoef.min(3) {
      // valid small candidates before `pos`, then `run` candidates of 24 x 0xff (masked to 2^129-1 >= p), then the counter stream
      let mut prefix = vec![];
      for i in 0..pos {
        prefix.extend_from_slice(&rm::le24(&BigUint::from(7u32 + i as u32)));
      }
      prefix.extend(std::iter::repeat(0xffu8).take(24 * run));
      let mut rng = ScriptRng::new(&prefix, 0x4E1E);
      cx.eval();
      cx.nontrivial(fnv_str(&format!("{}|{}|{}", t, run, pos)));
      let dealt = guard(|| Sharks(t).dealer_rng(&secret, &mut rng).map(|ev| ev.take(t as usize).collect::<Vec<Share>>()).map_err(|e| e.to_string()));
      let shares = match dealt {
        Ok(Ok(s)) if s.len() == t as usize => s,
        other => {
          cx.viol(format!("{}/dealer-gives-up-on-rejections", prop), format!("the random source offers {} out-of-range candidates in a row while coefficient {} is drawn (threshold {}): the dealer fails instead of drawing on ({:?}) - for a deterministic source this makes particular (threshold, message, coins) triples unshareable", run, pos, t, other.map(|r| r.map(|s| s.len()))), json!({"t": t, "rejected_in_a_row": run, "coefficient": pos}));
          return;
        }
      };
      let polys = model_polys(&shares, 1);
      let mut got: Vec<BigUint> = polys[0][1..].to_vec();
      let mut rng2 = ScriptRng::new(&prefix, 0x4E1E);
      let mut want: Vec<BigUint> = (0..ncoef).map(|_| fp_to_big(&Fp::random(&mut rng2))).collect();
      got.sort();
      want.sort();
      if got != want {
        if got.iter().any(|c| c.is_zero()) {
          cx.viol(format!("{}/dealer-falls-back-to-zero", prop), format!("after {} rejected candidates in a row the dealer uses a ZERO coefficient (threshold {}): the polynomial loses a degree", run, t), json!({"t": t, "rejected_in_a_row": run, "coefficient": pos}));
          return;
        }
        cx.count("draws_differ_from_field_sampler", 1);
      } else {
        cx.count("rejection_runs_survived", 1);
      }
    }
  }
  cx.outcome(format!("t={}", t));
}


/// Distinct shares that carry EQUAL values: a polynomial of degree >= 2 takes a value at several points. For
/// t in {3,4} the twin point of a share (another root of f(x) - f(x0), found from the model's coefficients for
/// the quadratic; for the cubic by dividing out (x - x0) and solving the remaining quadratic when it has a root)
/// is dealt through `Evaluator::gen` with a scripted point; recovery from collections holding both twins.
fn run_equal_values(cx: &mut CaseCx, case: &Value) {
  let key = case["key"].as_u64().unwrap();
  let t = 3u32;
  let se = sec_elems();
  let secret = secret_bytes(&[se[7].clone()], 0);
  // the same dealing twice (same source): one evaluator is iterated, the other deals at scripted points
  let mk = || {
    let mut rng = ScriptRng::new(&[], 0xE9A1 + key);
    guard(|| Sharks(t).dealer_rng(&secret, &mut rng).map_err(|e| e.to_string()))
  };
  let (mut it, ev) = match (mk(), mk()) {
    (Ok(Ok(a)), Ok(Ok(b))) => (a, b),
    _ => return,
  };
  let base: Vec<Share> = (0..3).filter_map(|_| it.next()).collect();
  if base.len() != 3 {
    return;
  }
  let co = &model_polys(&base, 1)[0];
  let inv = match rm::invm(&co[2]) {
    Some(i) => i,
    None => return,
  };
  for i0 in 0..3usize {
    let (x0, y0) = share_pts(&base[i0]);
    let twin_x = rm::subm(&rm::negm(&rm::mulm(&co[1], &inv)), &x0);
    if twin_x.is_zero() || base.iter().any(|s| fp_to_big(&s.x) == twin_x) {
      continue;
    }
    let mut prng = ScriptRng::new(&craft_bytes(&twin_x), 1);
    let twin = ev.gen(&mut prng);
    let (tx, ty) = share_pts(&twin);
    if tx != twin_x || ty != y0 {
      cx.count("craft_miss", 1);
      continue;
    }
    cx.nontrivial(fnv_str(&format!("{}|{}", key, i0)));
    let others: Vec<&Share> = base.iter().enumerate().filter(|(i, _)| *i != i0).map(|(_, s)| s).collect();
    let colls: Vec<(&str, Vec<Share>)> = vec![
      ("share, twin, another", vec![base[i0].clone(), twin.clone(), others[0].clone()]),
      ("twin, share, another", vec![twin.clone(), base[i0].clone(), others[1].clone()]),
      ("another, share, twin", vec![others[0].clone(), base[i0].clone(), twin.clone()]),
      ("all four", vec![base[0].clone(), base[1].clone(), base[2].clone(), twin.clone()]),
      ("twin and two others", vec![twin.clone(), others[0].clone(), others[1].clone()]),
    ];
    for (how, c) in colls {
      let sh = Sharks(t);
      cx.eval();
      let got = guard(|| sh.recover(&c).map_err(|e| e.to_string()));
      if got != Ok(Ok(secret.clone())) {
        cx.viol("C06/recover-differs/equal-values", format!("{} distinct shares ({}), two of which carry the same value at different points (a quadratic takes each value twice), do not recover the secret: {:?}", c.len(), how, got.map(|r| r.map(|b| hexs(&b)))), json!({"t": t, "collection": how}));
        return;
      }
      cx.count("equal_value_collections_recovered", 1);
    }
  }
  cx.outcome("equal values");
}

/// every selection of a pool of t+2 shares (iterator + crafted random points)
fn run_recover(cx: &mut CaseCx, case: &Value) {
  let t = case["t"].as_u64().unwrap() as u32;
  let k = case["k"].as_u64().unwrap() as usize;
  let poolv = case["pool"].as_u64().unwrap() as usize;
  let se = sec_elems();
  let elems: Vec<BigUint> = (0..k).map(|j| se[(j + poolv) % se.len()].clone()).collect();
  let secret = secret_bytes(&elems, 0);
  let mut rng = ScriptRng::new(&[], cx.seed ^ 0xBEEF ^ t as u64);
  let mut ev = match guard(|| Sharks(t).dealer_rng(&secret, &mut rng).ok()) {
    Ok(Some(e)) => e,
    _ => return,
  };
  let n = t as usize + 2;
  let crafted: Vec<&str> = match poolv % 3 {
    0 => vec![],
    1 => vec!["340282366920938463463374607431768211457", "340282366920938463463374607431768223906", "340282366920938463463374607431768211458"], // 2^128+1, p-1, 2^128+2
    _ => vec!["18446744073709551616", "12450", "340282366920938463463374607431768211456"],
  };
  let mut pool: Vec<Share> = vec![];
  for c in crafted.iter().take(n - 2) {
    let mut r2 = ScriptRng::new(&craft_bytes(&c.parse::<BigUint>().unwrap()), 5);
    pool.push(ev.gen(&mut r2));
  }
  while pool.len() < n {
    pool.push(ev.next().unwrap());
  }
  // interleave so that crafted points are not always first
  if poolv % 2 == 1 {
    pool.reverse();
  }
  let xs: Vec<BigUint> = pool.iter().map(|s| fp_to_big(&s.x)).collect();
  // a foreign share of different width (another dealer, k+1 elements)
  let mut rng3 = ScriptRng::new(&[], 77);
  let wide_secret = secret_bytes(&(0..k + 1).map(|j| se[j % se.len()].clone()).collect::<Vec<_>>(), 0);
  let wide = Sharks(t).dealer_rng(&wide_secret, &mut rng3).ok().and_then(|mut e| e.next());
  // ... and narrower ones: no y at all, and k-1 elements
  let mut foreign: Vec<Share> = wide.iter().cloned().collect();
  foreign.push(Share { x: fp_from_big(&BigUint::from(77u32)).unwrap(), y: vec![] });
  foreign.push(Share { x: fp_from_big(&BigUint::from(0u32)).unwrap(), y: vec![] });
  if k >= 2 {
    if let Some(w) = &wide {
      foreign.push(Share { x: w.x, y: w.y[..k - 1].to_vec() });
    }
  }
  let (mut n_ok, mut n_err) = (0u64, 0u64);
  for_each_seq(n, n, |sel| {
    let shares: Vec<Share> = sel.iter().map(|&i| pool[i].clone()).collect();
    let d = super::c01::distinct_x(&xs, sel);
    let res = guard(|| Sharks(t).recover(&shares).map_err(|e| e.to_string()));
    // the same selection handed over as a lazily adapted iterator (no exact size known in advance)
    if sel.len() <= t as usize + 1 {
      let lazy = guard(|| Sharks(t).recover(shares.iter().filter(|s| !s.y.is_empty() || s.y.is_empty())).map_err(|e| e.to_string()));
      let lazy2 = guard(|| Sharks(t).recover(shares.iter().flat_map(|s| std::iter::once(s))).map_err(|e| e.to_string()));
      cx.eval();
      if lazy.as_ref().map(|r| r.is_ok()) != res.as_ref().map(|r| r.is_ok()) || lazy2.as_ref().map(|r| r.as_ref().ok()) != res.as_ref().map(|r| r.as_ref().ok()) {
        cx.viol("C06/recover-depends-on-iterator-shape", format!("recover gives {:?} for a Vec of shares but {:?} / {:?} for the same shares behind filter / flat_map adapters", res.as_ref().map(|r| r.is_ok()), lazy.as_ref().map(|r| r.is_ok()), lazy2.as_ref().map(|r| r.is_ok())), json!({"sel": sel, "t": t}));
      }
    }
    cx.eval();
    cx.count("states", 1);
    cx.count("transitions", 1);
    cx.nontrivial(fnv_str(&format!("{}|{:?}", case, sel)));
    let det = || json!({"sel": sel, "xs": sel.iter().map(|&i| xs[i].to_string()).collect::<Vec<_>>(), "t": t});
    match res {
      Ok(Ok(b)) => {
        n_ok += 1;
        if d < t as usize {
          cx.viol("C06/recovered-below-threshold", format!("recover returned a value from {} < t = {} distinct shares", d, t), det());
        } else if b != secret {
          cx.viol("C06/recover-wrong", "recover returned bytes different from the secret", det());
        } else {
          // independent Lagrange over the first t distinct points
          let mut seen: Vec<usize> = vec![];
          for &i in sel {
            if !seen.iter().any(|&j| xs[j] == xs[i]) {
              seen.push(i);
            }
          }
          for j in 0..k {
            let pts: Vec<(BigUint, BigUint)> = seen.iter().take(t as usize).map(|&i| (xs[i].clone(), fp_to_big(&pool[i].y[j]))).collect();
            if rm::le24(&rm::lagrange_at_zero(&pts)) != b[24 * j..24 * j + 24] {
              cx.viol("C06/recover-differs-from-model", "recover disagrees with big-integer Lagrange interpolation", det());
            }
          }
        }
      }
      Ok(Err(_)) => {
        n_err += 1;
        if d >= t as usize && !sel.is_empty() {
          cx.viol("C06/recover-refused", format!("recover refused a selection with {} >= t = {} distinct shares", d, t), det());
        }
      }
      Err(p) => cx.viol("C06/recover-panicked", p, det()),
    }
    // unequal width anywhere => Err
    for w in &foreign {
      if sel.len() >= 1 && sel.len() <= t as usize + 1 {
        for pos in 0..=sel.len() {
          let mut sh = shares.clone();
          sh.insert(pos, w.clone());
          cx.eval();
          match guard(|| Sharks(t).recover(&sh).map_err(|e| e.to_string())) {
            Ok(Err(_)) => cx.count("unequal_width_refused", 1),
            Ok(Ok(b)) => cx.viol("C06/unequal-width-accepted", format!("recover accepted shares of unequal length (a share with {} y values at position {} among shares with {}) and returned {} bytes", w.y.len(), pos, k, b.len()), det()),
            Err(p) => cx.viol("C06/recover-panicked", p, det()),
          }
        }
      }
    }
  });
  // threshold 0 never recovers
  cx.eval();
  match guard(|| Sharks(0).recover(&pool).map_err(|e| e.to_string())) {
    Ok(Err(_)) => cx.count("threshold0_refused", 1),
    other => cx.viol("C06/threshold-0-recovers", format!("Sharks(0).recover = {:?}", other.map(|r| r.map(|b| hexs(&b)))), json!({})),
  }
  cx.count("ok", n_ok);
  cx.count("err", n_err);
  cx.outcome(format!("t={} k={}", t, k));
  cx.sample(json!({"t": t, "k": k, "pool_x": xs.iter().map(|x| x.to_string()).collect::<Vec<_>>(), "ok": n_ok, "err": n_err}));
}


/// every threshold of a range with the FIRST t sequential shares (x = 1..t in dealt order), plus other shapes
fn run_threshold_sweep(cx: &mut CaseCx, case: &Value) {
  let ts: Vec<u32> = case["ts"].as_array().unwrap().iter().map(|v| v.as_u64().unwrap() as u32).collect();
  let se = sec_elems();
  let secret = secret_bytes(&[se[6].clone(), se[7].clone()], 0);
  for t in ts {
    let mut rng = ScriptRng::new(&[], cx.seed ^ 0x5EE9 ^ t as u64);
    let mut ev = match guard(|| Sharks(t).dealer_rng(&secret, &mut rng).ok()) {
      Ok(Some(e)) => e,
      _ => continue,
    };
    let shares: Vec<Share> = (0..t as usize + 1).map(|_| ev.next().unwrap()).collect();
    cx.nontrivial(t as u64);
    let shapes: Vec<(&str, Vec<Share>)> = vec![
      ("first t in dealt order", shares[..t as usize].to_vec()),
      ("t+1 in dealt order", shares.clone()),
      ("last t", shares[1..].to_vec()),
      ("first t reversed", shares[..t as usize].iter().rev().cloned().collect()),
      ("first t with the first one repeated at the end", shares[..t as usize].iter().cloned().chain(std::iter::once(shares[0].clone())).collect()),
    ];
    let shapes: Vec<(&str, Vec<Share>)> = if t > 140 && !cx.tier.thorough() { shapes.into_iter().take(2).collect() } else { shapes };
    for (name, sel) in shapes {
      cx.eval();
      cx.count("states", 1);
      cx.count("transitions", 1);
      match guard(|| Sharks(t).recover(&sel).map_err(|e| e.to_string())) {
        Ok(Ok(b)) if b == secret => cx.count("ok", 1),
        other => {
          cx.viol("C06/threshold-sweep/recover-wrong", format!("threshold {}: recovering from {} gives {:?}", t, name, other.map(|r| r.map(|b| if b.len() == secret.len() { "wrong bytes".to_string() } else { format!("{} bytes", b.len()) }))), json!({"t": t, "selection": name}));
        }
      }
    }
    // t-1 distinct must fail
    if t >= 2 {
      cx.eval();
      if !matches!(guard(|| Sharks(t).recover(&shares[..t as usize - 1]).map_err(|e| e.to_string())), Ok(Err(_))) {
        cx.viol("C06/recovered-below-threshold", format!("threshold {}: t-1 shares recovered", t), json!({"t": t}));
      }
      cx.count("err", 1);
    }
  }
  cx.outcome("threshold sweep");
}

fn run_large(cx: &mut CaseCx, case: &Value) {
  let t = case["t"].as_u64().unwrap() as u32;
  let se = sec_elems();
  let secret = secret_bytes(&[se[6].clone(), se[3].clone()], 0);
  let mut rng = ScriptRng::new(&[], cx.seed ^ 0x1A ^ t as u64);
  let mut ev = match guard(|| Sharks(t).dealer_rng(&secret, &mut rng).ok()) {
    Ok(Some(e)) => e,
    _ => return,
  };
  let n = t as usize + 2;
  let pool: Vec<Share> = (0..n).map(|i| if i % 5 == 4 { ev.gen(&mut ScriptRng::new(&[], 1000 + i as u64)) } else { ev.next().unwrap() }).collect();
  let xs: Vec<BigUint> = pool.iter().map(|s| fp_to_big(&s.x)).collect();
  let mut sels = structured_selections(n, t as usize);
  if t > 100 {
    sels.truncate(6);
    sels.push((0..t as usize - 1).chain(std::iter::once(0)).collect());
  }
  for sel in sels {
    let shares: Vec<Share> = sel.iter().map(|&i| pool[i].clone()).collect();
    let d = super::c01::distinct_x(&xs, &sel);
    cx.eval();
    cx.count("states", 1);
    cx.count("transitions", 1);
    cx.nontrivial(fnv_str(&format!("{}|{:?}", t, sel)));
    match guard(|| Sharks(t).recover(&shares).map_err(|e| e.to_string())) {
      Ok(Ok(b)) => {
        if d < t as usize || b != secret {
          cx.viol("C06/recover-wrong", format!("t={}: recover from {} distinct shares returned {}", t, d, if b == secret { "the secret" } else { "wrong bytes" }), json!({"t": t, "distinct": d}));
        }
        cx.count("ok", 1);
      }
      Ok(Err(_)) => {
        if d >= t as usize {
          cx.viol("C06/recover-refused", format!("t={}: recover refused {} distinct shares", t, d), json!({"t": t, "distinct": d}));
        }
        cx.count("err", 1);
      }
      Err(p) => cx.viol("C06/recover-panicked", p, json!({"t": t})),
    }
  }
  // model check of the polynomial on the surplus shares
  let polys = model_polys(&pool[..t as usize], 2);
  for s in &pool[t as usize..] {
    let (x, ys) = share_pts(s);
    cx.eval();
    for j in 0..2 {
      if rm::horner(&polys[j], &x) != ys[j] {
        cx.viol("C06/share-off-polynomial/large", format!("t={}: surplus share not on the degree-(t-1) polynomial", t), json!({"t": t}));
      }
    }
    if t >= 2 && polys[0][t as usize - 1].is_zero() {
      cx.viol("C06/degree-too-low", format!("t={}: leading coefficient zero", t), json!({"t": t}));
    }
  }
  cx.outcome(format!("t={}", t));
}

pub fn spec() -> PropSpec {
  PropSpec {
    id: "C06",
    level: "model_checking",
    assumptions: vec![
      "reference model: num-bigint Horner / Lagrange (independent of the field code under test)",
      "the iterator wrapping to x = 0 after p-1 shares is unreachable and not covered",
      "thresholds and element values beyond the listed ones are not covered; for t >= 40 the selection family is structured (stated), not exhaustive",
    ],
    thorough_budget_s: 1500,
    checks: vec![
      Check {
        name: "dealer-vs-model",
        rule: "t x k in {0,1,2,3,16} elements (rotations of the extreme-value list 0,1,2^64-1,2^64,2^128-1,2^128,p-1) x trailing partial chunk {0,1,23} x 3 random streams (counter, all-ones prefix forcing rejections, all-zero prefix): constant terms = secret, every further iterator share and 11 random-point shares (zero candidates, crafted boundary points) lie on the model polynomial, x != 0; distinct = configurations",
        gen: |tier| {
          let mut v = vec![];
          let ts: Vec<u64> = if tier.thorough() { vec![1, 2, 3, 4, 5, 6, 7, 8, 40, 64] } else { vec![1, 2, 3, 4, 5, 34] };
          for &t in &ts {
            for k in [0u64, 1, 2, 3, 16] {
              for rot in 0..(if tier.thorough() { 8 } else { 3 }) {
                for stream in 0..3 {
                  if t > 8 && (k > 2 || rot > 0) {
                    continue;
                  }
                  let trailing = [0, 1, 23][(rot % 3) as usize];
                  v.push(json!({"t": t, "k": k, "rot": rot, "trailing": trailing, "stream": stream}));
                }
              }
            }
          }
          v
        },
        run: run_dealer,
        min_counts: &[("gen_shares", 500)],
      },
      Check {
        name: "refusal",
        rule: "every position of one out-of-range element {p, p+1, 2^129, 2^192-1} in secrets of 1..3 elements x trailing {0,1,23} x t in {1,2,3}: dealer_rng must refuse; in-range secrets with trailing partial chunks are dealt and recover to the complete chunks",
        gen: |_| vec![json!({})],
        run: run_refusal,
        min_counts: &[("refused", 100), ("accepted", 10)],
      },
      Check {
        name: "call-histories",
        rule: "history independence on one thread: EVERY sequence of one or two calls from 16 disturbing uses of the public API (interpolate on ragged / empty / single / duplicate / same-point slices and on a wider sharing; recover with too few, unequal, duplicate, threshold-0, foreign shares; a refused dealing; a refused decoding) followed by three probes - recover and interpolate of a healthy sharing return the secret, dealing from the same source gives the same shares (secrets of 1..3 elements, t in {2,3})",
        gen: |_| {
          let mut v = vec![];
          for k in 1..=3u64 {
            for t in [2u64, 3] {
              v.push(json!({"k": k, "t": t}));
            }
          }
          v
        },
        run: run_call_histories,
        min_counts: &[("histories_probed", 1000)],
      },
      Check {
        name: "separate-draws",
        rule: "coefficients (by model interpolation) pairwise distinct and non-zero under a fresh stream; E-env single-word deviation at EVERY 8-byte word the dealer consumed changes at most one coefficient and every coefficient is changed by some word; also for secrets with REPEATED elements (all equal, all zero, A B A B, equal first and last; 2..5 elements): every element has a polynomial of its own",
        gen: |tier| {
          let mut v = vec![];
          for t in if tier.thorough() { vec![2u64, 3, 4, 5, 8, 34, 40] } else { vec![2u64, 3, 5, 34] } {
            for k in [1u64, 2, 3] {
              if t > 8 && k > 1 {
                continue;
              }
              v.push(json!({"t": t, "k": k}));
              if t <= 5 && k >= 2 {
                for rep in ["all-equal", "all-zero", "apart", "ends"] {
                  v.push(json!({"t": t, "k": k, "repeat": rep}));
                  v.push(json!({"t": t, "k": k + 2, "repeat": rep}));
                }
              }
              if t <= 8 {
                // streams whose first draws are zero / rejected candidates: a zero draw is a draw like any other
                v.push(json!({"t": t, "k": k, "stream": 1}));
                v.push(json!({"t": t, "k": k, "stream": 2}));
              }
            }
          }
          v
        },
        run: run_draws,
        min_counts: &[("evaluations", 100), ("repeated_element_secrets", 40)],
      },
      Check {
        name: "boundary-candidates",
        rule: "E-env on the caller's random source: for every coefficient position of (t, k) in {2,3,4} x {1,2} the stream offers the 24-byte candidate 2^128, 2^128+1, 2^128+12450, p-2, p-1 (valid, top of the range), 2^128-1, p, p+1 (invalid) exactly when that coefficient is drawn: the dealer's coefficients (model interpolation) equal the field's own `random` draws on the same stream - compared only after the same equality held on an ordinary stream (self-validating; otherwise counted, never an alarm)",
        gen: |_| {
          let mut v = vec![];
          for t in [2u64, 3, 4] {
            for k in [1u64, 2] {
              v.push(json!({"t": t, "k": k}));
            }
          }
          v
        },
        run: run_boundary_candidates,
        min_counts: &[("boundary_candidates_agree", 100)],
      },
      Check {
        name: "long-dealing-run",
        rule: "ONE dealer, 700 consecutive shares ((t, k) in {1,2,3,5} x {1,2}): every point non-zero and new, every share on the k polynomials fixed by the first t (model), and t shares taken from far-apart positions (around 255, 256, 511, 512, the end; stride 89) recover the secret",
        gen: |_| {
          let mut v = vec![];
          for t in [1u64, 2, 3, 5] {
            for k in [1u64, 2] {
              v.push(json!({"t": t, "k": k}));
            }
          }
          v
        },
        run: run_long_dealing,
        min_counts: &[("shares_dealt_by_one_dealer", 5000), ("far_apart_shares_recover", 60)],
      },
      Check {
        name: "same-point-other-value",
        rule: "two dealings of one 2-element secret from the sequential dealer (same points, other values), t in {2,3,4}: EVERY sequence of length 1..t+1 over the 2t shares: fewer than t distinct POINTS is refused (a share that repeats a point with another value does not count), and where the first share at each of exactly t points comes from one dealing the secret is recovered",
        gen: |_| [2u64, 3, 4].iter().map(|t| json!({"t": t})).collect(),
        run: run_same_point_other_value,
        min_counts: &[("refused_below_threshold", 300), ("recovered_one_dealing_first", 50)],
      },
      Check {
        name: "rejection-runs",
        rule: "E-env with deviation RUNS: the caller's random source offers 1, 2, 7, 8, 9, 23..26, 40, 100, 300 out-of-range candidates in a row while one of the first three coefficients is drawn (t in {2,3,5}): the dealer neither gives up nor falls back to a fixed value; its coefficients are the field's own draws from the rest of the stream",
        gen: |_| [2u64, 3, 5].iter().map(|t| json!({"t": t})).collect(),
        run: run_rejection_runs,
        min_counts: &[("rejection_runs_survived", 60)],
      },
      Check {
        name: "equal-values",
        rule: "distinct shares with EQUAL values (t = 3, 8 dealings): for each of the first three shares the twin point x' = -c1/c2 - x0 of the model's quadratic is dealt through Evaluator::gen with a scripted point (same value, other point); five collections holding both twins, or the twin instead of the share, recover the secret",
        gen: |_| (0..8u64).map(|k| json!({"key": k})).collect(),
        run: run_equal_values,
        min_counts: &[("equal_value_collections_recovered", 60)],
      },
      Check {
        name: "recovery-selections",
        rule: "pool of t+2 shares (iterator shares and random-point shares at crafted x: 2^128+1, 2^128+2, p-1, 2^64, 12450, 2^128); EVERY index sequence of length 0..t+2: Ok(secret bytes) iff >= t distinct x, result equals model Lagrange; a share of different width inserted at every position => Err; threshold 0 => Err",
        gen: |tier| {
          let mut v = vec![];
          for t in if tier.thorough() { vec![1u64, 2, 3, 4, 5] } else { vec![1u64, 2, 3, 4] } {
            for k in [1u64, 2] {
              for pool in 0..6 {
                if t >= 4 && (pool > 2 || k > 1) && !(tier.thorough() && t == 4) {
                  continue;
                }
                v.push(json!({"t": t, "k": k, "pool": pool}));
              }
            }
          }
          v
        },
        run: run_recover,
        min_counts: &[("ok", 1000), ("err", 100), ("unequal_width_refused", 100)],
      },
      Check {
        name: "threshold-sweep",
        rule: "EVERY threshold 1..=140 plus 191..194, 255..258, 512..514 (thorough: every threshold ..=640) with iterator shares only: first t in dealt order (x = 1..t), t+1, last t, reversed, with a repeat; t-1 must fail (threshold-dependent arithmetic: windows, batches, binomial shortcuts)",
        gen: |tier| {
          // quick: every t <= 140, then the neighbourhoods of 192, 256, 512; thorough: every t <= 640
          let mut ts: Vec<u64> = (1..=140).collect();
          if tier.thorough() {
            ts.extend(141..=640);
          } else {
            ts.extend([191, 192, 193, 194, 255, 256, 257, 258, 512, 513, 514]);
          }
          ts.chunks(4).map(|c| json!({"ts": c})).collect()
        },
        run: run_threshold_sweep,
        min_counts: &[("ok", 600)],
      },
      Check {
        name: "large-thresholds",
        rule: "t in {40,64,(600)}: structured selections (identity, reversal, rotations, duplicates at several positions, t-1 distinct padded) and surplus shares against the model polynomial - structured, not exhaustive",
        gen: |tier| if tier.thorough() { vec![json!({"t": 40}), json!({"t": 64}), json!({"t": 65}), json!({"t": 128}), json!({"t": 600})] } else { vec![json!({"t": 40}), json!({"t": 64})] },
        run: run_large,
        min_counts: &[("ok", 10)],
      },
    ],
  }
}
