//! C03 — associated data stays confidential below threshold (no keystream reuse).
use crate::mc::*;
use crate::sut::*;
use serde_json::{json, Value};

const KNOWN_KEY: &str = "C03/keystream-reuse/first-difference-block";

fn payload(meas: &[u8], aux: &Option<Vec<u8>>) -> Vec<u8> {
  let mut p = vec![];
  crate::refmodel::put_chunk(&mut p, meas);
  if let Some(a) = aux {
    crate::refmodel::put_chunk(&mut p, a);
  }
  p
}

fn aux_family(thorough: bool) -> Vec<Vec<u8>> {
  let mut v: Vec<Vec<u8>> = vec![];
  let mut lens: Vec<usize> = (1..=40).collect();
  lens.extend([100, 150, 165, 166, 167, 200, 331, 332, 333, 400, 600]);
  for &l in &lens {
    v.push(prbytes(100 + l as u64, l));
    v.push(prbytes(5000 + l as u64, l));
    // single-byte differences from the first content of this length
    let base = prbytes(100 + l as u64, l);
    let offs: Vec<usize> = if thorough && l <= 200 { (0..l).collect() } else { vec![0, l / 2, l - 1] };
    for o in offs {
      let mut b = base.clone();
      b[o] ^= 0x01;
      if !v.contains(&b) {
        v.push(b);
      }
    }
  }
  v
}

fn run_pairs(cx: &mut CaseCx, case: &Value) {
  let t = case["t"].as_u64().unwrap() as u32;
  let meas = meas_alphabet(true)[case["m"].as_u64().unwrap() as usize].clone();
  let epoch = epoch_alphabet(true)[case["e"].as_u64().unwrap() as usize].clone();
  let fam = aux_family(cx.tier.thorough());
  let rnd = local_randomness(&meas, &epoch, t);
  let mut cts: Vec<Vec<u8>> = vec![];
  let mut pls: Vec<Vec<u8>> = vec![];
  for (i, a) in fam.iter().enumerate() {
    getrandom::verif::set_group(i as u32 + 1);
    let aux = Some(a.clone());
    match gen_report(&meas, &epoch, t, &rnd, &aux) {
      Ok(m) => {
        cts.push(m.ciphertext.to_bytes());
        pls.push(payload(&meas, &aux));
      }
      Err(e) => {
        cx.viol("C03/generate-failed", e, json!({"aux_len": a.len()}));
        return;
      }
    }
    if cts[i].len() != pls[i].len() {
      cx.note("ciphertext length differs from the framed payload length: XOR relation evaluated on the common prefix");
    }
  }
  let part = case["part"].as_u64().unwrap_or(0) as usize;
  let parts = case["parts"].as_u64().unwrap_or(1) as usize;
  for i in 0..fam.len() {
    if i % parts != part {
      continue;
    }
    for j in 0..fam.len() {
      if i == j || fam[i] == fam[j] {
        continue;
      }
      let (p1, p2, c1, c2) = (&pls[i], &pls[j], &cts[i], &cts[j]);
      let n = p1.len().min(p2.len()).min(c1.len()).min(c2.len());
      let first = match (0..n).find(|&k| p1[k] != p2[k]) {
        Some(k) => k,
        None => continue, // one payload is a prefix of the other: no differing byte in the common part
      };
      cx.eval();
      let holds = |k: usize| (c1[k] ^ c2[k]) == (p1[k] ^ p2[k]);
      let block_end = ((first / BLOCK + 1) * BLOCK).min(n);
      let run = (first..block_end).take_while(|&k| holds(k)).count();
      let avail = block_end - first;
      if avail < 3 {
        cx.count("pairs_too_short_to_judge", 1);
        continue;
      }
      cx.nontrivial(fnv_str(&format!("{}|{}|{}", case, i, j)));
      // later blocks: does the plaintext difference also show through there?
      let mut later_full_block = false;
      let mut b = block_end;
      while b < n {
        let e = (b + BLOCK).min(n);
        if e - b >= 8 && (b..e).all(|k| holds(k)) && (b..e).any(|k| p1[k] != p2[k] || c1[k] != c2[k]) {
          later_full_block = true;
        }
        b = e;
      }
      // ... or does the relation simply run on PAST the end of that block (a cipher that restarts its blocks at
      // field boundaries instead of at multiples of the block size)?
      let beyond = if run == avail { (block_end..n).take_while(|&k| holds(k)).count() } else { 0 };
      let beyond_nontrivial = (block_end..block_end + beyond).filter(|&k| p1[k] != p2[k] || c1[k] != c2[k]).count();
      let d = || json!({"aux_len_1": fam[i].len(), "aux_len_2": fam[j].len(), "first_differing_payload_byte": first, "relation_holds_for_bytes": run, "bytes_to_block_end": avail, "relation_continues_past_block_end_for": beyond, "aux1": hexs(&fam[i]), "aux2": hexs(&fam[j])});
      if beyond >= 8 && beyond_nontrivial >= 4 && !later_full_block {
        cx.viol("C03/keystream-reuse/past-block-end", format!("c1^c2 == p1^p2 holds from the first differing byte (payload offset {}) to the end of its 166-byte cipher block AND for {} more bytes beyond it: more than the recorded finding (the keystream after the block boundary does not depend on the ciphertext before it)", first, beyond), d());
      } else if later_full_block {
        cx.viol("C03/keystream-reuse/across-blocks", "c1^c2 == p1^p2 also in a cipher block AFTER the one holding the first difference (keystream independent of earlier ciphertext)", d());
      } else if run == avail {
        cx.count("xor_relation_to_block_end", 1);
        cx.viol(KNOWN_KEY, "two reports of one measurement with different associated data: c1^c2 == p1^p2 from the first differing byte to the end of that cipher block", d());
      } else if run >= 3 {
        cx.viol("C03/keystream-reuse/partial", format!("c1^c2 == p1^p2 on {} consecutive bytes after the first difference", run), d());
      } else {
        cx.count("xor_relation_broken", 1);
        cx.outcome("xor-relation-broken");
      }
    }
  }
  cx.outcome(format!("family {}", fam.len()));
  cx.sample(json!({"t": t, "family": fam.len(), "example_aux_lens": [fam[0].len(), fam[fam.len() - 1].len()]}));
}

/// (a) aux never in the clear, (b) no window of the report opens the payload
fn run_windows(cx: &mut CaseCx, case: &Value) {
  let t = case["t"].as_u64().unwrap() as u32;
  let meas = meas_alphabet(true)[case["m"].as_u64().unwrap() as usize].clone();
  let epoch = match case["ebyte"].as_u64() {
    Some(b) => vec![b as u8], // single-byte epochs: collide with any one-byte domain separator of another derivation
    None => epoch_alphabet(true)[case["e"].as_u64().unwrap() as usize].clone(),
  };
  let alen = case["alen"].as_u64().unwrap() as usize;
  let aux = Some(prbytes(777 + alen as u64, alen));
  let rnd = local_randomness(&meas, &epoch, t);
  let msg = match gen_report(&meas, &epoch, t, &rnd, &aux) {
    Ok(m) => m,
    Err(e) => {
      cx.viol("C03/generate-failed", e, json!({}));
      return;
    }
  };
  let enc = msg.to_bytes();
  let pl = payload(&meas, &aux);
  let a = aux.as_ref().unwrap();
  cx.nontrivial(fnv_str(&case.to_string()));
  // (a) every 8-byte window of the associated data against every offset of the report
  if a.len() >= 8 {
    cx.eval();
    for off in 0..=(a.len() - 8) {
      if let Some(at) = enc.windows(8).position(|w| w == &a[off..off + 8]) {
        cx.viol("C03/aux-in-clear", format!("associated data bytes {}..{} appear in the clear at offset {} of the encoded report", off, off + 8, at), json!({"aux_len": alen, "aux_offset": off, "report_offset": at, "payload_len": pl.len()}));
        break;
      }
    }
  }
  // (a') report bytes used as KEYSTREAM: any 8-byte window of the report XORed onto any 8 ciphertext bytes must
  // not give 8 bytes of the associated data (a "key check value", a padding block or a nonce field that is in
  // fact cipher output for known input hands out keystream)
  {
    let ct = msg.ciphertext.to_bytes();
    let ctp = enc.windows(ct.len()).position(|w| w == &ct[..]);
    if a.len() >= 8 && ct.len() >= 8 {
      cx.eval();
      let aux_windows: std::collections::HashSet<[u8; 8]> = a.windows(8).map(|w| w.try_into().unwrap()).collect();
      let mut found: Option<(usize, usize)> = None;
      'outer: for i in 0..=(enc.len() - 8) {
        // a window that lies inside the ciphertext itself XORed with the ciphertext at the same place is zero: skip overlaps
        for j in 0..=(ct.len() - 8) {
          if let Some(cp) = ctp {
            if i + 8 > cp + j && i < cp + j + 8 {
              continue;
            }
          }
          let mut x = [0u8; 8];
          for k in 0..8 {
            x[k] = enc[i + k] ^ ct[j + k];
          }
          if aux_windows.contains(&x) {
            found = Some((i, j));
            break 'outer;
          }
        }
      }
      if let Some((i, j)) = found {
        cx.viol("C03/report-carries-keystream", format!("bytes {}..{} of the encoded report XORed onto ciphertext bytes {}..{} give 8 bytes of the associated data: the report carries keystream of its own payload encryption", i, i + 8, j, j + 8), json!({"report_offset": i, "ciphertext_offset": j, "aux_len": alen}));
      }
    }
  }
  // the measurement part of the payload as well (it is what the aux is framed with)
  if meas.len() >= 8 {
    cx.eval();
    for off in 0..=(meas.len() - 8) {
      if let Some(at) = enc.windows(8).position(|w| w == &meas[off..off + 8]) {
        cx.viol("C03/measurement-in-clear", format!("measurement bytes {}.. appear in the clear at offset {}", off, at), json!({"report_offset": at}));
        break;
      }
    }
  }
  // (b) every 16- and 32-byte window as key, raw and through derive_ske_key; plus junk keys
  let mut try_key = |cx: &mut CaseCx, key: &[u8], how: &str, at: usize| {
    cx.eval();
    let plain = msg.ciphertext.decrypt(key, "star_encrypt");
    if plain == pl {
      cx.viol(format!("C03/decryptable-with-report-value/{}", how), format!("the payload decrypts under {} (offset {})", how, at), json!({"how": how, "offset": at, "aux_len": alen, "payload_len": pl.len()}));
      return true;
    }
    false
  };
  let mut hit = false;
  for w in [16usize, 32] {
    for at in 0..=(enc.len().saturating_sub(w)) {
      if hit {
        break;
      }
      let win = &enc[at..at + w];
      hit |= try_key(cx, win, if w == 16 { "a 16-byte window of the report" } else { "a 32-byte window of the report" }, at);
      let mut k = vec![0u8; 16];
      sta_rs::derive_ske_key(win, &epoch, &mut k);
      hit |= try_key(cx, &k, "derive_ske_key of a window of the report", at);
    }
  }
  // (b') two-step chain: a report window taken as the SHARING key opens the share's encrypted message,
  // whose content derives the payload key. The Strobe replica of the share encryption is an extraction
  // aid: it is used only if it reproduces the recovered message from the true sharing key.
  if !hit {
    let mut group = vec![msg.clone()];
    for i in 1..t {
      getrandom::verif::set_group(900 + i);
      if let Ok(m2) = gen_report(&meas, &epoch, t, &rnd, &None) {
        group.push(m2);
      }
    }
    let shares: Vec<sta_rs::Share> = group.iter().map(|m| m.share.clone()).collect();
    let parsed = crate::refmodel::parse_adss(&msg.share.to_bytes());
    if let (Ok(Ok(r0)), Some(p)) = (recover_msg(&shares), parsed) {
      let open_c = |k: &[u8]| -> Vec<u8> {
        let mut st = strobe_rs::Strobe::new(b"adss encrypt", strobe_rs::SecParam::B128);
        st.key(k, false);
        let mut m = p.c.clone();
        st.recv_enc(&mut m, false);
        m
      };
      let xs: Vec<num_bigint::BigUint> = group.iter().filter_map(|m| share_x(&m.share.to_bytes())).collect();
      let g = super::c01::Group { msgs: group.clone(), xs, auxs: vec![], meas: meas.clone(), epoch: epoch.clone(), t };
      let validated = super::c01::sharing_key(&g).map(|k| open_c(&k) == r0).unwrap_or(false);
      if validated {
        cx.count("chain_replica_validated", 1);
        for at in 0..=(enc.len().saturating_sub(16)) {
          let cand = open_c(&enc[at..at + 16]);
          let mut k = vec![0u8; 16];
          sta_rs::derive_ske_key(&cand, &epoch, &mut k);
          if try_key(cx, &k, "a 16-byte window of the report used as sharing key (window -> encrypted message -> payload key)", at) {
            hit = true;
            break;
          }
        }
      } else {
        cx.count("chain_replica_unavailable", 1);
      }
    }
  }
  // (b'') a report window taken as the ROOT of the client's own derivation: (i) through the public helpers
  // (window -> strobe_digest "star_derive_randoms" index 0..2 -> derive_ske_key), (ii) without knowing any label:
  // the observer generates a report of its OWN with the window as randomness and a payload it knows, takes the
  // keystream of that report's first cipher block and applies it to the victim's ciphertext
  if !hit {
    let ct = msg.ciphertext.to_bytes();
    let n = ct.len().min(pl.len()).min(40);
    'roots: for at in 0..=(enc.len().saturating_sub(32)) {
      let win: [u8; 32] = enc[at..at + 32].try_into().unwrap();
      for i in 0..3u8 {
        let mut r = [0u8; 32];
        sta_rs::strobe_digest(&win, &[&[i]], "star_derive_randoms", &mut r);
        let mut k = vec![0u8; 16];
        sta_rs::derive_ske_key(&r, &epoch, &mut k);
        if try_key(cx, &k, "a 32-byte window of the report expanded like the client's randomness (window -> derived value -> payload key)", at) {
          hit = true;
          break 'roots;
        }
      }
      if n >= 12 {
        cx.eval();
        let own_aux = Some(vec![0x5au8; 64]);
        if let Ok(own) = gen_report(b"observer's own measurement", &epoch, t, &win, &own_aux) {
          let own_ct = own.ciphertext.to_bytes();
          let own_pl = payload(b"observer's own measurement", &own_aux);
          let m = n.min(own_ct.len()).min(own_pl.len());
          if m >= 12 && (0..m).all(|k| (ct[k] ^ own_ct[k] ^ own_pl[k]) == pl[k]) {
            cx.viol("C03/decryptable-with-report-value/own-report-keystream", format!("a report the observer generates itself with bytes {}..{} of the victim's report as randomness encrypts under the victim's keystream: its first {} payload bytes open the victim's", at, at + 32, m), json!({"offset": at, "aux_len": alen}));
            hit = true;
            break 'roots;
          }
        }
      }
    }
  }
  for (name, key) in [("the all-zero key", vec![0u8; 16]), ("an empty key", vec![]), ("the tag", msg.tag.clone()), ("the public label as key", b"star_encrypt".to_vec())] {
    if !hit {
      hit |= try_key(cx, &key, name, 0);
    }
  }
  cx.outcome(if hit { "opened" } else { "sealed" });
  cx.sample(json!({"aux_len": alen, "report_len": enc.len(), "windows_tried": 2 * enc.len()}));
}



/// A bounded "algebraic adversary" holding ONE report: every XOR of 2..3 of its byte fields and every
/// sum / difference / product / quotient of two of its field elements, used as payload key, as the shared
/// message (-> derive_ske_key) and as sharing key (-> encrypted message -> derive_ske_key).
fn run_single_report_algebra(cx: &mut CaseCx, case: &Value) {
  use crate::refmodel as rm;
  let t = case["t"].as_u64().unwrap() as u32;
  let meas = meas_alphabet(true)[case["m"].as_u64().unwrap() as usize].clone();
  let epoch = epoch_alphabet(true)[case["e"].as_u64().unwrap() as usize].clone();
  let alen = case["alen"].as_u64().unwrap() as usize;
  let aux = Some(prbytes(0x5A1 + alen as u64, alen));
  let rnd = local_randomness(&meas, &epoch, t);
  let mut group = vec![];
  for i in 0..t.max(1) {
    getrandom::verif::set_group(i + 1);
    match gen_report(&meas, &epoch, t, &rnd, &aux) {
      Ok(m) => group.push(m),
      Err(e) => {
        cx.viol("C03/generate-failed", e, json!({}));
        return;
      }
    }
  }
  let msg = group[0].clone();
  let pl = payload(&meas, &aux);
  let parsed = match rm::parse_adss(&msg.share.to_bytes()) {
    Some(p) => p,
    None => {
      cx.count("share_shape_unexpected", 1);
      return;
    }
  };
  let open_c = |k: &[u8]| -> Vec<u8> {
    let mut st = strobe_rs::Strobe::new(b"adss encrypt", strobe_rs::SecParam::B128);
    st.key(k, false);
    let mut m = parsed.c.clone();
    st.recv_enc(&mut m, false);
    m
  };
  // is the replica of the share encryption valid? (true sharing key from ALL t shares, any y column)
  let shares: Vec<sta_rs::Share> = group.iter().map(|m| m.share.clone()).collect();
  let r0_true = recover_msg(&shares).ok().and_then(|r| r.ok());
  let all: Vec<rm::AdssShare> = group.iter().filter_map(|m| rm::parse_adss(&m.share.to_bytes())).collect();
  let replica_ok = all.len() == group.len()
    && (0..parsed.s.y.len()).any(|c| {
      if all.iter().any(|p| p.s.y.len() <= c) {
        return false;
      }
      let pts: Vec<(num_bigint::BigUint, num_bigint::BigUint)> = all.iter().map(|p| (p.s.x.clone(), p.s.y[c].clone())).collect();
      r0_true == Some(open_c(&rm::le24(&rm::lagrange_at_zero(&pts))[..16]))
    });
  cx.count(if replica_ok { "chain_replica_validated" } else { "chain_replica_unavailable" }, 1);
  // candidate values
  let mut cands: Vec<(String, Vec<u8>)> = vec![];
  let ct = msg.ciphertext.to_bytes();
  let mut fields: Vec<(&str, Vec<u8>)> = vec![("tag", msg.tag.clone()), ("C", parsed.c.clone()), ("D", parsed.d.clone())];
  if parsed.j.len() >= 64 {
    fields.push(("J[0..32]", parsed.j[..32].to_vec()));
    fields.push(("J[32..64]", parsed.j[32..64].to_vec()));
  }
  if ct.len() >= 36 {
    fields.push(("ciphertext[4..36]", ct[4..36].to_vec()));
  }
  let xor = |a: &[u8], b: &[u8]| -> Vec<u8> { a.iter().zip(b.iter()).map(|(x, y)| x ^ y).collect() };
  for i in 0..fields.len() {
    for j in i + 1..fields.len() {
      let v = xor(&fields[i].1, &fields[j].1);
      cands.push((format!("{} ^ {}", fields[i].0, fields[j].0), v.clone()));
      for k in j + 1..fields.len() {
        cands.push((format!("{} ^ {} ^ {}", fields[i].0, fields[j].0, fields[k].0), xor(&v, &fields[k].1)));
      }
    }
  }
  let mut elems: Vec<(String, num_bigint::BigUint)> = vec![("x".into(), parsed.s.x.clone())];
  for (i, y) in parsed.s.y.iter().enumerate() {
    elems.push((format!("y{}", i), y.clone()));
  }
  elems.push(("t".into(), rm::big(t as u128)));
  for (na, a) in &elems {
    cands.push((na.clone(), rm::le24(a).to_vec()));
    cands.push((format!("-{}", na), rm::le24(&rm::negm(a)).to_vec()));
    for (nb, b) in &elems {
      if na == nb {
        continue;
      }
      cands.push((format!("{} + {}", na, nb), rm::le24(&rm::addm(a, b)).to_vec()));
      cands.push((format!("{} - {}", na, nb), rm::le24(&rm::subm(a, b)).to_vec()));
      cands.push((format!("{} * {}", na, nb), rm::le24(&rm::mulm(a, b)).to_vec()));
      if let Some(inv) = rm::invm(b) {
        cands.push((format!("{} / {}", na, nb), rm::le24(&rm::mulm(a, &inv)).to_vec()));
      }
    }
  }
  cx.count("candidates", cands.len() as u64);
  cx.nontrivial(fnv_str(&case.to_string()));
  let opens = |key: &[u8]| -> bool { msg.ciphertext.decrypt(key, "star_encrypt") == pl };
  for (name, v) in &cands {
    if v.is_empty() {
      continue;
    }
    let mut hits: Vec<&str> = vec![];
    cx.eval();
    if opens(&v[..v.len().min(16)]) || opens(v) {
      hits.push("used directly as the payload key");
    }
    let mut k = vec![0u8; 16];
    sta_rs::derive_ske_key(v, &epoch, &mut k);
    if opens(&k) {
      hits.push("used as the shared message (derive_ske_key of it is the payload key)");
    }
    if v.len() >= 16 && replica_ok {
      let r0 = open_c(&v[..16]);
      let mut k2 = vec![0u8; 16];
      sta_rs::derive_ske_key(&r0, &epoch, &mut k2);
      if opens(&k2) {
        hits.push("used as the sharing key (it opens the share's encrypted message, which derives the payload key)");
      }
    }
    if let Some(h) = hits.first() {
      cx.viol("C03/decryptable-with-report-value/algebraic", format!("the payload of a single report (threshold {}) decrypts with the value {} computed from that report alone, {}", t, name, h), json!({"t": t, "value": name, "how": h, "aux_len": alen}));
      return;
    }
  }
  cx.outcome("sealed");
  cx.sample(json!({"t": t, "candidates": cands.len(), "replica_validated": replica_ok}));
}


/// The client API used in other SHAPES than "fresh zeroed buffer": the randomness buffer reused across calls,
/// pre-filled, or the generator reused. A below-threshold report must then (a) still be the report a fresh
/// client produces, and (b) never open under a key that depends on public values only (what the report would
/// be keyed with if the randomness degenerated to zeros / 0xff / the epoch).
fn run_client_usage(cx: &mut CaseCx, case: &Value) {
  use sta_rs::{MessageGenerator, SingleMeasurement};
  let t = case["t"].as_u64().unwrap() as u32;
  let meas = meas_alphabet(true)[case["m"].as_u64().unwrap() as usize].clone();
  let epoch = epoch_alphabet(true)[case["e"].as_u64().unwrap() as usize].clone();
  let aux = Some(prbytes(0xC11E, 40));
  let pl = payload(&meas, &aux);
  let mg = MessageGenerator::new(SingleMeasurement::new(&meas), t, &epoch);
  let fresh = local_randomness(&meas, &epoch, t);
  // keys an outsider can compute: the report keyed as if the client randomness were a public constant
  let mut public_keys: Vec<(String, Vec<u8>)> = vec![];
  let mut ep32 = [0u8; 32];
  ep32[..epoch.len().min(32)].copy_from_slice(&epoch[..epoch.len().min(32)]);
  for (name, rnd) in [("all-zero randomness", [0u8; 32]), ("all-0xff randomness", [0xffu8; 32]), ("the epoch as randomness", ep32)] {
    // the key such a client would hold (share_with... is not usable with a given randomness; the payload key is
    // what opens a report generated from that randomness, found by recovering it from t such reports)
    let mut msgs = vec![];
    for i in 0..t.max(1) {
      getrandom::verif::set_group(200 + i);
      if let Ok(m) = gen_report(&meas, &epoch, t, &rnd, &None) {
        msgs.push(m);
      }
    }
    let shares: Vec<sta_rs::Share> = msgs.iter().map(|m| m.share.clone()).collect();
    if let Ok(Ok(r0)) = recover_msg(&shares) {
      let mut k = vec![0u8; 16];
      sta_rs::derive_ske_key(&r0, &epoch, &mut k);
      public_keys.push((name.to_string(), k));
    }
  }
  cx.count("public_keys_tried", public_keys.len() as u64);
  // usage shapes producing "the client's randomness"
  let mut shapes: Vec<(&str, [u8; 32])> = vec![];
  let mut b = [0u8; 32];
  mg.sample_local_randomness(&mut b);
  shapes.push(("fresh zeroed buffer", b));
  mg.sample_local_randomness(&mut b);
  shapes.push(("the same buffer, second call", b));
  mg.sample_local_randomness(&mut b);
  shapes.push(("the same buffer, third call", b));
  let mut c = [0xffu8; 32];
  mg.sample_local_randomness(&mut c);
  shapes.push(("buffer pre-filled with 0xff", c));
  let mut d = local_randomness(b"another measurement", &epoch, t);
  mg.sample_local_randomness(&mut d);
  shapes.push(("buffer that held another measurement's randomness", d));
  for (shape, rnd) in shapes {
    cx.eval();
    cx.nontrivial(fnv_str(&format!("{}|{}", case, shape)));
    if rnd != fresh {
      cx.viol("C03/client-usage/randomness-differs", format!("sample_local_randomness into {} gives another value than a fresh client's (t={})", shape, t), json!({"usage": shape, "all_zero": rnd == [0u8; 32]}));
    }
    getrandom::verif::set_group(1);
    let msg = match gen_report(&meas, &epoch, t, &rnd, &aux) {
      Ok(m) => m,
      Err(e) => {
        cx.viol("C03/generate-failed", e, json!({"usage": shape}));
        continue;
      }
    };
    for (name, k) in &public_keys {
      cx.eval();
      if msg.ciphertext.decrypt(k, "star_encrypt") == pl {
        cx.viol("C03/decryptable-with-public-values", format!("a single report (threshold {}) whose client obtained its randomness through '{}' decrypts under the key that follows from {}: the associated data is readable by anyone", t, shape, name), json!({"usage": shape, "public_key_from": name, "t": t}));
        return;
      }
    }
    cx.count("usage_shapes_sealed", 1);
  }
  cx.outcome("usage shapes sealed");
}

/// pooling across NEIGHBOURING epochs: one report of the same measurement from each of t epochs that a
/// canonicalisation could merge (each epoch alone stays below threshold): no recovery, no decryption
fn run_epoch_pooling(cx: &mut CaseCx, case: &Value) {
  let t = case["t"].as_u64().unwrap() as u32;
  let bases: Vec<Vec<u8>> = vec![b"epoch".to_vec(), vec![0x80], vec![0xfe], vec![0, 0, 0, 254], vec![0xc3, 0x28], "caf\u{e9} ".as_bytes().to_vec()];
  let base = bases[case["b"].as_u64().unwrap() as usize % bases.len()].clone();
  let meas = b"pooled measurement".to_vec();
  let aux = Some(prbytes(0xE90C, 24));
  let pl = payload(&meas, &aux);
  let mut epochs: Vec<(String, Vec<u8>)> = vec![("the base epoch".into(), base.clone())];
  epochs.extend(super::c04::neighbours(&base));
  // binary counters: the following values
  for d in 1..=3u8 {
    let mut e = base.clone();
    if let Some(l) = e.last_mut() {
      *l = l.wrapping_add(d);
      epochs.push((format!("last byte + {}", d), e));
    }
  }
  let reports: Vec<(String, Vec<u8>, sta_rs::Message)> = epochs
    .into_iter()
    .enumerate()
    .filter_map(|(i, (how, e))| {
      getrandom::verif::set_group(i as u32 + 1);
      gen_report(&meas, &e, t, &local_randomness(&meas, &e, t), &aux).ok().map(|m| (how, e, m))
    })
    .collect();
  // every window of t consecutive epochs of the family, and the base with each t-1 others
  let n = reports.len();
  let mut pools: Vec<Vec<usize>> = vec![];
  for i in 0..n.saturating_sub(t as usize - 1) {
    pools.push((i..i + t as usize).collect());
  }
  for i in 1..n.saturating_sub(t as usize - 2) {
    let mut p = vec![0usize];
    p.extend(i..i + t as usize - 1);
    pools.push(p);
  }
  for pool in pools {
    let shares: Vec<sta_rs::Share> = pool.iter().map(|&i| reports[i].2.share.clone()).collect();
    cx.eval();
    cx.nontrivial(fnv_str(&format!("{}|{:?}", case, pool)));
    if let Ok(Ok(r0)) = recover_msg(&shares) {
      // a recovery across epochs: does it open any of the reports?
      for &i in &pool {
        let mut k = vec![0u8; 16];
        sta_rs::derive_ske_key(&r0, &reports[i].1, &mut k);
        if reports[i].2.ciphertext.decrypt(&k, "star_encrypt") == pl {
          cx.viol("C03/pooled-across-epochs", format!("one report per epoch from {} different epochs ({}) - each epoch below its threshold {} - recover together and open the associated data", t, pool.iter().map(|&j| reports[j].0.clone()).collect::<Vec<_>>().join(" | "), t), json!({"t": t, "epochs": pool.iter().map(|&j| hexs(&reports[j].1)).collect::<Vec<_>>()}));
          return;
        }
      }
      cx.count("cross_epoch_recoveries_that_open_nothing", 1);
    } else {
      cx.count("pools_sealed", 1);
    }
  }
  cx.outcome(format!("t={}", t));
}


/// Coalition census: for several thousand measurements, every coalition of t-1 reports interpolates its own
/// share points and follows the chain key -> encrypted message -> payload key (a sharing polynomial that
/// loses a coefficient once in a few hundred measurements shows here; for t = 2 the candidate is the single
/// share's value itself)
fn run_coalition_census(cx: &mut CaseCx, case: &Value) {
  let t = case["t"].as_u64().unwrap() as u32;
  let lo = case["lo"].as_u64().unwrap();
  let epoch = b"census".to_vec();
  let aux = Some(b"census aux".to_vec());
  for i in lo..lo + 400 {
    let meas = format!("measurement-{}", i).into_bytes();
    let rnd = local_randomness(&meas, &epoch, t);
    let mut msgs = vec![];
    for k in 0..t {
      getrandom::verif::set_group(k + 1);
      match gen_report(&meas, &epoch, t, &rnd, &aux) {
        Ok(m) => msgs.push(m),
        Err(_) => break,
      }
    }
    if msgs.len() != t as usize {
      continue;
    }
    let parsed: Vec<crate::refmodel::AdssShare> = msgs.iter().filter_map(|m| crate::refmodel::parse_adss(&m.share.to_bytes())).collect();
    if parsed.len() != t as usize || parsed.iter().any(|p| p.s.y.is_empty()) {
      continue;
    }
    let open_c = |k: &[u8]| -> Vec<u8> {
      let mut st = strobe_rs::Strobe::new(b"adss encrypt", strobe_rs::SecParam::B128);
      st.key(k, false);
      let mut m = parsed[0].c.clone();
      st.recv_enc(&mut m, false);
      m
    };
    let pl = payload(&meas, &aux);
    // replica validation with the full set (first y column)
    let all: Vec<(num_bigint::BigUint, num_bigint::BigUint)> = parsed.iter().map(|p| (p.s.x.clone(), p.s.y[0].clone())).collect();
    let shares: Vec<sta_rs::Share> = msgs.iter().map(|m| m.share.clone()).collect();
    let k_true = crate::refmodel::le24(&crate::refmodel::lagrange_at_zero(&all));
    if recover_msg(&shares).ok().and_then(|r| r.ok()) != Some(open_c(&k_true[..16])) {
      cx.count("chain_replica_unavailable", 1);
      continue;
    }
    cx.eval();
    cx.nontrivial(i ^ ((t as u64) << 32));
    // every coalition of t-1 reports (drop one)
    for drop in 0..t as usize {
      let pts: Vec<(num_bigint::BigUint, num_bigint::BigUint)> = (0..t as usize).filter(|&j| j != drop).map(|j| all[j].clone()).collect();
      if pts.is_empty() {
        continue;
      }
      let kk = crate::refmodel::le24(&crate::refmodel::lagrange_at_zero(&pts));
      let r0 = open_c(&kk[..16]);
      let mut key = vec![0u8; 16];
      sta_rs::derive_ske_key(&r0, &epoch, &mut key);
      if msgs[0].ciphertext.decrypt(&key, "star_encrypt") == pl {
        cx.viol("C03/sub-threshold-coalition-opens-payload/census", format!("measurement-{} (threshold {}): {} report(s) suffice to open the payload and read the associated data - interpolating their share points already gives the sharing key (this measurement's polynomial has degree < t-1)", i, t, t - 1), json!({"measurement": format!("measurement-{}", i), "t": t, "coalition_size": t - 1}));
        return;
      }
    }
    cx.count("census_coalitions_sealed", 1);
  }
  cx.outcome(format!("t={}", t));
}

/// every associated-data length 0..=420 for two measurement lengths: nothing of it in the clear
fn run_length_sweep(cx: &mut CaseCx, case: &Value) {
  let lo = case["lo"].as_u64().unwrap() as usize;
  for alen in lo..lo + 30 {
    for mlen in [1usize, 29, 124] {
      let meas = prbytes(0xA0 + mlen as u64, mlen);
      let aux = Some(prbytes(0xA1 + alen as u64, alen));
      let rnd = local_randomness(&meas, b"t", 2);
      let msg = match gen_report(&meas, b"t", 2, &rnd, &aux) {
        Ok(m) => m,
        Err(e) => {
          cx.viol("C03/generate-failed", e, json!({}));
          continue;
        }
      };
      let enc = msg.to_bytes();
      let a = aux.as_ref().unwrap();
      cx.eval();
      cx.nontrivial(fnv(&enc));
      if a.len() >= 8 {
        for off in 0..=(a.len() - 8) {
          if let Some(at) = enc.windows(8).position(|w| w == &a[off..off + 8]) {
            cx.viol("C03/aux-in-clear", format!("associated data bytes {}..{} appear in the clear at offset {} of the encoded report (measurement {} bytes, associated data {} bytes, payload {} bytes)", off, off + 8, at, mlen, alen, 8 + mlen + alen), json!({"aux_len": alen, "measurement_len": mlen, "aux_offset": off, "report_offset": at}));
            break;
          }
        }
      }
      // and the ciphertext has the payload's length (the property allows the length to leak, nothing else)
      if msg.ciphertext.to_bytes().len() != 8 + mlen + alen {
        cx.count("ciphertext_length_differs_from_payload", 1);
      }
      // "nothing beyond its length": associated data of the SAME length but another structure (all zero, one
      // repeated byte, two alternating bytes, runs) gives a report of the same size
      if alen >= 3 && alen % 7 == 3 {
        let len0 = enc.len();
        for (what, other) in [("all zero", vec![0u8; alen]), ("one repeated byte", vec![0x41u8; alen]), ("alternating", (0..alen).map(|i| if i % 2 == 0 { 0xAA } else { 0x55 }).collect::<Vec<u8>>()), ("runs of 16", (0..alen).map(|i| (i / 16) as u8).collect::<Vec<u8>>())] {
          cx.eval();
          if let Ok(m2) = gen_report(&meas, b"t", 2, &rnd, &Some(other)) {
            let l2 = m2.to_bytes().len();
            if l2 != len0 {
              cx.viol("C03/length-depends-on-content", format!("two reports of one measurement whose associated data have the same length ({} bytes) but another content (pseudo-random vs {}) have different sizes ({} vs {} bytes): the report reveals more about the associated data than its length", alen, what, len0, l2), json!({"aux_len": alen, "measurement_len": mlen, "structure": what, "sizes": [len0, l2]}));
              return;
            }
            cx.count("same_length_same_size", 1);
          }
        }
      }
    }
  }
  cx.outcome("aux length sweep");
}

/// sub-threshold coalitions: k < t reports, interpolate through their share points, follow the chain to the payload
fn run_coalition(cx: &mut CaseCx, case: &Value) {
  let t = case["t"].as_u64().unwrap() as u32;
  let meas = b"coalition target".to_vec();
  let epoch = b"t".to_vec();
  let rnd = local_randomness(&meas, &epoch, t);
  let aux = Some(prbytes(0xC0A + t as u64, 40));
  let mut msgs = vec![];
  for i in 0..t {
    getrandom::verif::set_group(i + 1);
    match gen_report(&meas, &epoch, t, &rnd, &aux) {
      Ok(m) => msgs.push(m),
      Err(_) => return,
    }
  }
  let pl = payload(&meas, &aux);
  let parsed: Vec<crate::refmodel::AdssShare> = msgs.iter().filter_map(|m| crate::refmodel::parse_adss(&m.share.to_bytes())).collect();
  if parsed.len() != t as usize || parsed.iter().any(|p| p.s.y.is_empty() || p.s.y.len() != parsed[0].s.y.len()) {
    cx.count("share_shape_unexpected", 1);
    cx.note("the shares did not parse with one or more y values each: coalition check skipped for that threshold");
    return;
  }
  let ncols = parsed[0].s.y.len();
  let open_c = |k: &[u8]| -> Vec<u8> {
    let mut st = strobe_rs::Strobe::new(b"adss encrypt", strobe_rs::SecParam::B128);
    st.key(k, false);
    let mut m = parsed[0].c.clone();
    st.recv_enc(&mut m, false);
    m
  };
  // replica validation with the full set
  // the y column that carries the sharing key (the layout has one column; a layout with several is searched)
  let shares: Vec<sta_rs::Share> = msgs.iter().map(|m| m.share.clone()).collect();
  let r0_true = recover_msg(&shares).ok().and_then(|r| r.ok());
  let col = (0..ncols).find(|&c| {
    let pts: Vec<(num_bigint::BigUint, num_bigint::BigUint)> = parsed.iter().map(|p| (p.s.x.clone(), p.s.y[c].clone())).collect();
    let k = crate::refmodel::le24(&crate::refmodel::lagrange_at_zero(&pts));
    r0_true == Some(open_c(&k[..16]))
  });
  let col = match col {
    Some(c) => c,
    None => {
      cx.count("chain_replica_unavailable", 1);
      cx.note("the Strobe replica of the share encryption did not reproduce the recovered message from any y column: coalition check skipped, never an alarm");
      return;
    }
  };
  let all: Vec<(num_bigint::BigUint, num_bigint::BigUint)> = parsed.iter().map(|p| (p.s.x.clone(), p.s.y[col].clone())).collect();
  cx.count("chain_replica_validated", 1);
  for k in 1..t as usize {
    let mut subsets: Vec<Vec<usize>> = vec![];
    if t <= 6 {
      for_each_subset(t as usize, k, |s| subsets.push(s.to_vec()));
    } else {
      subsets.push((0..k).collect());
      subsets.push((t as usize - k..t as usize).collect());
    }
    for sub in subsets {
      // candidates: interpolation of every y column through the coalition's points, and differences of columns
      let mut cands: Vec<num_bigint::BigUint> = vec![];
      for c in 0..ncols {
        let pts: Vec<(num_bigint::BigUint, num_bigint::BigUint)> = sub.iter().map(|&i| (parsed[i].s.x.clone(), parsed[i].s.y[c].clone())).collect();
        cands.push(crate::refmodel::lagrange_at_zero(&pts));
      }
      for a in 0..ncols {
        for b in 0..ncols {
          if a != b {
            let d = crate::refmodel::subm(&cands[a], &cands[b]);
            cands.push(d);
          }
        }
      }
      let _ = &all;
      let mut opened = false;
      for cand in &cands {
        let kk = crate::refmodel::le24(cand);
        let r0 = open_c(&kk[..16]);
        let mut key = vec![0u8; 16];
        sta_rs::derive_ske_key(&r0, &epoch, &mut key);
        cx.eval();
        opened |= msgs[0].ciphertext.decrypt(&key, "star_encrypt") == pl;
      }
      cx.nontrivial(fnv_str(&format!("{}|{:?}", t, sub)));
      if opened {
        cx.viol("C03/sub-threshold-coalition-opens-payload", format!("{} < t = {} reports suffice to open the payload: interpolating their share points gives the sharing key (the sharing polynomial has degree < t-1)", k, t), json!({"t": t, "coalition": sub}));
        return;
      }
      cx.count("coalitions_sealed", 1);
    }
  }
  cx.outcome(format!("t={}", t));
}

/// two aggregations of one measurement and epoch under different thresholds, generated back-to-back on one thread:
/// opening the smaller one must not open the lone reports of the other
fn run_cross_aggregation(cx: &mut CaseCx, case: &Value) {
  let t1 = case["t1"].as_u64().unwrap() as u32;
  let t2 = case["t2"].as_u64().unwrap() as u32;
  let meas = b"same measurement".to_vec();
  let epoch = b"t".to_vec();
  let mk = |t: u32, n: u32| -> Vec<sta_rs::Message> {
    let mut v = vec![];
    for i in 0..n {
      let mg = sta_rs::MessageGenerator::new(sta_rs::SingleMeasurement::new(&meas), t, &epoch);
      let mut rnd = [0u8; 32];
      mg.sample_local_randomness(&mut rnd);
      if let Ok(m) = sta_rs::Message::generate(&mg, &rnd, Some(sta_rs::AssociatedData::new(&prbytes(0xCA + (t * 16 + i) as u64, 24)))) {
        v.push(m);
      }
    }
    v
  };
  let a = mk(t1, t1);
  let b = mk(t2, 1); // a lone report of the other aggregation
  let a2 = mk(t1, 1);
  if a.len() != t1 as usize || b.is_empty() {
    return;
  }
  cx.eval();
  cx.nontrivial(fnv_str(&case.to_string()));
  let shares: Vec<sta_rs::Share> = a.iter().map(|m| m.share.clone()).collect();
  if let Ok(Ok(r0)) = recover_msg(&shares) {
    let mut key = vec![0u8; 16];
    sta_rs::derive_ske_key(&r0, &epoch, &mut key);
    let plain = b[0].ciphertext.decrypt(&key, "star_encrypt");
    if sta_rs::load_bytes(&plain).map(|m| m == &meas[..]).unwrap_or(false) {
      cx.viol("C03/other-aggregation-key-opens-report", format!("a lone report under threshold {} decrypts with the key recovered from the threshold-{} aggregation of the same measurement and epoch (generated right before on the same thread)", t2, t1), json!({"t1": t1, "t2": t2}));
    } else {
      cx.count("cross_aggregation_sealed", 1);
    }
    if b[0].tag == a[0].tag {
      cx.viol("C03/other-aggregation-same-tag", format!("reports under thresholds {} and {} carry the same tag", t1, t2), json!({"t1": t1, "t2": t2}));
    }
    let _ = a2;
  }
  cx.outcome("cross aggregation");
}


/// a popular measurement must not open the lone report of a RELATED one (common prefix, NUL padding, prefix-of)
fn run_related_measurements(cx: &mut CaseCx, case: &Value) {
  let t = case["t"].as_u64().unwrap() as u32;
  let base = b"https://origin.example/some/long/path/that/is/shared".to_vec(); // 52 bytes
  let rel: Vec<(&str, Vec<u8>, Vec<u8>)> = vec![
    ("common 52-byte prefix", [&base[..], b"/a"].concat(), [&base[..], b"/b"].concat()),
    ("common 32-byte prefix exactly", [&base[..32], b"X-tail-one"].concat(), [&base[..32], b"Y-tail-two"].concat()),
    ("trailing NUL", b"short".to_vec(), b"short\0".to_vec()),
    ("trailing NULs up to 32 bytes", b"short".to_vec(), { let mut v = b"short".to_vec(); v.resize(32, 0); v }),
    ("prefix of the other", base[..40].to_vec(), base.clone()),
    ("same but last byte", base.clone(), { let mut v = base.clone(); *v.last_mut().unwrap() ^= 1; v }),
    ("166-byte block: differ only after it", prbytes(1, 200), { let mut v = prbytes(1, 200); v[199] ^= 1; v }),
  ];
  for (name, x, y) in rel {
    let epoch = b"t".to_vec();
    let mut pop = vec![];
    for i in 0..t {
      getrandom::verif::set_group(i + 1);
      if let Ok(m) = gen_report(&x, &epoch, t, &local_randomness(&x, &epoch, t), &None) {
        pop.push(m);
      }
    }
    let lone = match gen_report(&y, &epoch, t, &local_randomness(&y, &epoch, t), &Some(prbytes(7, 24))) {
      Ok(m) => m,
      Err(_) => continue,
    };
    if pop.len() != t as usize {
      continue;
    }
    cx.eval();
    cx.nontrivial(fnv_str(&format!("{}|{}", t, name)));
    let shares: Vec<sta_rs::Share> = pop.iter().map(|m| m.share.clone()).collect();
    if let Ok(Ok(r0)) = recover_msg(&shares) {
      let mut key = vec![0u8; 16];
      sta_rs::derive_ske_key(&r0, &epoch, &mut key);
      let plain = lone.ciphertext.decrypt(&key, "star_encrypt");
      if sta_rs::load_bytes(&plain).map(|m| m == &y[..]).unwrap_or(false) {
        cx.viol("C03/related-measurement-key-opens-report", format!("the key recovered from a measurement that reached its threshold opens the lone report of a DIFFERENT measurement ({})", name), json!({"t": t, "relation": name}));
      } else {
        cx.count("related_sealed", 1);
      }
      if lone.tag == pop[0].tag {
        cx.viol("C03/related-measurement-same-tag", format!("two different measurements ({}) carry the same tag", name), json!({"t": t, "relation": name}));
      }
      // mixing the lone report into the popular group must not help either
      let mut mixed = shares[..t as usize - 1].to_vec();
      mixed.push(lone.share.clone());
      if t >= 2 && matches!(recover_msg(&mixed), Ok(Ok(_))) {
        cx.viol("C03/related-measurement-shares-combine", format!("t-1 shares of one measurement and one share of a different one ({}) combine", name), json!({"t": t, "relation": name}));
      }
    }
  }
  cx.outcome("related measurements");
}

pub fn spec() -> PropSpec {
  PropSpec {
    id: "C03",
    level: "exploration",
    assumptions: vec![
      "indistinguishability of Strobe encryption is the trusted base; decided are the structural statements of the property (aux never in the clear, no report value opens the payload, ciphertext difference vs plaintext difference)",
      "KNOWN FINDING D8 (recorded, not repaired): Ciphertext::new keys Strobe with the per-measurement key only, so the XOR relation holds from the first differing byte to the end of that 166-byte block; a relation extending into later blocks, or any other failure, is still a VIOLATION",
      "pairs whose first difference leaves fewer than 3 bytes to the block end cannot be told from coincidence and are only counted",
    ],
    thorough_budget_s: 900,
    checks: vec![
      Check {
        name: "ciphertext-pairs",
        rule: "per (measurement, epoch, t): associated-data family = every length 1..40 and {100,150,165,166,167,200,331,332,333,400,600} x 2 contents + single-byte variants (first/middle/last offset; thorough: every offset); ALL ordered pairs of distinct members (covers all triples pairwise): first differing payload byte i, is c1^c2 == p1^p2 on [i, block end), does it run on past the block end (>= 8 bytes), does it hold in a later block; distinct = judged ordered pairs",
        gen: |t| {
          let mut v = vec![];
          let cfgs: Vec<(u64, usize, usize)> = if t.thorough() { vec![(2, 1, 1), (3, 4, 0), (2, 5, 2), (3, 8, 1), (2, 0, 0), (2, 6, 1)] } else { vec![(2, 1, 1), (3, 4, 0), (2, 5, 2)] };
          for (tt, m, e) in cfgs {
            for part in 0..8 {
              v.push(json!({"t": tt, "m": m, "e": e, "part": part, "parts": 8}));
            }
          }
          v
        },
        run: run_pairs,
        min_counts: &[("evaluations", 10_000)],
      },
      Check {
        name: "aux-length-sweep",
        rule: "EVERY associated-data length 0..=419 x measurement lengths {1,29,124}: every 8-byte window of the associated data against every offset of the encoded report; for every 7th length: associated data of the same length but another structure (all zero, one repeated byte, alternating, runs) gives a report of the same size (nothing beyond the length leaks)",
        gen: |_| (0..14u64).map(|i| json!({"lo": i * 30})).collect(),
        run: run_length_sweep,
        min_counts: &[("evaluations", 1000)],
      },
      Check {
        name: "sub-threshold-coalitions",
        rule: "t in {2,3,4,5,6,9,13}: every coalition of k < t reports (all subsets for t <= 6, first/last k otherwise): interpolate through their share points, open the share's encrypted message with that key (self-validating replica), derive the payload key, try to decrypt: must fail",
        gen: |_| [2u64, 3, 4, 5, 6, 9, 13].iter().map(|t| json!({"t": t})).collect(),
        run: run_coalition,
        min_counts: &[("coalitions_sealed", 50)],
      },
      Check {
        name: "single-report-algebra",
        rule: "bounded algebraic adversary holding ONE report (t in {2,3,5}, 4 measurements x 2 epochs x aux lengths {8,40,200}): every XOR of 2 or 3 of {tag, C, D, J halves, ciphertext head} and, over {x, y_i, t}, every element, negation, sum, difference, product and quotient of two (~65 candidates per report): as payload key, as shared message (derive_ske_key) and as sharing key through the chain (self-validating Strobe replica): the payload must stay sealed",
        gen: |_| {
          let mut v = vec![];
          for t in [2u64, 3, 5] {
            for (m, e) in [(1usize, 1usize), (4, 0), (7, 2), (0, 1)] {
              for alen in [8u64, 40, 200] {
                v.push(json!({"t": t, "m": m, "e": e, "alen": alen}));
              }
            }
          }
          v
        },
        run: run_single_report_algebra,
        min_counts: &[("candidates", 2000), ("chain_replica_validated", 10)],
      },
      Check {
        name: "client-usage-shapes",
        rule: "the client's randomness obtained through 5 usage shapes of sample_local_randomness (fresh buffer; the same buffer a second and third time; a buffer pre-filled with 0xff; a buffer that held another measurement's randomness) x t in {2,3} x 3 (measurement, epoch): equal to a fresh client's, and a single report built from it never opens under a key computable from public values (the keys of reports whose randomness is all zero, all 0xff, the epoch itself)",
        gen: |_| {
          let mut v = vec![];
          for t in [2u64, 3] {
            for (m, e) in [(1usize, 1usize), (4, 0), (7, 2)] {
              v.push(json!({"t": t, "m": m, "e": e}));
            }
          }
          v
        },
        run: run_client_usage,
        min_counts: &[("usage_shapes_sealed", 25), ("public_keys_tried", 12)],
      },
      Check {
        name: "epoch-pooling",
        rule: "one report of one measurement from each epoch of a family of NEIGHBOURING epochs (6 bases incl. invalid UTF-8 and binary counters; every single-bit flip, appended / prepended / dropped byte, case folding, lossy UTF-8, NFC/NFD, trimming, last byte + 1..3), t in {2,3}: every window of t consecutive epochs and the base epoch with every t-1 others - each epoch alone is below threshold, so the pooled shares must not recover anything that opens a payload",
        gen: |_| {
          let mut v = vec![];
          for t in [2u64, 3] {
            for b in 0..6u64 {
              v.push(json!({"t": t, "b": b}));
            }
          }
          v
        },
        run: run_epoch_pooling,
        min_counts: &[("pools_sealed", 1000)],
      },
      Check {
        name: "coalition-census",
        rule: "2000 measurements per threshold (t in {2,3}; thorough 8000): every coalition of t-1 of the t reports interpolates its share points (for t = 2: the single share's value) and follows the chain sharing key -> encrypted message -> payload key (self-validating replica): the payload stays sealed for every measurement",
        gen: |tier| {
          let mut v = vec![];
          for t in [2u64, 3] {
            for c in 0..(if tier.thorough() { 20u64 } else { 5 }) {
              v.push(json!({"t": t, "lo": c * 400}));
            }
          }
          v
        },
        run: run_coalition_census,
        min_counts: &[("census_coalitions_sealed", 3500)],
      },
      Check {
        name: "cross-aggregation",
        rule: "one measurement and epoch under two thresholds, clients generated back-to-back on one thread (all ordered pairs of thresholds from {1,2,3,5} and pairs congruent modulo 2^8 / 2^16 such as (2,258), (2,65538)): the key recovered from the first aggregation must not open a lone report of the second, tags differ",
        gen: |_| {
          let ts = [1u64, 2, 3, 5];
          let mut v = vec![];
          for &a in &ts {
            for &b in &ts {
              if a != b {
                v.push(json!({"t1": a, "t2": b}));
              }
            }
          }
          // thresholds that agree modulo 2^8 / 2^16
          for (a, b) in [(2u64, 258u64), (1, 257), (3, 259), (2, 65538), (258, 2)] {
            v.push(json!({"t1": a, "t2": b}));
          }
          v
        },
        run: run_cross_aggregation,
        min_counts: &[("cross_aggregation_sealed", 10)],
      },
      Check {
        name: "related-measurements",
        rule: "pairs of DIFFERENT measurements in a relation (common 52 / exactly 32 byte prefix, trailing NUL(s), prefix-of, last byte, differing only after the first cipher block), t in {1,2,3}: the first reaches its threshold; its recovered key must not open the lone report of the second, the tags differ, the shares do not combine",
        gen: |_| (1..=3u64).map(|t| json!({"t": t})).collect(),
        run: run_related_measurements,
        min_counts: &[("related_sealed", 15)],
      },
      Check {
        name: "report-windows",
        rule: "per (measurement, epoch incl. single-byte epochs 0x00..0xff, t, aux length in 8..600 incl. block boundaries): every 8-byte window of the report XORed onto every 8 ciphertext bytes (report bytes used as keystream) must not give associated-data bytes; also every 16-byte window as SHARING key through the chain window -> encrypted message -> payload key (self-validating Strobe replica); every 8-byte window of the aux against every report offset; every 16/32-byte window of the encoded report as decryption key (raw and through derive_ske_key) plus junk keys; distinct = configurations",
        gen: |t| {
          let mut v = vec![];
          let mut lens: Vec<usize> = vec![8, 16, 40, 100, 130, 150, 155, 157, 158, 159, 165, 166, 167, 200, 300, 331, 332, 333, 340, 500, 560];
          if t.thorough() {
            lens.extend((9..160).step_by(7));
            lens.extend(168..190);
          }
          for (tt, m, e) in [(2u64, 1usize, 1usize), (3, 4, 0), (2, 10, 2), (2, 7, 1)] {
            for &l in &lens {
              v.push(json!({"t": tt, "m": m, "e": e, "alen": l}));
            }
          }
          // every single-byte epoch (an epoch equal to a one-byte label of another derivation)
          for b in 0..=255u64 {
            if t.thorough() || b < 16 || b % 16 == 0 || b == 255 {
              v.push(json!({"t": 2 + b % 2, "m": 1, "e": 0, "ebyte": b, "alen": 8 + (b % 3)}));
            }
          }
          v
        },
        run: run_windows,
        min_counts: &[("evaluations", 10_000)],
      },
    ],
  }
}
