//! C10 — puncturing removes exactly the punctured inputs; all other PRF values persist.
//! Explicit-state exploration of the real `GGM` object against a leaf-set model.
use crate::ggmx::*;
use crate::mc::*;
use ppoprf::ggm::GGM;
use ppoprf::PPRF;
use serde_json::{json, Value};

pub fn domains() -> Vec<(&'static str, Vec<u8>)> {
  vec![
    ("A: one depth-4 subtree (low nibble 0)", (0..16u8).map(|i| i << 4).collect()),
    ("B: one leaf in each depth-4 subtree (0..15)", (0..16u8).collect()),
    ("U: 120..135, straddles the top split", (120..136u8).collect()),
    ("X: extremes, siblings and alternating patterns", vec![0, 1, 128, 129, 254, 255, 85, 170, 2, 3, 126, 127, 64, 65, 192, 193]),
    // quick tier: 8-leaf sub-domains that keep every sibling / cousin configuration of the deepest levels
    ("Aq: 00,80,40,C0,20,A0,10,90", vec![0x00, 0x80, 0x40, 0xC0, 0x20, 0xA0, 0x10, 0x90]),
    ("Bq: 0..7", (0..8u8).collect()),
    ("Uq: 124..131", (124..132u8).collect()),
    ("Xq: 0,1,128,129,254,255,85,170", vec![0, 1, 128, 129, 254, 255, 85, 170]),
  ]
}

pub struct St {
  pub g: GGM,
  pub path: Vec<u8>,
}
pub fn pset(path: &[u8]) -> Set256 {
  path.iter().fold(Set256::default(), |s, &x| s.with(x))
}
fn sorted_nodes(g: &GGM) -> Vec<(Node, Vec<u8>)> {
  let mut n = hook_nodes(g).map(|x| x.0).unwrap_or_default();
  n.sort();
  n
}

/// the C10 invariant on one state
pub fn check_state(cx: &mut CaseCx, g: &GGM, path: &[u8], baseline: &[Option<[u8; 32]>], probe_refusals: bool) {
  let p = pset(path);
  let vals = match guard(|| eval_all(g)) {
    Ok(v) => v,
    Err(pn) => {
      cx.viol("C10/eval-panicked", format!("eval panicked: {}", pn), json!({"punctured_in_order": path}));
      return;
    }
  };
  cx.evals(256);
  for x in 0..=255u8 {
    match (vals[x as usize], p.has(x)) {
      (Some(_), true) => {
        cx.viol("C10/punctured-input-still-evaluates", format!("input {} was punctured but still evaluates", x), json!({"punctured_in_order": path, "input": x}));
        return;
      }
      (None, false) => {
        cx.viol("C10/unpunctured-input-lost", format!("input {} was never punctured but no longer evaluates", x), json!({"punctured_in_order": path, "input": x}));
        return;
      }
      (Some(v), false) => {
        if Some(v) != baseline[x as usize] {
          cx.viol("C10/value-changed", format!("input {} evaluates to a different value than before puncturing", x), json!({"punctured_in_order": path, "input": x}));
          return;
        }
      }
      (None, true) => {}
    }
  }
  if probe_refusals {
    // the value is written through a caller buffer: what it held before must not matter
    for x in (0..=255u8).filter(|x| !p.has(*x)).take(2).chain((0..=255u8).rev().filter(|x| !p.has(*x)).take(1)) {
      let mut out = [0xa5u8; 32];
      cx.eval();
      if guard(|| g.eval(&[x], &mut out).is_ok()) == Ok(true) && Some(out) != baseline[x as usize] {
        cx.viol("C10/value-depends-on-buffer", format!("input {} evaluated into a buffer that held 0xa5 bytes gives another value than into a zeroed buffer", x), json!({"punctured_in_order": path, "input": x}));
        return;
      }
    }
    // a REFUSED evaluation must not hand out the value through the caller's buffer
    for &x in path.iter().rev().take(3) {
      let mut out = [0u8; 32];
      cx.eval();
      if guard(|| g.eval(&[x], &mut out).is_err()) == Ok(true) && Some(out) == baseline[x as usize] {
        cx.viol("C10/refused-evaluation-leaks-value", format!("evaluating the punctured input {} is refused, but the caller's output buffer holds its original value afterwards", x), json!({"punctured_in_order": path, "input": x}));
        return;
      }
    }
    let before = sorted_nodes(g);
    let mut probe = |cx: &mut CaseCx, what: &str, f: &dyn Fn(&mut GGM) -> bool| {
      let mut c = g.clone();
      cx.eval();
      match guard(|| f(&mut c)) {
        Ok(true) => cx.viol(format!("C10/not-refused/{}", what.split(' ').next().unwrap()), format!("{} was accepted", what), json!({"punctured_in_order": path, "probe": what})),
        Ok(false) => {
          if sorted_nodes(&c) != before {
            cx.viol("C10/refused-call-changed-key", format!("{} was refused but changed the key", what), json!({"punctured_in_order": path, "probe": what}));
          }
          cx.count("refusals", 1);
        }
        Err(pn) => cx.viol("C10/probe-panicked", format!("{}: {}", what, pn), json!({"punctured_in_order": path, "probe": what})),
      }
    };
    probe(cx, "eval of an empty input", &|c| c.eval(&[], &mut [0u8; 32]).is_ok());
    probe(cx, "puncture of an empty input", &|c| c.puncture(&[]).is_ok());
    // wrong lengths incl. 1 mod 32 bytes (bit length 8 mod 256) and 1 mod 2^k; first byte = an unpunctured input if any
    let live = (0..=255u8).find(|x| !p.has(*x)).unwrap_or(0);
    for len in [2usize, 3, 8, 31, 32, 33, 64, 65, 129, 257, 513] {
      let mut inp = vec![live; len];
      inp[len - 1] ^= 0x5a;
      let i2 = inp.clone();
      probe(cx, &format!("eval of a {}-byte input", len), &move |c| c.eval(&i2, &mut [0u8; 32]).is_ok());
      probe(cx, &format!("puncture of a {}-byte input", len), &move |c| c.puncture(&inp).is_ok());
    }
    for &x in path {
      probe(cx, &format!("re-puncture of the already punctured input {}", x), &move |c| c.puncture(&[x]).is_ok());
    }
  }
}

pub fn setup_ggm(cx: &CaseCx, sub: u64) -> (GGM, Vec<Option<[u8; 32]>>) {
  cx.entropy(sub);
  let g = GGM::setup();
  let b = eval_all(&g);
  (g, b)
}
pub fn check_baseline(cx: &mut CaseCx, baseline: &[Option<[u8; 32]>]) -> bool {
  if baseline.iter().any(|v| v.is_none()) {
    cx.viol("C10/fresh-key-refuses", "a fresh key does not evaluate every input of the domain", json!({}));
    return false;
  }
  let mut s: Vec<[u8; 32]> = baseline.iter().map(|v| v.unwrap()).collect();
  s.sort();
  s.dedup();
  cx.eval();
  if s.len() != 256 {
    cx.viol("C10/values-not-distinct", format!("only {} distinct values over the 256 inputs", s.len()), json!({}));
    return false;
  }
  true
}

fn run_subsets(cx: &mut CaseCx, case: &Value) {
  let (dname, dom) = domains().into_iter().nth(case["domain"].as_u64().unwrap() as usize).unwrap();
  let (g0, baseline) = setup_ggm(cx, 1);
  if !check_baseline(cx, &baseline) {
    return;
  }
  let dom2 = dom.clone();
  let bl = baseline.clone();
  let bl2 = baseline.clone();
  let bl3 = baseline.clone();
  let mut deepest: Vec<Vec<u8>> = vec![];
  let stats = bfs(
    cx,
    (0u32, St { g: g0, path: vec![] }),
    dom.len(),
    // expand: one real puncture per domain element
    |mask, st, sc| {
      let mut succ = vec![];
      for (i, &x) in dom.iter().enumerate() {
        let mut c = st.g.clone();
        let r = guard(|| c.puncture(&[x]).is_ok());
        sc.eval();
        let already = mask >> i & 1 == 1;
        match r {
          Ok(true) if !already => {
            let mut path = st.path.clone();
            path.push(x);
            // evaluations must not leave state behind: evaluate z, puncture x, evaluate z FIRST afterwards
            let before = pset(&st.path);
            let mut probes: Vec<u8> = if dom.len() <= 8 { dom.clone() } else { vec![x, dom[0], dom[dom.len() - 1]] };
            probes.extend([x ^ 0x80, x ^ 0x01, x ^ 0x40, x.wrapping_add(1)]);
            for z in probes {
              let mut g2 = st.g.clone();
              let mut o1 = [0u8; 32];
              let r1 = g2.eval(&[z], &mut o1).is_ok();
              if g2.puncture(&[x]).is_err() {
                continue;
              }
              let mut o2 = [0u8; 32];
              let r2 = guard(|| g2.eval(&[z], &mut o2).is_ok()).unwrap_or(true);
              sc.eval();
              let should = !before.has(z) && z != x;
              if r2 != should || (r2 && Some(o2) != bl3[z as usize]) || (r1 && Some(o1) != bl3[z as usize]) {
                sc.viol(
                  "C10/evaluation-changes-state",
                  format!("input {} was evaluated right before puncturing {} and first thing after it: it {} (value {}), the model says it must {}", z, x, if r2 { "evaluates" } else { "is refused" }, if Some(o2) == bl3[z as usize] { "unchanged" } else { "CHANGED" }, if should { "evaluate to its original value" } else { "be refused" }),
                  json!({"punctured_in_order": st.path, "evaluate": z, "then_puncture": x, "then_evaluate": z}),
                );
                break;
              }
              sc.count("interleaved_probes", 1);
            }
            succ.push((mask | 1 << i, St { g: c, path }));
          }
          Ok(false) if already => sc.count("refused_repunctures", 1),
          Ok(true) => sc.viol("C10/not-refused/re-puncture", format!("input {} was punctured a second time without error", x), json!({"punctured_in_order": st.path, "again": x})),
          Ok(false) => sc.viol("C10/puncture-refused", format!("puncturing the unpunctured input {} failed", x), json!({"punctured_in_order": st.path, "input": x})),
          Err(p) => sc.viol("C10/puncture-panicked", p, json!({"punctured_in_order": st.path, "input": x})),
        }
      }
      succ
    },
    // merge: same punctured set reached in another order - the key material must be the same; if it is not,
    // the late arrival gets the full invariant as well (the digest is never trusted blindly)
    |_k, first, dup, sc| {
      sc.eval();
      if sorted_nodes(&first.g) != sorted_nodes(&dup.g) {
        sc.count("merge_key_material_differs", 1);
        check_state(sc, &dup.g, &dup.path, &bl2, false);
      }
    },
    // visit: the invariant on every new state
    |_k, st, sc| {
      check_state(sc, &st.g, &st.path, &bl, true);
      sc.nontrivial(fnv(&pset(&st.path).to_vec()));
    },
    |_k, st| {
      if st.path.len() + 1 >= dom2.len() && deepest.len() < 64 {
        deepest.push(st.path.clone());
      }
    },
  );
  cx.count("states", stats.states);
  cx.count("transitions", (stats.states) * dom2.len() as u64);
  cx.count("successful_punctures", stats.transitions);
  cx.count("merges", stats.merges);
  // trace validation: recorded paths re-executed on a FRESH object (same entropy => same key) must give the same key material
  let (gfresh, b2) = setup_ggm(cx, 1);
  if b2 != baseline {
    cx.viol("C10/harness-nondeterminism", "same entropy, different key", json!({}));
  }
  for path in deepest.iter().take(32) {
    let mut g = gfresh.clone();
    for &x in path {
      let _ = g.puncture(&[x]);
    }
    check_state(cx, &g, path, &baseline, false);
    cx.count("traces_validated", 1);
  }
  cx.outcome(format!("{}: {} states, levels {:?}", dname, stats.states, stats.level_sizes));
  cx.sample(json!({"domain": dname, "inputs": dom2, "states": stats.states, "successful_punctures": stats.transitions, "merges": stats.merges, "level_sizes": stats.level_sizes, "example_path": deepest.get(0)}));
}

fn run_singletons_pairs(cx: &mut CaseCx, case: &Value) {
  let (g0, baseline) = setup_ggm(cx, 1);
  if !check_baseline(cx, &baseline) {
    return;
  }
  let a = case["a"].as_u64().unwrap() as u8;
  let full = case["pairs"].as_bool().unwrap_or(false);
  let mut g1 = g0.clone();
  if guard(|| g1.puncture(&[a]).is_ok()) != Ok(true) {
    cx.viol("C10/puncture-refused", format!("puncturing {} on a fresh key failed", a), json!({"input": a}));
    return;
  }
  check_state(cx, &g1, &[a], &baseline, true);
  cx.count("states", 1);
  cx.count("transitions", 1);
  cx.nontrivial(a as u64);
  if full {
    for b in 0..=255u8 {
      if b == a {
        continue;
      }
      let mut g2 = g1.clone();
      cx.eval();
      if guard(|| g2.puncture(&[b]).is_ok()) != Ok(true) {
        cx.viol("C10/puncture-refused", format!("puncturing {} after {} failed", b, a), json!({"punctured_in_order": [a, b]}));
        continue;
      }
      cx.count("states", 1);
      cx.count("transitions", 1);
      cx.nontrivial(((a as u64) << 8) | b as u64 | 1 << 20);
      if a < b {
        check_state(cx, &g2, &[a, b], &baseline, false);
      } else {
        // differential oracle for the reverse order: key material equals the one of (b, a), which is fully checked
        let mut h = g0.clone();
        let _ = h.puncture(&[b]);
        let _ = h.puncture(&[a]);
        if sorted_nodes(&h) != sorted_nodes(&g2) {
          check_state(cx, &g2, &[a, b], &baseline, false);
          cx.count("pair_order_changes_key_material", 1);
        }
      }
    }
  }
  cx.outcome("singleton/pairs");
  if a == 0 {
    cx.sample(json!({"punctured_in_order": [a], "pairs": full}));
  }
}


/// keys are plain values: created and recorded on one thread, used on another, several keys per thread
fn run_threads(cx: &mut CaseCx, _case: &Value) {
  // thread A creates three keys in a row and records their values there
  cx.entropy(77);
  let keys: Vec<(GGM, Vec<Option<[u8; 32]>>)> = (0..3).map(|_| {
    let g = GGM::setup();
    let b = eval_all(&g);
    (g, b)
  }).collect();
  for (i, (g, baseline)) in keys.iter().enumerate() {
    if !check_baseline(cx, baseline) {
      return;
    }
    // ... each key is then used on a fresh thread (which has seen no other key), and on a thread that
    // handled another key first
    for (who, first) in [("a fresh thread", None), ("a thread that handled another key first", Some(&keys[(i + 1) % 3].0))] {
      let mut sc = cx.scratch();
      std::thread::scope(|s| {
        s.spawn(|| {
          if let Some(other) = first {
            let _ = eval_all(other);
          }
          let mut g2 = g.clone();
          check_state(&mut sc, &g2, &[], baseline, false);
          let mut path = vec![];
          for x in [0u8, 0x80, 0x40, 3, 255, 254] {
            if g2.puncture(&[x]).is_ok() {
              path.push(x);
              check_state(&mut sc, &g2, &path, baseline, false);
            }
          }
        });
      });
      for v in sc.viols.iter_mut() {
        v.what = format!("key #{} created and recorded on one thread, then used on {}: {}", i, who, v.what);
        v.key = format!("C10/across-threads/{}", v.key.trim_start_matches("C10/"));
      }
      cx.absorb(sc);
      cx.count("states", 7);
      cx.count("transitions", 6);
      cx.count("cross_thread_keys", 1);
      cx.nontrivial(fnv_str(&format!("{}|{}", i, who)));
    }
  }
  cx.outcome("keys across threads");
}


/// A key object that is REUSED: `dst.clone_from(&src)` must make `dst` the same value as `src.clone()`,
/// whatever `dst` held before (more nodes, fewer nodes, another key). Every (source history, destination
/// history) pair over a small domain, then every one-step continuation on the overwritten object.
fn run_object_reuse(cx: &mut CaseCx, case: &Value) {
  let dom: Vec<u8> = vec![0, 0x80, 0x40, 1, 3, 255];
  let (g0, baseline) = setup_ggm(cx, 1);
  if !check_baseline(cx, &baseline) {
    return;
  }
  cx.entropy(2);
  let other_key = GGM::setup();
  // histories: all ordered sequences of length <= 2 over the domain
  let mut hists: Vec<Vec<u8>> = vec![vec![]];
  for &a in &dom {
    hists.push(vec![a]);
    for &b in &dom {
      if a != b {
        hists.push(vec![a, b]);
      }
    }
  }
  let si = case["src"].as_u64().unwrap() as usize;
  let src_path = hists[si % hists.len()].clone();
  let mut src = g0.clone();
  for &x in &src_path {
    let _ = src.puncture(&[x]);
  }
  let src_nodes = sorted_nodes(&src);
  for (di, dst_path) in hists.iter().enumerate() {
    for foreign in [false, true] {
      if foreign && di % 4 != 0 {
        continue;
      }
      let mut dst = if foreign { other_key.clone() } else { g0.clone() };
      for &x in dst_path {
        let _ = dst.puncture(&[x]);
      }
      // warm the destination with evaluations first (nothing of its old life may survive)
      let _ = eval_all(&dst);
      cx.eval();
      if let Err(p) = guard(|| dst.clone_from(&src)) {
        cx.viol("C10/object-reuse/clone_from-panicked", p, json!({"source_punctured": src_path, "destination_punctured": dst_path, "destination_other_key": foreign}));
        continue;
      }
      let before = cx.viols.len();
      check_state(cx, &dst, &src_path, &baseline, false);
      if sorted_nodes(&dst) != src_nodes && cx.viols.len() == before {
        cx.viol("C10/object-reuse/key-material-differs", "after dst.clone_from(&src) the destination retains other key material than the source", json!({"source_punctured": src_path, "destination_punctured": dst_path, "destination_other_key": foreign}));
      }
      cx.count("states", 1);
      cx.count("transitions", 1);
      // the source is untouched
      if sorted_nodes(&src) != src_nodes {
        cx.viol("C10/object-reuse/source-changed", "clone_from changed the source", json!({"source_punctured": src_path}));
      }
      // one-step continuations on the overwritten object
      for &x in &dom {
        if src_path.contains(&x) {
          continue;
        }
        let mut d2 = dst.clone();
        cx.eval();
        if guard(|| d2.puncture(&[x]).is_ok()) != Ok(true) {
          cx.viol("C10/puncture-refused", format!("puncturing {} on an object overwritten by clone_from failed", x), json!({"source_punctured": src_path, "destination_punctured": dst_path, "input": x}));
          continue;
        }
        let mut p2 = src_path.clone();
        p2.push(x);
        check_state(cx, &d2, &p2, &baseline, false);
        // ... and the continuation equals the same continuation on a plain clone of the source
        let mut s2 = src.clone();
        let _ = s2.puncture(&[x]);
        if sorted_nodes(&s2) != sorted_nodes(&d2) && cx.viols.len() == before {
          cx.viol("C10/object-reuse/key-material-differs", format!("after dst.clone_from(&src) and one puncture ({}) the destination retains other key material than src.clone() after the same puncture", x), json!({"source_punctured": src_path, "destination_punctured": dst_path, "destination_other_key": foreign, "then_puncture": x}));
        }
        cx.count("states", 1);
        cx.count("transitions", 1);
      }
      for v in cx.viols.iter_mut().skip(before) {
        if !v.key.starts_with("C10/object-reuse") {
          v.key = format!("C10/object-reuse/{}", v.key.trim_start_matches("C10/"));
          v.what = format!("key object overwritten with clone_from (destination had punctured {:?}{}; source had punctured {:?}): {}", dst_path, if foreign { " under another key" } else { "" }, src_path, v.what);
        }
      }
      if cx.viols.len() > before {
        return;
      }
    }
  }
  cx.nontrivial(fnv(&src_path) ^ si as u64);
  cx.outcome("clone_from");
  if si == 0 {
    cx.sample(json!({"domain": dom, "histories": hists.len()}));
  }
}


/// The same key after it has travelled: the puncturable key inside a `Server` is exported with the
/// key-sync interface and imported into another server; the C10 invariant must hold on the key the
/// importer now holds, and on every one-step continuation there.
fn run_travelled_key(cx: &mut CaseCx, case: &Value) {
  use super::c11::{export_bytes, import_into};
  use ppoprf::ppoprf as pp;
  cx.entropy(1);
  // every other block of inputs: the server registers only two tags, so that most punctured inputs are tags
  // it never published (the puncturable key must be punctured all the same)
  let few = (case["lo"].as_u64().unwrap() / 8) % 2 == 1;
  let s0 = match pp::Server::new(if few { vec![9, 200] } else { (0..=255u8).collect() }) {
    Ok(s) => s,
    Err(_) => return,
  };
  let baseline = eval_all(s0.verif_pprf());
  if !check_baseline(cx, &baseline) {
    return;
  }
  let lo = case["lo"].as_u64().unwrap() as u8;
  for a in lo..=lo.saturating_add(7) {
    // histories: [a], [a, sibling], [a, cousin], [a, a+1], [a, !a], [a, 7, 9] ...
    let mut hs: Vec<Vec<u8>> = vec![vec![a]];
    for b in [a ^ 0x80, a ^ 0x40, a ^ 0x01, a.wrapping_add(1), !a, a.reverse_bits()] {
      if b != a {
        hs.push(vec![a, b]);
      }
    }
    hs.push(vec![7u8, a, 9].into_iter().collect());
    hs.push(vec![a, a.wrapping_add(64), a.wrapping_add(128), a.wrapping_add(192)]);
    for h in hs {
      let mut path: Vec<u8> = vec![];
      let mut s = s0.clone();
      for &x in &h {
        if !path.contains(&x) && s.puncture(x).is_ok() {
          path.push(x);
        }
      }
      // the key inside the puncturing server itself (before it travels)
      {
        let before = cx.viols.len();
        check_state(cx, s.verif_pprf(), &path, &baseline, false);
        // a second puncture of the same inputs is refused
        for &x in &path {
          if guard(|| s.clone().puncture(x).is_ok()) == Ok(true) {
            cx.viol("C10/not-refused/re-puncture", format!("input {} was punctured a second time through the server without error", x), json!({"punctured_in_order": path, "again": x}));
          }
        }
        for v in cx.viols.iter_mut().skip(before) {
          v.key = format!("C10/key-inside-server/{}", v.key.trim_start_matches("C10/"));
          v.what = format!("puncturable key inside a server that registers {} (punctured through Server::puncture: {:?}): {}", if few { "only the tags 9 and 200" } else { "all 256 tags" }, path, v.what);
        }
        if cx.viols.len() > before {
          return;
        }
      }
      let bytes = match export_bytes(&s) {
        Ok(b) => b,
        Err(_) => continue,
      };
      for (who, mut target) in [("a fresh server", pp::Server::new(vec![9]).expect("server")), ("a follower holding the unpunctured key", s0.clone())] {
        cx.eval();
        if import_into(&mut target, &bytes).is_err() {
          continue;
        }
        let before = cx.viols.len();
        check_state(cx, target.verif_pprf(), &path, &baseline, false);
        cx.count("states", 1);
        cx.count("transitions", 1);
        for x in [a.wrapping_add(2), a ^ 0x81, 255 - a] {
          if path.contains(&x) || cx.viols.len() > before {
            continue;
          }
          let mut t2 = target.clone();
          if guard(|| t2.puncture(x).is_ok()) != Ok(true) {
            cx.viol("C10/puncture-refused", format!("puncturing {} failed", x), json!({"punctured_in_order": path, "input": x}));
            continue;
          }
          let mut p2 = path.clone();
          p2.push(x);
          check_state(cx, t2.verif_pprf(), &p2, &baseline, false);
          cx.count("states", 1);
          cx.count("transitions", 1);
        }
        for v in cx.viols.iter_mut().skip(before) {
          v.key = format!("C10/travelled-key/{}", v.key.trim_start_matches("C10/"));
          v.what = format!("key exported after puncturing {:?} and imported into {}: {}", path, who, v.what);
        }
        if cx.viols.len() > before {
          return;
        }
      }
      cx.nontrivial(fnv(&path));
    }
  }
  cx.outcome("travelled key");
  if lo == 0 {
    cx.sample(json!({"first_input": lo, "histories_per_input": 9}));
  }
}


/// every tree node (len 1..=8, prefix bits), in a fixed order: 2 + 4 + ... + 256 = 510 nodes
pub fn all_nodes() -> Vec<Node> {
  let mut v = vec![];
  for len in 1..=8u8 {
    for bits in 0..(1u32 << len) {
      v.push(Node { len, bits: bits as u8 });
    }
  }
  v
}
/// pairs of disjoint nodes from a small family: all nodes of depth <= 3 plus extreme / alternating leaves
pub fn node_pairs() -> Vec<(Node, Node)> {
  let mut fam: Vec<Node> = all_nodes().into_iter().filter(|n| n.len <= 3).collect();
  for x in [0u8, 1, 2, 128, 254, 255, 85, 170] {
    fam.push(Node { len: 8, bits: x });
  }
  fam.push(Node { len: 7, bits: 0 });
  fam.push(Node { len: 7, bits: 127 });
  let mut v = vec![];
  for i in 0..fam.len() {
    for j in i + 1..fam.len() {
      let (a, b) = (fam[i], fam[j]);
      let overlap = a.leaves().iter().any(|&x| b.covers(x));
      if !overlap {
        v.push((a, b));
      }
    }
  }
  v
}

/// The far end of the state space: keys that retain only ONE or TWO tree nodes (everything else punctured),
/// reached in ascending and in descending order.
fn run_cover_shapes(cx: &mut CaseCx, case: &Value) {
  let (g0, baseline) = setup_ggm(cx, 1);
  if !check_baseline(cx, &baseline) {
    return;
  }
  let part = case["part"].as_u64().unwrap() as usize;
  let parts = case["parts"].as_u64().unwrap() as usize;
  let mut shapes: Vec<Vec<Node>> = all_nodes().into_iter().map(|n| vec![n]).collect();
  shapes.extend(node_pairs().into_iter().map(|(a, b)| vec![a, b]));
  for (si, shape) in shapes.iter().enumerate() {
    if si % parts != part {
      continue;
    }
    let live = |x: u8| shape.iter().any(|n| n.covers(x));
    for descending in [false, true] {
      if descending && si % 3 != 0 {
        continue;
      }
      let mut order: Vec<u8> = (0..=255u8).filter(|&x| !live(x)).collect();
      if descending {
        order.reverse();
      }
      let mut g = g0.clone();
      let mut ok = true;
      for &x in &order {
        if guard(|| g.puncture(&[x]).is_ok()) != Ok(true) {
          cx.viol("C10/puncture-refused", format!("puncturing {} failed", x), json!({"keeping_only_nodes": format!("{:?}", shape), "input": x}));
          ok = false;
          break;
        }
      }
      if !ok {
        continue;
      }
      let before = cx.viols.len();
      check_state(cx, &g, &order, &baseline, false);
      // one more puncture inside the retained part
      if let Some(x) = (0..=255u8).find(|&x| live(x)) {
        let mut g2 = g.clone();
        if g2.puncture(&[x]).is_ok() {
          let mut o2 = order.clone();
          o2.push(x);
          check_state(cx, &g2, &o2, &baseline, false);
        }
      }
      for v in cx.viols.iter_mut().skip(before) {
        v.key = format!("C10/cover-shape/{}", v.key.trim_start_matches("C10/"));
        v.what = format!("key that retains only the subtree(s) {:?} (all other inputs punctured in {} order): {}", shape, if descending { "descending" } else { "ascending" }, v.what);
        v.detail = json!({"retained_subtrees": format!("{:?}", shape), "order": if descending { "descending" } else { "ascending" }, "punctures": order.len()});
      }
      cx.count("states", 2);
      cx.count("transitions", order.len() as u64 + 1);
      cx.nontrivial(fnv_str(&format!("{:?}|{}", shape, descending)));
      if cx.viols.len() > before {
        return;
      }
    }
  }
  cx.outcome("cover shapes");
  if part == 0 {
    cx.sample(json!({"single_node_shapes": 510, "two_node_shapes": node_pairs().len()}));
  }
}


/// MANY operations on ONE key object: 700 evaluations (live and punctured inputs alternating, every 7th into a
/// dirty buffer) between punctures; counters that wrap, first-call / later-call and even / odd differences
fn run_many_operations(cx: &mut CaseCx, _case: &Value) {
  let (mut g, baseline) = setup_ggm(cx, 1);
  if !check_baseline(cx, &baseline) {
    return;
  }
  let mut path: Vec<u8> = vec![];
  let mut n = 0u64;
  for round in 0..6u8 {
    for i in 0..700u32 {
      let x = (i.wrapping_mul(37) % 256) as u8;
      let mut out = if i % 7 == 0 { [0x5au8; 32] } else { [0u8; 32] };
      let ok = guard(|| g.eval(&[x], &mut out).is_ok());
      n += 1;
      cx.eval();
      let should = !path.contains(&x);
      if ok != Ok(should) || (should && Some(out) != baseline[x as usize]) {
        cx.viol("C10/many-operations/value-changed", format!("operation number {} on one key object (evaluation of input {}, {} punctures so far): {}", n, x, path.len(), if ok != Ok(should) { "refused / answered against the model" } else { "another value than the first evaluation gave" }), json!({"operation_number": n, "input": x, "punctured_in_order": path}));
        return;
      }
    }
    let x = [200u8, 9, 130, 255, 0, 77][round as usize];
    if g.puncture(&[x]).is_ok() {
      path.push(x);
    }
    n += 1;
    check_state(cx, &g, &path, &baseline, false);
    cx.count("states", 1);
    cx.count("transitions", 701);
  }
  cx.count("operations_on_one_object", n);
  cx.nontrivial(1);
  cx.outcome("many operations");
}


/// ALL 65280 ordered pairs of punctures with a light invariant (both punctures succeed, both inputs then
/// refuse, a re-puncture is refused, eight neighbours keep their values) - the full invariant over all 256
/// inputs for every ordered pair is the thorough tier's `singletons-and-pairs`
fn run_ordered_pairs_light(cx: &mut CaseCx, case: &Value) {
  let (g0, baseline) = setup_ggm(cx, 1);
  if !check_baseline(cx, &baseline) {
    return;
  }
  let lo = case["lo"].as_u64().unwrap() as u8;
  for a in lo..=lo.saturating_add(15) {
    let mut g1 = g0.clone();
    if g1.puncture(&[a]).is_err() {
      cx.viol("C10/puncture-refused", format!("puncturing {} on a fresh key failed", a), json!({"input": a}));
      return;
    }
    for b in 0..=255u8 {
      if b == a {
        continue;
      }
      let mut g = g1.clone();
      cx.eval();
      let d = || json!({"punctured_in_order": [a, b]});
      if guard(|| g.puncture(&[b]).is_ok()) != Ok(true) {
        cx.viol("C10/puncture-refused", format!("puncturing {} after {} failed although {} was never punctured", b, a, b), d());
        return;
      }
      let mut o = [0u8; 32];
      if g.eval(&[a], &mut o).is_ok() || g.eval(&[b], &mut o).is_ok() {
        cx.viol("C10/punctured-input-still-evaluates", format!("after puncturing {} then {} one of them still evaluates", a, b), d());
        return;
      }
      if g.clone().puncture(&[b]).is_ok() || g.clone().puncture(&[a]).is_ok() {
        cx.viol("C10/not-refused/re-puncture", format!("after puncturing {} then {} one of them can be punctured again", a, b), d());
        return;
      }
      for z in [a ^ 0x80, b ^ 0x80, a ^ 0x01, b ^ 0x01, a ^ 0x40, b ^ 0x40, a.wrapping_add(1), b.wrapping_sub(1)] {
        if z == a || z == b {
          continue;
        }
        let mut o = [0u8; 32];
        if g.eval(&[z], &mut o).is_err() || Some(o) != baseline[z as usize] {
          cx.viol("C10/unpunctured-input-lost", format!("after puncturing {} then {} the input {} (never punctured) {}", a, b, z, if Some(o) == baseline[z as usize] { "is refused" } else { "is refused or evaluates to another value" }), json!({"punctured_in_order": [a, b], "input": z}));
          return;
        }
      }
      cx.count("ordered_pairs", 1);
    }
    cx.nontrivial(a as u64);
  }
  cx.count("states", 16 * 255);
  cx.count("transitions", 16 * 255);
  cx.outcome("ordered pairs");
}

fn sequences() -> Vec<(&'static str, Vec<u8>)> {
  let asc: Vec<u8> = (0..=255u8).collect();
  let desc: Vec<u8> = (0..=255u8).rev().collect();
  let bitrev: Vec<u8> = (0..=255u8).map(|x| x.reverse_bits()).collect();
  let gray: Vec<u8> = (0..=255u8).map(|x| x ^ (x >> 1)).collect();
  // sibling-first: x, x^0x80 (deepest-level sibling in the LSB-first tree), then cousins
  let mut sib: Vec<u8> = vec![];
  for x in 0..128u8 {
    sib.push(x);
    sib.push(x ^ 0x80);
  }
  let mut sib2: Vec<u8> = vec![];
  for x in 0..128u8 {
    sib2.push(x ^ 0x80);
    sib2.push(x);
  }
  // subtree-last: everything outside the subtree of inputs with low bit 1 first
  let mut st: Vec<u8> = (0..=255u8).filter(|x| x & 1 == 0).collect();
  st.extend((0..=255u8).filter(|x| x & 1 == 1).rev());
  let stride: Vec<u8> = (0..=255u16).map(|i| (i * 37 % 256) as u8).collect();
  vec![("ascending", asc), ("descending", desc), ("bit-reversed", bitrev), ("gray", gray), ("sibling-first", sib), ("sibling-first (high first)", sib2), ("subtree-last", st), ("stride-37", stride)]
}
fn run_sequence(cx: &mut CaseCx, case: &Value) {
  let (mut g, baseline) = setup_ggm(cx, 1);
  if !check_baseline(cx, &baseline) {
    return;
  }
  let (name, seq) = if let Some(i) = case["seq"].as_u64() {
    sequences().into_iter().nth(i as usize).unwrap()
  } else {
    // supplementary, sampled: seeded random permutation
    let mut v: Vec<u8> = (0..=255u8).collect();
    let mut st = cx.seed ^ case["random"].as_u64().unwrap().wrapping_mul(0x9E3779B97F4A7C15);
    for i in (1..256usize).rev() {
      st = st.wrapping_mul(6364136223846793005).wrapping_add(1442695040888963407);
      v.swap(i, (st >> 33) as usize % (i + 1));
    }
    ("seeded-random (sampled)", v)
  };
  let mut path = vec![];
  for &x in &seq {
    cx.eval();
    if guard(|| g.puncture(&[x]).is_ok()) != Ok(true) {
      cx.viol("C10/puncture-refused", format!("{}: puncturing {} failed", name, x), json!({"sequence": name, "punctured_in_order": path, "input": x}));
      return;
    }
    path.push(x);
    check_state(cx, &g, &path, &baseline, path.len() % 16 == 0 || path.len() >= 255);
    cx.count("states", 1);
    cx.count("transitions", 1);
    if !cx.viols.is_empty() {
      return;
    }
  }
  cx.nontrivial(fnv(&seq));
  cx.outcome(format!("{}: complete", name));
  cx.sample(json!({"sequence": name, "first": &seq[..6], "punctures": seq.len()}));
}

pub fn spec() -> PropSpec {
  PropSpec {
    id: "C10",
    level: "model_checking",
    assumptions: vec![
      "2^256 puncture sets are not enumerable: covered are ALL subsets (through all orders, merged by punctured set with a merge check on the real key material) of four 16-leaf sub-domains (quick: four 8-leaf sub-domains containing every deepest-level sibling/cousin configuration), all singletons, all ordered pairs over the full domain (thorough; quick: pairs from 16 first elements), and 8 fixed complete 256-step sequences",
      "reference model: set of punctured leaves; values compared with the 256 values recorded on the fresh key",
      "seeded random complete sequences are supplementary (labelled sampled)",
    ],
    thorough_budget_s: 1800,
    checks: vec![
      Check {
        name: "subsets-bfs",
        rule: "explicit-state BFS: state = real GGM, transition = one real puncture of a domain input (refused re-punctures included), digest = punctured set with merge check on sorted retained nodes; invariant in every state over ALL 256 inputs: eval fails iff punctured else equals the fresh-key value; wrong-length eval/puncture (0,2,3,8,31,32,33,64,65,129,257,513 bytes) and re-puncture of every punctured input refused without changing the key; for every transition: evaluate z, puncture x, evaluate z first (z over the domain and neighbours of x) - evaluations must not leave state behind; non-trivial = distinct punctured sets",
        gen: |tier| if tier.thorough() { (0..8).map(|d| json!({"domain": d})).collect() } else { (4..8).map(|d| json!({"domain": d})).collect() },
        run: run_subsets,
        min_counts: &[("states", 1000), ("refused_repunctures", 1000), ("merges", 1000), ("traces_validated", 4)],
      },
      Check {
        name: "singletons-and-pairs",
        rule: "every single input punctured from a fresh key (256 states, full invariant); thorough: ALL 65280 ordered pairs (a<b: full invariant; a>b: key material must equal that of (b,a), else full invariant); quick: ordered pairs with a in the first 16 + 8 extreme inputs",
        gen: |tier| (0..=255u64).map(|a| json!({"a": a, "pairs": tier.thorough() || a < 16 || a >= 248 || a == 127 || a == 128})).collect(),
        run: run_singletons_pairs,
        min_counts: &[("states", 256)],
      },
      Check {
        name: "stateright-crosscheck",
        rule: "second engine: stateright 0.31 BFS over the same real transition function and invariant (violations latched into the state, `always` property); its verdict must agree and its state counts must be 2^n unique / n*2^(n-1)+1 generated (engine disagreement = machinery error)",
        gen: |tier| if tier.thorough() { vec![json!({"domain": 4}), json!({"domain": 7}), json!({"domain": 0})] } else { vec![json!({"domain": 4})] },
        run: super::sr::run_c10,
        min_counts: &[("engine_agreements", 1)],
      },
      Check {
        name: "keys-across-threads",
        rule: "three keys created and their 256 values recorded on one thread; each key then evaluated, punctured (6 inputs) and re-checked in full on a fresh thread and on a thread that handled another key first (a key is a value: nothing about it may live in the thread)",
        gen: |_| vec![json!({})],
        run: run_threads,
        min_counts: &[("cross_thread_keys", 6)],
      },
      Check {
        name: "object-reuse",
        rule: "dst.clone_from(&src) for EVERY pair of histories (all ordered puncture sequences of length <= 2 over {0,0x80,0x40,1,3,255}: 37 x 37, destinations also under another key): the overwritten object satisfies the invariant of the SOURCE history over all 256 inputs and retains exactly the source's key material, the source is unchanged, and after every one-step continuation it equals src.clone() after the same step",
        gen: |_| (0..37u64).map(|i| json!({"src": i})).collect(),
        run: run_object_reuse,
        min_counts: &[("states", 3000)],
      },
      Check {
        name: "travelled-key",
        rule: "serialise-then-use: for EVERY input a, nine puncture histories starting at a (alone; with its sibling, cousin, neighbours, complement, bit-reversal; inside a triple; a stride-64 quadruple) on the key inside a Server (alternately one that registers all 256 tags and one that registers two, so that the punctured inputs are mostly unpublished tags): the invariant on that key itself, re-punctures refused; then the key state is exported (key-sync), imported into a fresh server and into a follower: the C10 invariant over all 256 inputs on the key the importer holds, and after each of three further punctures there",
        gen: |_| (0..32u64).map(|i| json!({"lo": i * 8})).collect(),
        run: run_travelled_key,
        min_counts: &[("states", 10_000)],
      },
      Check {
        name: "cover-shapes",
        rule: "the sparse end of the state space: for EVERY tree node (510) and every disjoint pair from {all nodes of depth <= 3, the leaves 0,1,2,128,254,255,85,170, two depth-7 nodes} the key in which exactly those subtrees are still live (all other inputs punctured, ascending; every third also descending): the invariant over all 256 inputs, and again after one more puncture inside the live part",
        gen: |_| (0..32u64).map(|i| json!({"part": i, "parts": 32})).collect(),
        run: run_cover_shapes,
        min_counts: &[("states", 1500)],
      },
      Check {
        name: "many-operations",
        rule: "one key object through 4200 evaluations (inputs in stride-37 order, live and punctured alternating, every 7th into a dirty buffer) with a puncture after every 700: every answer per the model and equal to the first evaluation's value; full invariant after each puncture (counters that wrap, first / later call and even / odd call differences)",
        gen: |_| vec![json!({})],
        run: run_many_operations,
        min_counts: &[("operations_on_one_object", 4000)],
      },
      Check {
        name: "ordered-pairs-light",
        rule: "ALL 65280 ordered pairs (a, b): puncture a, then b: both succeed, both inputs then refuse, neither can be punctured again, and the eight neighbours a^0x80, b^0x80, a^1, b^1, a^0x40, b^0x40, a+1, b-1 keep their values (the full 256-input invariant for every ordered pair is in the thorough tier)",
        gen: |_| (0..16u64).map(|i| json!({"lo": i * 16})).collect(),
        run: run_ordered_pairs_light,
        min_counts: &[("ordered_pairs", 65_000)],
      },
      Check {
        name: "complete-sequences",
        rule: "8 fixed adversarial complete sequences (ascending, descending, bit-reversed, Gray, sibling-first both ways, subtree-last, stride-37): invariant after every one of the 256 punctures; the emptied key refuses everything; thorough adds seeded random permutations (sampled, supplementary)",
        gen: |tier| {
          let mut v: Vec<Value> = (0..sequences().len()).map(|i| json!({"seq": i})).collect();
          if tier.thorough() {
            v.extend((0..24).map(|i| json!({"random": i})));
          }
          v
        },
        run: run_sequence,
        min_counts: &[("states", 2048)],
      },
    ],
  }
}
