//! C01 — >= t matching reports always reveal measurement and associated data.
//! E-seq (every selection sequence of the reports) x E-env (deviation-bounded
//! share-point entropy) on the real client / recovery code.
use crate::mc::*;
use crate::sut::*;
use num_bigint::BigUint;
use ppoprf::ppoprf as pp;
use serde_json::{json, Value};
use sta_rs::Message;

pub struct Group {
  pub msgs: Vec<Message>,
  pub xs: Vec<BigUint>,
  pub auxs: Vec<Option<Vec<u8>>>,
  pub meas: Vec<u8>,
  pub epoch: Vec<u8>,
  pub t: u32,
}

/// Build one group of n reports for a configuration; returns None (after recording a violation)
/// if generation itself fails.
pub fn build_group(cx: &mut CaseCx, prop: &str, case: &Value, n: usize) -> Option<Group> {
  let t = case["t"].as_u64().unwrap() as u32;
  let meas = meas_alphabet(true)[case["m"].as_u64().unwrap() as usize].clone();
  let epoch = epoch_alphabet(true)[case["e"].as_u64().unwrap() as usize].clone();
  let auxoff = case["auxoff"].as_u64().unwrap_or(0) as usize;
  let server_src = case["src"].as_str() == Some("server");
  let wire = case["wire"].as_bool().unwrap_or(false);
  let env: Vec<(usize, Ans)> = case["env"].as_array().map(|a| a.iter().map(|e| (e[0].as_u64().unwrap() as usize, serde_json::from_value(e[1].clone()).unwrap())).collect()).unwrap_or_default();
  let auxa = aux_alphabet();
  let mut server = None;
  if server_src {
    cx.entropy(1);
    server = Some(pp::Server::new(vec![0, 1, 7, 255]).expect("server"));
  }
  let mut msgs = vec![];
  let mut xs = vec![];
  let mut auxs = vec![];
  let mut rnd0: Option<[u8; 32]> = None;
  cx.entropy(2);
  for i in 0..n {
    getrandom::verif::set_group(1000 + i as u32);
    let rnd = match &server {
      None => local_randomness(&meas, &epoch, t),
      Some(s) => match guard(|| server_randomness(s, 1, &meas)) {
        Ok(Ok(r)) => r,
        other => {
          cx.viol(format!("{}/server-randomness-failed", prop), format!("PPOPRF exchange failed: {:?}", other), json!({"client": i}));
          return None;
        }
      },
    };
    if let Some(r0) = rnd0 {
      if r0 != rnd {
        cx.viol(format!("{}/randomness-differs-between-clients", prop), "two clients with equal (measurement, epoch, threshold) obtained different randomness", json!({"client": i}));
        return None;
      }
    }
    rnd0 = Some(rnd);
    let aux = auxa[(auxoff + i) % auxa.len()].clone();
    getrandom::verif::set_group(i as u32 + 1);
    let ans = env.iter().find(|(c, _)| *c == i).map(|(_, a)| a.clone()).unwrap_or(Ans::Fresh);
    apply_answer(&ans);
    let r = gen_report(&meas, &epoch, t, &rnd, &aux);
    getrandom::verif::clear_script();
    let mut msg = match r {
      Ok(m) => m,
      Err(e) => {
        cx.viol(format!("{}/generate-failed", prop), format!("Message::generate failed: {}", e), json!({"client": i}));
        return None;
      }
    };
    if wire {
      let b = msg.to_bytes();
      match guard(|| Message::from_bytes(&b)) {
        Ok(Some(m2)) => {
          if m2 != msg {
            cx.viol(format!("{}/wire-roundtrip", prop), "Message::from_bytes(to_bytes(m)) != m", json!({"client": i, "bytes": hexs(&b)}));
          }
          msg = m2;
        }
        other => {
          cx.viol(format!("{}/wire-roundtrip", prop), format!("an honest report does not decode: {:?}", other.map(|o| o.is_some())), json!({"client": i, "bytes": hexs(&b)}));
          return None;
        }
      }
    }
    let x = match share_x(&msg.share.to_bytes()) {
      Some(x) => x,
      None => {
        cx.viol(format!("{}/share-layout", prop), "share of an honest report does not parse per the documented layout", json!({"client": i}));
        return None;
      }
    };
    match &ans {
      Ans::Craft(s) => {
        if x.to_string() != *s {
          cx.count("craft_miss", 1);
          cx.note("crafted entropy did not decode to the intended share point (sampler changed?): that sub-alphabet is only counted, never an alarm");
        } else {
          cx.count("craft_hit", 1);
        }
      }
      Ans::Replay(j) => {
        let j = *j as usize - 1;
        if j < xs.len() && xs[j] == x {
          cx.count("collisions_produced", 1);
        } else {
          cx.count("replay_miss", 1);
        }
      }
      _ => {}
    }
    msgs.push(msg);
    xs.push(x);
    auxs.push(aux);
  }
  Some(Group { msgs, xs, auxs, meas, epoch, t })
}

pub fn distinct_x(xs: &[BigUint], sel: &[usize]) -> usize {
  let mut v: Vec<&BigUint> = sel.iter().map(|&i| &xs[i]).collect();
  v.sort();
  v.dedup();
  v.len()
}

fn run_cfg(cx: &mut CaseCx, case: &Value) {
  let t = case["t"].as_u64().unwrap() as usize;
  let n = t + 2;
  let g = match build_group(cx, "C01", case, n) {
    Some(g) => g,
    None => return,
  };
  let exhaustive = case["sel"].as_str() != Some("structured");
  let mut recovered0: Option<Vec<u8>> = None;
  let mut n_ok = 0u64;
  let mut n_below = 0u64;
  let mut judge = |cx: &mut CaseCx, sel: &[usize]| {
    if sel.is_empty() {
      return;
    }
    let shares: Vec<sta_rs::Share> = sel.iter().map(|&i| g.msgs[i].share.clone()).collect();
    let res = recover_msg(&shares);
    cx.eval();
    cx.count("states", 1); // node (configuration, entropy script, selection prefix)
    cx.count("transitions", 1); // appending one report to the prefix
    let d = distinct_x(&g.xs, sel);
    if d < t {
      n_below += 1;
      cx.outcome(format!("below-threshold:{}", match &res { Ok(Ok(_)) => "Ok", Ok(Err(_)) => "Err", Err(_) => "panic" }));
      return;
    }
    cx.nontrivial(fnv_str(&format!("{}|{:?}", case, sel)));
    match res {
      Ok(Ok(m)) => {
        n_ok += 1;
        match &recovered0 {
          Some(m0) => {
            if *m0 != m {
              cx.viol("C01/recovered-message-varies", "two selections with >= t distinct shares recover different messages", json!({"sel": sel}));
            }
          }
          None => {
            // full end-to-end oracle once per configuration: every report decrypts to its client's inputs
            cx.count("traces_validated", 1);
            for (i, msg) in g.msgs.iter().enumerate() {
              cx.eval();
              match open_report(msg, &m, &g.epoch) {
                Ok((mm, aa)) => {
                  if mm != g.meas {
                    cx.viol("C01/decrypt-measurement", format!("report {} decrypts to a different measurement", i), json!({"sel": sel, "report": i, "got": hexs(&mm)}));
                  }
                  if aa != g.auxs[i] {
                    cx.viol("C01/decrypt-aux", format!("report {} decrypts to associated data {:?}, client supplied {:?}", i, aa.as_ref().map(|a| hexs(a)), g.auxs[i].as_ref().map(|a| hexs(a))), json!({"sel": sel, "report": i}));
                  }
                }
                Err(e) => cx.viol("C01/decrypt-failed", format!("report {} does not open with the recovered key: {}", i, e), json!({"sel": sel, "report": i})),
              }
            }
            recovered0 = Some(m);
          }
        }
      }
      Ok(Err(e)) => cx.viol("C01/recover-failed", format!("recovery failed although the selection holds {} >= t = {} distinct shares: {}", d, t, e), json!({"sel": sel, "xs": sel.iter().map(|&i| g.xs[i].to_string()).collect::<Vec<_>>()})),
      Err(p) => cx.viol("C01/recover-panicked", format!("recovery panicked on >= t distinct shares: {}", p), json!({"sel": sel})),
    }
  };
  if exhaustive {
    for_each_seq(n, n, |sel| judge(cx, sel));
  } else {
    let parts = case["parts"].as_u64().unwrap_or(1) as usize;
    let part = case["part"].as_u64().unwrap_or(0) as usize;
    let mut k = 0usize;
    for sel in structured_selections(n, t) {
      k += 1;
      if k % parts == part {
        judge(cx, &sel);
      }
    }
    // every t-subset of the n = t+2 reports
    for_each_subset(n, t, |sel| {
      k += 1;
      if k % parts == part {
        judge(cx, sel);
      }
    });
  }
  cx.count("ok_recoveries", n_ok);
  cx.count("below_threshold_selections", n_below);
  cx.outcome(format!("t={} ok", t));
  if n_ok > 0 {
    cx.sample(json!({"xs": g.xs.iter().map(|x| x.to_string()).collect::<Vec<_>>(), "ok_recoveries": n_ok, "below_threshold_selections": n_below, "aux": g.auxs.iter().map(|a| a.as_ref().map(|a| a.len())).collect::<Vec<_>>()}));
  }
}

fn gen_main(tier: Tier) -> Vec<Value> {
  let mut v = vec![];
  let th = tier.thorough();
  let nm = meas_alphabet(true).len();
  let ne = epoch_alphabet(true).len();
  for t in 1..=4u64 {
    for m in 0..nm {
      for e in 0..ne {
        for (k, src) in ["local", "server"].iter().enumerate() {
          for wire in [false, true] {
            // t = 4 (6^6 selections per configuration): quick tier thins the product out
            if t == 4 && !th && !((m + 2 * e + k) % 6 == 0 && wire) {
              continue;
            }
            v.push(json!({"t": t, "m": m, "e": e, "auxoff": (m + e) % 6, "src": src, "wire": wire}));
          }
        }
      }
    }
  }
  if th {
    // t = 5 exhaustively (7^7 selections) on a few configurations
    for (m, e, src) in [(0usize, 0usize, "local"), (4, 1, "server"), (7, 2, "local"), (12, 5, "local")] {
      v.push(json!({"t": 5, "m": m, "e": e, "auxoff": 1, "src": src, "wire": true}));
    }
  }
  v
}
fn gen_large(tier: Tier) -> Vec<Value> {
  let ts: &[u64] = if tier.thorough() { &[8, 16, 33, 34, 64, 65, 100, 128] } else { &[8, 34, 64] };
  let mut v = vec![];
  for &t in ts {
    for (m, e, src) in [(4usize, 1usize, "local"), (0, 0, "server")] {
      let parts = if t >= 32 { 8 } else { 1 };
      for part in 0..parts {
        v.push(json!({"t": t, "m": m, "e": e, "auxoff": 0, "src": src, "wire": true, "sel": "structured", "part": part, "parts": parts}));
      }
    }
  }
  v
}
fn gen_env(tier: Tier) -> Vec<Value> {
  let mut v = vec![];
  let th = tier.thorough();
  let ts: &[u64] = if th { &[1, 2, 3] } else { &[2, 3] };
  for &t in ts {
    let n = (t + 2) as usize;
    let mut answers: Vec<Ans> = vec![Ans::Zeros, Ans::Ones];
    answers.extend(craft_points().into_iter().map(Ans::Craft));
    let mut devs: Vec<(usize, Ans)> = vec![];
    for i in 0..n {
      for a in &answers {
        devs.push((i, a.clone()));
      }
      for j in 0..i {
        devs.push((i, Ans::Replay(j as u32 + 1)));
      }
    }
    // bound 1
    for d in &devs {
      v.push(json!({"t": t, "m": 4, "e": 1, "auxoff": 2, "src": "local", "wire": t == 2, "env": [[d.0, d.1]]}));
    }
    // bound 2 (thorough): all pairs of deviations on different clients
    if th && t <= 2 {
      for a in 0..devs.len() {
        for b in a + 1..devs.len() {
          if devs[a].0 != devs[b].0 {
            v.push(json!({"t": t, "m": 1, "e": 0, "auxoff": 0, "src": "local", "wire": false, "env": [[devs[a].0, devs[a].1], [devs[b].0, devs[b].1]]}));
          }
        }
      }
    }
  }
  v
}


/// the sharing key K of a group (reference interpolation at zero over the first t distinct shares)
pub fn sharing_key(g: &Group) -> Option<Vec<u8>> {
  let mut pts: Vec<(BigUint, BigUint)> = vec![];
  for m in &g.msgs {
    let p = crate::refmodel::parse_adss(&m.share.to_bytes())?;
    if p.s.y.len() != 1 || pts.iter().any(|q| q.0 == p.s.x) {
      continue;
    }
    pts.push((p.s.x, p.s.y[0].clone()));
    if pts.len() == g.t as usize {
      break;
    }
  }
  if pts.len() < g.t as usize {
    return None;
  }
  Some(crate::refmodel::le24(&crate::refmodel::lagrange_at_zero(&pts))[..16].to_vec())
}


/// boundary search on an internal value: measurements (named `<prefix><i>`) whose 16-byte SHARING KEY - the
/// constant term of the sharing polynomial, obtained by interpolating t honest shares - has a 0x00 / 0xff
/// first, middle or last byte or two consecutive zero bytes. Returns (measurement, key).
pub fn boundary_key_measurements(prefix: &str, epoch: &[u8], t: u32, lo: u64, count: u64) -> (Vec<(Vec<u8>, Vec<u8>)>, u64) {
  let mut out = vec![];
  let mut examined = 0u64;
  for i in lo..lo + count {
    let meas = format!("{}{}", prefix, i).into_bytes();
    let rnd = local_randomness(&meas, epoch, t);
    let n = t as usize;
    let mut msgs = vec![];
    for k in 0..n {
      getrandom::verif::set_group(k as u32 + 1);
      if let Ok(m) = gen_report(&meas, epoch, t, &rnd, &None) {
        msgs.push(m);
      }
    }
    if msgs.len() != n {
      continue;
    }
    let xs: Vec<BigUint> = msgs.iter().filter_map(|m| share_x(&m.share.to_bytes())).collect();
    let g = Group { msgs, xs, auxs: vec![None; n], meas: meas.clone(), epoch: epoch.to_vec(), t };
    if let Some(k) = sharing_key(&g) {
      examined += 1;
      if k[15] == 0 || k[0] == 0 || k[15] == 0xff || k[0] == 0xff || k[8] == 0 || k.windows(2).any(|w| w == [0, 0]) {
        out.push((meas, k));
      }
    }
  }
  (out, examined)
}

/// one thread, one client randomness, several thresholds in a row: sharings must not influence each other
fn run_threshold_sequence(cx: &mut CaseCx, case: &Value) {
  let ts: Vec<u32> = case["ts"].as_array().unwrap().iter().map(|v| v.as_u64().unwrap() as u32).collect();
  let server_src = case["src"].as_str() == Some("server");
  let meas = meas_alphabet(true)[case["m"].as_u64().unwrap() as usize].clone();
  let epoch = b"epoch".to_vec();
  cx.entropy(1);
  // ONE 32-byte client randomness shared by all clients of all thresholds (fixed bytes, or one PPOPRF output)
  let rnd: [u8; 32] = if server_src {
    let s = pp::Server::new(vec![0, 1, 7]).expect("server");
    match guard(|| server_randomness(&s, 1, &meas)) {
      Ok(Ok(r)) => r,
      _ => return,
    }
  } else {
    prbytes(0xF1C5, 32).try_into().unwrap()
  };
  cx.nontrivial(fnv_str(&case.to_string()));
  for (round, &t) in ts.iter().enumerate() {
    let n = t as usize + 1;
    let mut msgs = vec![];
    for i in 0..n {
      getrandom::verif::set_group((round * 100 + i) as u32 + 1);
      match gen_report(&meas, &epoch, t, &rnd, &Some(vec![round as u8, i as u8])) {
        Ok(m) => msgs.push(m),
        Err(e) => {
          cx.viol("C01/generate-failed", e, json!({"thresholds_in_order": ts, "round": round}));
          return;
        }
      }
    }
    // every t-subset recovers and opens every report of this round
    let mut failed = false;
    for_each_subset(n, t as usize, |sel| {
      if failed {
        return;
      }
      let shares: Vec<sta_rs::Share> = sel.iter().map(|&i| msgs[i].share.clone()).collect();
      cx.eval();
      cx.count("states", 1);
      cx.count("transitions", 1);
      match recover_msg(&shares) {
        Ok(Ok(m)) => {
          for (i, msg) in msgs.iter().enumerate() {
            match open_report(msg, &m, &epoch) {
              Ok((mm, aa)) if mm == meas && aa == Some(vec![round as u8, i as u8]) => {}
              other => {
                cx.viol("C01/sequence/decrypt-mismatch", format!("threshold sequence {:?}, round {} (t={}): report {} does not open to its client's inputs: {:?}", ts, round, t, i, other.map(|x| (x.0.len(), x.1.map(|a| a.len())))), json!({"thresholds_in_order": ts, "round": round, "sel": sel}));
                failed = true;
              }
            }
          }
          cx.count("ok_recoveries", 1);
        }
        other => {
          cx.viol("C01/sequence/recover-failed", format!("clients sharing one 32-byte randomness reported under thresholds {:?} in this order on one thread; at round {} (t={}) {} distinct shares do not recover: {:?}", ts, round, t, t, other.map(|r| r.map(|_| ()))), json!({"thresholds_in_order": ts, "round": round, "sel": sel, "randomness": if server_src { "PPOPRF server" } else { "fixed 32 bytes" }}));
          failed = true;
        }
      }
    });
    if failed {
      return;
    }
  }
  cx.outcome(format!("sequence of {} thresholds", ts.len()));
  cx.sample(json!({"thresholds_in_order": ts, "randomness": if server_src { "PPOPRF server" } else { "fixed 32 bytes" }}));
}


/// every threshold of a range: t+1 reports, identity / reversed / leave-first-out selections
fn run_threshold_sweep(cx: &mut CaseCx, case: &Value) {
  let t = case["t"].as_u64().unwrap() as usize;
  let cfg = json!({"t": t, "m": 4, "e": 1, "auxoff": 0, "src": "local", "wire": t % 2 == 0});
  let g = match build_group(cx, "C01", &cfg, t + 1) {
    Some(g) => g,
    None => return,
  };
  cx.nontrivial(t as u64);
  let sels: Vec<Vec<usize>> = vec![(0..t).collect(), (0..=t).collect(), (0..=t).rev().collect(), (1..=t).collect(), (0..t).rev().collect()];
  for sel in sels {
    let shares: Vec<sta_rs::Share> = sel.iter().map(|&i| g.msgs[i].share.clone()).collect();
    cx.eval();
    cx.count("states", 1);
    cx.count("transitions", 1);
    match recover_msg(&shares) {
      Ok(Ok(m)) => {
        cx.count("ok_recoveries", 1);
        if !matches!(open_report(&g.msgs[0], &m, &g.epoch), Ok((mm, aa)) if mm == g.meas && aa == g.auxs[0]) {
          cx.viol("C01/threshold-sweep/decrypt-mismatch", format!("t={}: report does not open to its client's inputs", t), json!({"t": t, "selection": if sel.len() > 8 { json!(format!("{} shares", sel.len())) } else { json!(sel) }}));
        }
      }
      other => cx.viol("C01/threshold-sweep/recover-failed", format!("threshold {}: {} distinct shares (order {}) do not recover: {:?}", t, sel.len(), if sel.first() < sel.last() { "ascending" } else { "descending" }, other.map(|r| r.map(|_| ()))), json!({"t": t, "shares": sel.len(), "first_index": sel[0]})),
    }
  }
  cx.outcome(format!("t%64={}", t % 64));
}



/// the NUMBER of matching reports, in every relation to the threshold: n = t .. 70, multiples and squares of t,
/// and the neighbourhoods of 128, 256, 512 - all n reports handed to the recovery (and an n-1 of n selection)
fn run_report_counts(cx: &mut CaseCx, case: &Value) {
  let t = case["t"].as_u64().unwrap() as usize;
  let nmax = case["nmax"].as_u64().unwrap() as usize;
  let cfg = json!({"t": t, "m": 1, "e": 2, "auxoff": 1, "src": "local", "wire": false});
  let g = match build_group(cx, "C01", &cfg, nmax) {
    Some(g) => g,
    None => return,
  };
  let mut ns: Vec<usize> = (t..=70.min(nmax)).collect();
  for k in [2usize, 3, 4, 8, 16] {
    ns.extend([k * t - 1, k * t, k * t + 1]);
  }
  ns.extend([t * t, t * t + 1, 127, 128, 129, 255, 256, 257, 256 + t - 1, 256 + t, 511, 512, 513, 512 + t - 1]);
  ns.retain(|&n| n >= t && n <= nmax);
  ns.sort();
  ns.dedup();
  for n in ns {
    // the first n reports, the last n reports, and the first n with one dropped from the middle
    let sels: Vec<(&str, Vec<usize>)> = vec![("first n", (0..n).collect()), ("last n, reversed", (nmax - n..nmax).rev().collect()), ("first n+1 without the middle one", (0..(n + 1).min(nmax)).filter(|&i| i != n / 2 || n + 1 > nmax).collect())];
    for (how, sel) in sels {
      let shares: Vec<sta_rs::Share> = sel.iter().map(|&i| g.msgs[i].share.clone()).collect();
      cx.eval();
      cx.count("states", 1);
      cx.count("transitions", 1);
      cx.nontrivial(fnv_str(&format!("{}|{}|{}", t, n, how)));
      match recover_msg(&shares) {
        Ok(Ok(m)) => {
          cx.count("ok_recoveries", 1);
          // every report of the selection opens to its own client's inputs (spot: first, last, middle)
          for &i in [sel[0], sel[sel.len() - 1], sel[sel.len() / 2]].iter() {
            if !matches!(open_report(&g.msgs[i], &m, &g.epoch), Ok((mm, aa)) if mm == g.meas && aa == g.auxs[i]) {
              cx.viol("C01/report-count/decrypt-mismatch", format!("t={}, {} reports ({}): report {} does not open to its client's inputs", t, sel.len(), how, i), json!({"t": t, "reports": sel.len(), "selection": how, "report": i}));
              return;
            }
          }
        }
        other => {
          cx.viol("C01/report-count/recover-failed", format!("threshold {}: {} matching reports ({}) do not recover: {:?}", t, sel.len(), how, other.map(|r| r.map(|_| ()))), json!({"t": t, "reports": sel.len(), "selection": how}));
          return;
        }
      }
    }
  }
  cx.outcome(format!("t={}", t));
}


/// "for any 32-byte client randomness shared by the clients": randomness VALUES with structure (all zero, all
/// ones, one bit, repeated bytes, a previous tag, the measurement itself padded) instead of derived ones
fn run_randomness_values(cx: &mut CaseCx, case: &Value) {
  let t = case["t"].as_u64().unwrap() as u32;
  let meas = b"https://example.com/randomness-values".to_vec();
  let epoch = b"epoch".to_vec();
  let mut vals: Vec<(String, [u8; 32])> = vec![("all zero".into(), [0u8; 32]), ("all 0xff".into(), [0xff; 32]), ("0x01 repeated".into(), [1u8; 32]), ("0x80 then zeros".into(), { let mut b = [0u8; 32]; b[0] = 0x80; b }), ("zeros then 0x01".into(), { let mut b = [0u8; 32]; b[31] = 1; b }), ("low half zero".into(), { let mut b = [0xa5u8; 32]; for x in b.iter_mut().take(16) { *x = 0; } b }), ("high half zero".into(), { let mut b = [0xa5u8; 32]; for x in b.iter_mut().skip(16) { *x = 0; } b })];
  // a value that was produced earlier: the tag and the key-stream of another report
  let r0 = local_randomness(&meas, &epoch, t);
  if let Ok(m0) = gen_report(&meas, &epoch, t, &r0, &None) {
    let mut b = [0u8; 32];
    b.copy_from_slice(&m0.tag[..32]);
    vals.push(("the tag of an earlier report".into(), b));
  }
  let mut padded = [0u8; 32];
  padded[..meas.len().min(32)].copy_from_slice(&meas[..meas.len().min(32)]);
  vals.push(("the measurement's first 32 bytes".into(), padded));
  // inputs that alias the labels the derivations use internally: (measurement, epoch, aux) = labels
  for (lm, le, la) in [("star_encrypt", "star_derive_ske_key", "star_sample_local"), ("star_sample_local", "star_sample_local", "star_encrypt"), ("adss encrypt", "random coins", "adss encrypt")] {
    let (lm, le) = (lm.as_bytes().to_vec(), le.as_bytes().to_vec());
    let rnd = local_randomness(&lm, &le, t);
    let n = t as usize + 1;
    let mut msgs = vec![];
    for i in 0..n {
      getrandom::verif::set_group(300 + i as u32);
      if let Ok(m) = gen_report(&lm, &le, t, &rnd, &Some(la.as_bytes().to_vec())) {
        msgs.push(m);
      }
    }
    let shares: Vec<sta_rs::Share> = msgs.iter().take(t as usize).map(|m| m.share.clone()).collect();
    cx.eval();
    let ok = msgs.len() == n && matches!(recover_msg(&shares), Ok(Ok(r0)) if msgs.iter().all(|m| matches!(open_report(m, &r0, &le), Ok((mm, Some(aa))) if mm == lm && aa == la.as_bytes())));
    if !ok {
      cx.viol("C01/label-valued-inputs", format!("measurement {:?}, epoch {:?}, associated data {:?} (values equal to labels the derivations use internally), t={}: reports do not recover and open to their inputs", String::from_utf8_lossy(&lm), String::from_utf8_lossy(&le), la, t), json!({"t": t}));
      return;
    }
    cx.count("ok_recoveries", 1);
  }
  let auxa = aux_alphabet();
  let mut tags: Vec<Vec<u8>> = vec![];
  for (name, rnd) in vals.iter() {
    let n = t as usize + 1;
    let mut msgs = vec![];
    let mut auxs = vec![];
    for i in 0..n {
      getrandom::verif::set_group(i as u32 + 1);
      let aux = auxa[i % auxa.len()].clone();
      match gen_report(&meas, &epoch, t, rnd, &aux) {
        Ok(m) => {
          msgs.push(m);
          auxs.push(aux);
        }
        Err(e) => {
          cx.viol("C01/generate-failed", format!("Message::generate with client randomness {} failed: {}", name, e), json!({"randomness": name, "t": t}));
          return;
        }
      }
    }
    tags.push(msgs[0].tag.clone());
    for sel in [(0..t as usize).collect::<Vec<_>>(), (1..n).rev().collect()] {
      let shares: Vec<sta_rs::Share> = sel.iter().map(|&i| msgs[i].share.clone()).collect();
      cx.eval();
      cx.count("states", 1);
      cx.count("transitions", 1);
      cx.nontrivial(fnv_str(&format!("{}|{}|{:?}", t, name, sel)));
      match recover_msg(&shares) {
        Ok(Ok(m)) => {
          for i in 0..n {
            if !matches!(open_report(&msgs[i], &m, &epoch), Ok((mm, aa)) if mm == meas && aa == auxs[i]) {
              cx.viol("C01/randomness-value/decrypt-mismatch", format!("client randomness {}: report {} does not open to its client's inputs", name, i), json!({"randomness": name, "t": t, "report": i}));
              return;
            }
          }
          cx.count("ok_recoveries", 1);
        }
        other => {
          cx.viol("C01/randomness-value/recover-failed", format!("client randomness {} (t={}): {} matching reports do not recover: {:?}", name, t, sel.len(), other.map(|r| r.map(|_| ()))), json!({"randomness": name, "t": t}));
          return;
        }
      }
    }
  }
  cx.outcome(format!("t={}", t));
}

/// magnitudes of the payload: measurements and associated data at and around 2^16 and 2^20 bytes (thorough 2^24)
fn run_large_payloads(cx: &mut CaseCx, case: &Value) {
  let mlen = case["mlen"].as_u64().unwrap() as usize;
  let alen = case["alen"].as_u64().unwrap() as usize;
  let t = 2u32;
  let meas = prbytes(0x1A6E + mlen as u64, mlen);
  let epoch = b"epoch".to_vec();
  let rnd = local_randomness(&meas, &epoch, t);
  let mut msgs = vec![];
  let mut auxs = vec![];
  for i in 0..3u32 {
    getrandom::verif::set_group(i + 1);
    let aux = if i == 1 { None } else { Some(prbytes(0xA0A0 + i as u64 + alen as u64, alen + i as usize)) };
    match gen_report(&meas, &epoch, t, &rnd, &aux) {
      Ok(m) => {
        // through the wire form
        let b = m.to_bytes();
        match guard(|| Message::from_bytes(&b)) {
          Ok(Some(m2)) => msgs.push(m2),
          other => {
            cx.viol("C01/wire-roundtrip", format!("a report with a {}-byte measurement and {}-byte associated data does not decode: {:?}", mlen, alen, other.map(|o| o.is_some())), json!({"measurement_len": mlen, "aux_len": alen}));
            return;
          }
        }
        auxs.push(aux);
      }
      Err(e) => {
        cx.viol("C01/generate-failed", e, json!({"measurement_len": mlen, "aux_len": alen}));
        return;
      }
    }
  }
  cx.nontrivial(fnv_str(&case.to_string()));
  for sel in [vec![0usize, 1], vec![2, 1, 0], vec![1, 2]] {
    let shares: Vec<sta_rs::Share> = sel.iter().map(|&i| msgs[i].share.clone()).collect();
    cx.eval();
    cx.count("states", 1);
    cx.count("transitions", 1);
    match recover_msg(&shares) {
      Ok(Ok(m)) => {
        for i in 0..3 {
          match open_report(&msgs[i], &m, &epoch) {
            Ok((mm, aa)) if mm == meas && aa == auxs[i] => cx.count("large_opened", 1),
            other => {
              cx.viol("C01/large-payload/decrypt-mismatch", format!("measurement of {} bytes, associated data of {} bytes: report {} does not open to its client's inputs ({})", mlen, auxs[i].as_ref().map(|a| a.len()).unwrap_or(0), i, match other { Ok((mm, aa)) => format!("measurement {} bytes, aux {:?} bytes", mm.len(), aa.map(|a| a.len())), Err(e) => e }), json!({"measurement_len": mlen, "aux_len": alen, "report": i}));
              return;
            }
          }
        }
      }
      other => {
        cx.viol("C01/large-payload/recover-failed", format!("{:?}", other.map(|r| r.map(|_| ()))), json!({"measurement_len": mlen, "aux_len": alen}));
        return;
      }
    }
  }
  cx.outcome("large payloads open");
}


/// the aggregation side at scale: one `retrieve_outputs` call over several thousand reports in which the
/// matching reports of a measurement are FAR APART (first and last position, every 1000th position, one per
/// 1024-block), between filler reports of measurements that stay below threshold
fn run_aggregation_scale(cx: &mut CaseCx, case: &Value) {
  use star_test_utils::AggregationServer;
  let t = case["t"].as_u64().unwrap() as u32;
  let total = case["total"].as_u64().unwrap() as usize;
  let epoch = "epoch";
  let mk = |m: &[u8], k: u32, aux: &Option<Vec<u8>>| -> Option<Message> {
    getrandom::verif::set_group(k + 1);
    gen_report(m, epoch.as_bytes(), t, &local_randomness(m, epoch.as_bytes(), t), aux).ok()
  };
  // fillers: `total` distinct measurements with one report each (below threshold for t >= 2)
  let mut slots: Vec<Message> = vec![];
  for i in 0..total {
    match mk(format!("filler-{}", i).as_bytes(), 7, &None) {
      Some(m) => slots.push(m),
      None => return,
    }
  }
  // groups: (name, positions)
  let last = total - 1;
  let mut groups: Vec<(Vec<u8>, Vec<usize>)> = vec![
    (b"first-and-last".to_vec(), (0..t as usize).map(|k| if k == 0 { 0 } else { last - (k - 1) }).collect()),
    (b"one-per-1024-block".to_vec(), (0..t as usize).map(|k| (k * 1024 + 5).min(last - 10 - k)).collect()),
    (b"around-1024".to_vec(), (0..t as usize).map(|k| 1023 + k).collect()),
    (b"every-1000th".to_vec(), (0..(t as usize + 1)).map(|k| (k * 1000 + 17).min(last - 20 - k)).collect()),
  ];
  if t >= 2 {
    groups.push((b"below-threshold-far-apart".to_vec(), (0..(t as usize - 1)).map(|k| k * 1024 + 9).collect()));
  }
  let mut expect: Vec<(Vec<u8>, Vec<Option<Vec<u8>>>)> = vec![];
  for (gi, (name, pos)) in groups.iter().enumerate() {
    let mut auxs = vec![];
    for (k, &p) in pos.iter().enumerate() {
      let aux = if k % 2 == 0 { Some(vec![gi as u8, k as u8, 0xA5]) } else { None };
      match mk(name, 100 + k as u32, &aux) {
        Some(m) => slots[p] = m,
        None => return,
      }
      auxs.push(aux);
    }
    if pos.len() >= t as usize {
      auxs.sort();
      expect.push((name.clone(), auxs));
    }
  }
  let server = AggregationServer::new(t, epoch);
  cx.eval();
  cx.count("states", 1);
  cx.count("transitions", 1);
  cx.nontrivial(fnv_str(&case.to_string()));
  let out = match guard(|| server.retrieve_outputs(&slots)) {
    Ok(o) => o,
    Err(p) => {
      cx.viol("C01/aggregation-scale/server-panicked", p, json!({"t": t, "reports": total}));
      return;
    }
  };
  for (name, want) in &expect {
    let found: Vec<_> = out.iter().filter(|o| o.x.as_vec() == *name).collect();
    let nm = String::from_utf8_lossy(name).to_string();
    if found.len() != 1 {
      cx.viol("C01/aggregation-scale/not-revealed", format!("measurement {:?}, reported by {} >= t = {} clients whose reports lie far apart in a batch of {} reports, appears {} times in the output", nm, want.len(), t, total, found.len()), json!({"t": t, "reports": total, "group": nm}));
      return;
    }
    let mut got: Vec<Option<Vec<u8>>> = found[0].aux.iter().map(|a| a.as_ref().map(|d| d.as_vec()).filter(|v| !v.is_empty())).collect();
    got.sort();
    if got != *want {
      cx.viol("C01/aggregation-scale/associated-data-wrong", format!("measurement {:?} is revealed with {} associated-data entries instead of its {} clients' ({} reports in the batch)", nm, got.len(), want.len(), total), json!({"t": t, "reports": total, "group": nm}));
      return;
    }
    cx.count("far_apart_groups_revealed", 1);
  }
  if t >= 2 && out.iter().any(|o| o.x.as_vec().starts_with(b"filler-") || o.x.as_vec() == b"below-threshold-far-apart") {
    cx.viol("C01/aggregation-scale/below-threshold-revealed", "a measurement with fewer than t reports was revealed", json!({"t": t, "reports": total}));
  }
  cx.outcome(format!("t={} total={}", t, total));
}


/// "randomness obtained from the randomness server": the clients of one measurement do not all ask at the same
/// moment - between their requests the server punctures OTHER tags (in several orders), is cloned, restored from
/// an exported state. All clients must obtain the same randomness and their reports recover and open.
fn run_server_history(cx: &mut CaseCx, case: &Value) {
  let t = case["t"].as_u64().unwrap() as u32;
  let orders: Vec<Vec<u8>> = vec![vec![0, 2], vec![2, 0], vec![0, 128, 64], vec![64, 0, 128], vec![255, 1, 3], vec![5, 7, 4], vec![200, 8], vec![7, 5, 3, 1]];
  let order = orders[case["order"].as_u64().unwrap() as usize % orders.len()].clone();
  cx.entropy(11);
  let mut server = pp::Server::new((0..=255u8).collect()).expect("server");
  let meas = b"https://example.com/server-history".to_vec();
  let epoch = b"epoch".to_vec();
  // the clients' epoch tag: one that is never punctured here, chosen next to the punctured ones
  for md in [6u8, 130, 9, 192] {
    if order.contains(&md) {
      continue;
    }
    let mut s = server.clone();
    let mut msgs: Vec<Message> = vec![];
    let mut auxs = vec![];
    let mut rnd0: Option<[u8; 32]> = None;
    let n = order.len() + 1;
    for i in 0..n.max(t as usize) {
      getrandom::verif::set_group(i as u32 + 1);
      let rnd = match guard(|| server_randomness(&s, md, &meas)) {
        Ok(Ok(r)) => r,
        other => {
          cx.viol("C01/server-randomness-failed", format!("client {} cannot obtain randomness for the live tag {} after the server punctured {:?}: {:?}", i, md, &order[..i.min(order.len())], other), json!({"tag": md, "punctured_in_order": &order[..i.min(order.len())]}));
          return;
        }
      };
      if let Some(r0) = rnd0 {
        if r0 != rnd {
          cx.viol("C01/randomness-differs-between-clients/server-history", format!("two clients of one measurement obtain DIFFERENT randomness from the randomness server for tag {}: between their requests the server punctured {:?} (other tags): their reports can never be revealed", md, &order[..i.min(order.len())]), json!({"tag": md, "punctured_in_order": &order[..i.min(order.len())], "client": i}));
          return;
        }
      }
      rnd0 = Some(rnd);
      let aux = Some(vec![i as u8; 1 + i % 3]);
      match gen_report(&meas, &epoch, t, &rnd, &aux) {
        Ok(m) => {
          msgs.push(m);
          auxs.push(aux);
        }
        Err(e) => {
          cx.viol("C01/generate-failed", e, json!({"client": i}));
          return;
        }
      }
      // history between clients: the next puncture; every other step through a clone or a restored copy
      if i < order.len() {
        let _ = s.puncture(order[i]);
        if i % 2 == 1 {
          s = s.clone();
        }
      }
    }
    cx.eval();
    cx.count("states", 1);
    cx.count("transitions", order.len() as u64);
    cx.nontrivial(fnv_str(&format!("{}|{:?}|{}", t, order, md)));
    let shares: Vec<sta_rs::Share> = msgs.iter().rev().take(t as usize).map(|m| m.share.clone()).collect();
    match recover_msg(&shares) {
      Ok(Ok(r0)) => {
        for (i, m) in msgs.iter().enumerate() {
          if !matches!(open_report(m, &r0, &epoch), Ok((mm, aa)) if mm == meas && aa == auxs[i]) {
            cx.viol("C01/server-history/decrypt-mismatch", format!("report {} does not open to its client's inputs", i), json!({"tag": md}));
            return;
          }
        }
        cx.count("ok_recoveries", 1);
      }
      other => {
        cx.viol("C01/server-history/recover-failed", format!("{} reports of clients that asked the randomness server at different moments (tag {}, punctures {:?} in between) do not recover: {:?}", t, md, order, other.map(|r| r.map(|_| ()))), json!({"tag": md, "punctured_in_order": order}));
        return;
      }
    }
    server = server.clone();
  }
  cx.outcome(format!("t={}", t));
}


/// the aggregation side is independent of WHERE the clients' shared randomness came from and of the shape of
/// their associated data: groups built from locally derived randomness, from the randomness server and from a
/// fixed 32-byte value, each with long, pairwise different associated data (several cipher blocks), in one batch
fn run_aggregation_sources(cx: &mut CaseCx, case: &Value) {
  use star_test_utils::AggregationServer;
  let t = case["t"].as_u64().unwrap() as u32;
  let epoch = "epoch";
  cx.entropy(21);
  let server = pp::Server::new(vec![0, 1, 7]).expect("server");
  let sources: Vec<(&str, Vec<u8>, [u8; 32])> = {
    let mut v = vec![];
    let m1 = b"measurement with local randomness".to_vec();
    v.push(("locally derived randomness", m1.clone(), local_randomness(&m1, epoch.as_bytes(), t)));
    let m2 = b"measurement with server randomness".to_vec();
    match guard(|| server_randomness(&server, 1, &m2)) {
      Ok(Ok(r)) => v.push(("randomness from the randomness server", m2, r)),
      _ => {}
    }
    v.push(("a fixed 32-byte value shared by the clients", b"measurement with fixed randomness".to_vec(), [0x5au8; 32]));
    v
  };
  let mut msgs: Vec<Message> = vec![];
  let mut want: Vec<(Vec<u8>, Vec<Option<Vec<u8>>>, &str)> = vec![];
  for (gi, (name, m, rnd)) in sources.iter().enumerate() {
    let mut auxs = vec![];
    for k in 0..(t as usize + 1) {
      getrandom::verif::set_group((gi * 10 + k) as u32 + 1);
      // long associated data, different for every client: 600, 170 and 0 bytes in rotation
      let aux = match k % 3 {
        0 => Some(prbytes(0xA000 + (gi * 10 + k) as u64, 600)),
        1 => Some(prbytes(0xB000 + (gi * 10 + k) as u64, 170)),
        _ => None,
      };
      match gen_report(m, epoch.as_bytes(), t, rnd, &aux) {
        Ok(r) => msgs.push(r),
        Err(e) => {
          cx.viol("C01/generate-failed", e, json!({"source": name}));
          return;
        }
      }
      auxs.push(aux);
    }
    auxs.sort();
    want.push((m.clone(), auxs, name));
  }
  let agg = AggregationServer::new(t, epoch);
  cx.eval();
  cx.count("states", 1);
  cx.count("transitions", 1);
  cx.nontrivial(t as u64);
  let out = match guard(|| agg.retrieve_outputs(&msgs)) {
    Ok(o) => o,
    Err(p) => {
      cx.viol("C01/aggregation-sources/server-panicked", p, json!({"t": t}));
      return;
    }
  };
  for (m, auxs, name) in &want {
    let found: Vec<_> = out.iter().filter(|o| o.x.as_vec() == *m).collect();
    if found.len() != 1 {
      cx.viol("C01/aggregation-sources/not-revealed", format!("a measurement reported by t+1 = {} clients whose shared randomness is {} is revealed {} times by the reference aggregation side", t + 1, name, found.len()), json!({"t": t, "randomness_source": name}));
      return;
    }
    let mut got: Vec<Option<Vec<u8>>> = found[0].aux.iter().map(|a| a.as_ref().map(|d| d.as_vec()).filter(|v| !v.is_empty())).collect();
    got.sort();
    if got != *auxs {
      cx.viol("C01/aggregation-sources/associated-data-wrong", format!("the measurement whose clients used {} is revealed with other associated data than its clients attached (600-, 170- and 0-byte data, different for every client): lengths {:?} instead of {:?}", name, got.iter().map(|a| a.as_ref().map(|v| v.len())).collect::<Vec<_>>(), auxs.iter().map(|a| a.as_ref().map(|v| v.len())).collect::<Vec<_>>()), json!({"t": t, "randomness_source": name}));
      return;
    }
    cx.count("source_groups_revealed", 1);
  }
  cx.outcome(format!("t={}", t));
}

/// ONE `MessageGenerator` object used for several measurements in a row (its measurement field `x` is public:
/// `mg.x = SingleMeasurement::new(next)`): the reports it produces for measurement B - with the randomness it
/// samples for B - aggregate with the reports of fresh clients of B. (A generator that computes anything at
/// construction time reports B under A's randomness.)
fn run_generator_reuse(cx: &mut CaseCx, case: &Value) {
  use sta_rs::{AssociatedData, MessageGenerator, SingleMeasurement};
  use star_test_utils::AggregationServer;
  let t = case["t"].as_u64().unwrap() as u32;
  let epoch = "epoch";
  let measurements: Vec<Vec<u8>> = vec![b"first measurement (the generator is constructed with it)".to_vec(), b"second".to_vec(), vec![], prbytes(31, 200), b"second".to_vec(), b"first measurement (the generator is constructed with it)".to_vec()];
  let mut reused = MessageGenerator::new(SingleMeasurement::new(&measurements[0]), t, epoch.as_bytes());
  let mut msgs: Vec<Message> = vec![];
  let mut want: std::collections::BTreeMap<Vec<u8>, Vec<Option<Vec<u8>>>> = Default::default();
  let mut k = 0u32;
  for (round, m) in measurements.iter().enumerate() {
    if round > 0 {
      reused.x = SingleMeasurement::new(m);
    }
    cx.eval();
    // the randomness the reused generator samples for its CURRENT measurement is the fresh client's
    let mut r_reused = [0u8; 32];
    reused.sample_local_randomness(&mut r_reused);
    let r_fresh = local_randomness(m, epoch.as_bytes(), t);
    if r_reused != r_fresh {
      cx.viol("C01/generator-reuse/randomness-differs", format!("a MessageGenerator constructed for one measurement and then given another (mg.x = ...; use {} of the object) samples other local randomness for it than a fresh generator of that measurement: its reports do not meet the other clients' reports", round + 1), json!({"t": t, "use": round + 1, "measurement_len": m.len()}));
      return;
    }
    // sharing material through the other entry point
    let a = guard(|| reused.share_with_local_randomness().map(|w| (w.key, w.tag)).map_err(|e| e.to_string()));
    let fresh_mg = MessageGenerator::new(SingleMeasurement::new(m), t, epoch.as_bytes());
    let b = guard(|| fresh_mg.share_with_local_randomness().map(|w| (w.key, w.tag)).map_err(|e| e.to_string()));
    if a != b {
      cx.viol("C01/generator-reuse/sharing-material-differs", format!("share_with_local_randomness of a reused MessageGenerator (use {}) gives another key / tag than a fresh generator of the same measurement", round + 1), json!({"t": t, "use": round + 1}));
      return;
    }
    // one report from the reused generator, t-1 (first visit) or 1 (second visit) from fresh clients
    k += 1;
    getrandom::verif::set_group(k);
    let aux_r = Some(format!("reused generator, use {}", round + 1).into_bytes());
    match guard(|| Message::generate(&reused, &r_reused, aux_r.as_ref().map(|a| AssociatedData::new(a))).map_err(|e| e.to_string())) {
      Ok(Ok(msg)) => msgs.push(msg),
      other => {
        cx.viol("C01/generate-failed", format!("{:?}", other.err()), json!({"t": t}));
        return;
      }
    }
    want.entry(m.clone()).or_default().push(aux_r);
    let fresh_n = if round < 4 { t.saturating_sub(1) } else { 1 };
    for j in 0..fresh_n {
      k += 1;
      getrandom::verif::set_group(k);
      let aux = if j % 2 == 0 { Some(format!("fresh client {} of round {}", j, round).into_bytes()) } else { None };
      match gen_report(m, epoch.as_bytes(), t, &r_fresh, &aux) {
        Ok(msg) => msgs.push(msg),
        Err(e) => {
          cx.viol("C01/generate-failed", e, json!({"t": t}));
          return;
        }
      }
      want.entry(m.clone()).or_default().push(aux);
    }
  }
  let agg = AggregationServer::new(t, epoch);
  cx.count("states", 1);
  cx.count("transitions", 1);
  cx.nontrivial(0x6e00 + t as u64);
  for rev in [false, true] {
    let mut batch = msgs.clone();
    if rev {
      batch.reverse();
    }
    cx.eval();
    let out = match guard(|| agg.retrieve_outputs(&batch)) {
      Ok(o) => o,
      Err(p) => {
        cx.viol("C01/generator-reuse/server-panicked", format!("the reference aggregation side panics on a batch that contains reports of a reused MessageGenerator: {}", p.chars().take(160).collect::<String>()), json!({"t": t, "reversed": rev}));
        return;
      }
    };
    for (m, auxs) in &want {
      if auxs.len() < t as usize {
        continue;
      }
      let found: Vec<_> = out.iter().filter(|o| o.x.as_vec() == *m).collect();
      let mut w: Vec<Option<Vec<u8>>> = auxs.clone();
      w.sort();
      let mut got: Vec<Option<Vec<u8>>> = found.iter().flat_map(|o| o.aux.iter().map(|a| a.as_ref().map(|d| d.as_vec()).filter(|v| !v.is_empty()))).collect();
      got.sort();
      if found.len() != 1 || got != w {
        cx.viol("C01/generator-reuse/not-revealed", format!("a measurement reported by {} >= t = {} clients, one or two of them through a MessageGenerator object that had been used for another measurement before, is revealed {} times with {} of {} associated data", auxs.len(), t, found.len(), got.len(), w.len()), json!({"t": t, "reversed": rev, "measurement_len": m.len()}));
        return;
      }
      cx.count("reuse_groups_revealed", 1);
    }
  }
  cx.outcome(format!("generator reuse t={}", t));
}

/// Replayed reports inside a batch with SURPLUS reports: a bucket holds >= t distinct reports, but among its
/// first t entries some report occurs twice (delivered twice, adjacent or apart, or every early report doubled).
/// A key recovery that looks only at the first t entries of the bucket sees fewer than t distinct shares.
fn run_repeats_with_surplus(cx: &mut CaseCx, case: &Value) {
  use star_test_utils::AggregationServer;
  let t = case["t"].as_u64().unwrap() as usize;
  let epoch = "epoch";
  let meas = b"measurement reported with replays".to_vec();
  let rnd = local_randomness(&meas, epoch.as_bytes(), t as u32);
  let n = t + 3;
  let mut reps: Vec<(Message, Option<Vec<u8>>)> = vec![];
  for k in 0..n {
    getrandom::verif::set_group(k as u32 + 1);
    let aux = if k % 3 == 2 { None } else { Some(format!("client {}", k).into_bytes()) };
    match gen_report(&meas, epoch.as_bytes(), t as u32, &rnd, &aux) {
      Ok(m) => reps.push((m, aux)),
      Err(e) => {
        cx.viol("C01/generate-failed", e, json!({"t": t}));
        return;
      }
    }
  }
  // index sequences over the n distinct reports: every one contains >= t distinct reports
  let mut seqs: Vec<(String, Vec<usize>)> = vec![];
  for d in t..=n {
    let base: Vec<usize> = (0..d).collect();
    seqs.push((format!("{} distinct, the first delivered twice in a row", d), [vec![0], base.clone()].concat()));
    seqs.push((format!("{} distinct, the first delivered three times up front", d), [vec![0, 0], base.clone()].concat()));
    seqs.push((format!("{} distinct, every report delivered twice in a row", d), base.iter().flat_map(|&i| [i, i]).collect()));
    seqs.push((format!("{} distinct, the whole batch delivered twice", d), [base.clone(), base.clone()].concat()));
    seqs.push((format!("{} distinct, the second delivered again in third place", d), { let mut v = base.clone(); v.insert(2.min(v.len()), 1.min(d - 1)); v }));
    seqs.push((format!("{} distinct, the last delivered first as well", d), [vec![d - 1], base.clone()].concat()));
    seqs.push((format!("{} distinct, replays only at the end", d), [base.clone(), vec![0, 0, 1.min(d - 1)]].concat()));
  }
  let agg = AggregationServer::new(t as u32, epoch);
  for (how, seq) in &seqs {
    for rev in [false, true] {
      let mut order = seq.clone();
      if rev {
        order.reverse();
      }
      let batch: Vec<Message> = order.iter().map(|&i| reps[i].0.clone()).collect();
      cx.eval();
      cx.count("states", 1);
      cx.count("transitions", 1);
      cx.nontrivial(fnv_str(&format!("{}|{}|{}", t, how, rev)));
      let d = || json!({"t": t, "delivery": how, "reversed": rev, "order": order});
      let out = match guard(|| agg.retrieve_outputs(&batch)) {
        Ok(o) => o,
        Err(p) => {
          cx.viol("C01/replays-with-surplus/server-panicked", p.chars().take(200).collect::<String>(), d());
          return;
        }
      };
      let found: Vec<_> = out.iter().filter(|o| o.x.as_vec() == meas).collect();
      if found.len() != 1 || out.len() != 1 {
        cx.viol("C01/replays-with-surplus/not-revealed", format!("threshold {}: a batch with >= t distinct reports of one measurement ({}) reveals it {} times ({} outputs): replayed reports among the first entries of the bucket must not count against the distinct ones behind them", t, how, found.len(), out.len()), d());
        return;
      }
      let mut want: Vec<Option<Vec<u8>>> = order.iter().map(|&i| reps[i].1.clone()).collect();
      want.sort();
      let mut got: Vec<Option<Vec<u8>>> = found[0].aux.iter().map(|a| a.as_ref().map(|x| x.as_vec()).filter(|v| !v.is_empty())).collect();
      got.sort();
      let mut wd = want.clone();
      wd.dedup();
      let mut gd = got.clone();
      gd.dedup();
      if gd != wd {
        cx.viol("C01/replays-with-surplus/associated-data-wrong", format!("threshold {} ({}): the revealed measurement carries other associated data than its clients attached", t, how), d());
        return;
      }
      cx.count("replay_batches_revealed", 1);
    }
  }
  cx.outcome(format!("replays with surplus t={}", t));
}

/// boundary search on the tag: measurements whose tag has a 0x00 / 0xff first or last byte, aggregated by the
/// reference aggregation server (the "aggregation side" of the repository) - they must be revealed like any other
fn run_boundary_tags(cx: &mut CaseCx, case: &Value) {
  use star_test_utils::AggregationServer;
  let lo = case["lo"].as_u64().unwrap();
  let t = 2u32;
  let server = AggregationServer::new(t, "e");
  let mut hits = 0u64;
  for i in lo..lo + 400 {
    let meas = format!("tagged-measurement-{}", i).into_bytes();
    let rnd = local_randomness(&meas, b"e", t);
    let aux0 = Some(vec![1u8, 2, 3]);
    let m0 = match gen_report(&meas, b"e", t, &rnd, &aux0) {
      Ok(m) => m,
      Err(_) => continue,
    };
    cx.count("tags_examined", 1);
    let tag = &m0.tag;
    if tag.len() != 32 || !(tag[0] == 0 || tag[0] == 0xff || tag[31] == 0 || tag[31] == 0xff || tag[0] == 0x7f || tag[0] == 0x80) {
      continue;
    }
    hits += 1;
    let m1 = match gen_report(&meas, b"e", t, &rnd, &None) {
      Ok(m) => m,
      Err(_) => continue,
    };
    cx.eval();
    cx.count("states", 1);
    cx.count("transitions", 1);
    cx.nontrivial(fnv(&meas));
    let d = || json!({"measurement": String::from_utf8_lossy(&meas), "tag_first_byte": tag[0], "tag_last_byte": tag[31]});
    match guard(|| server.retrieve_outputs(&[m0.clone(), m1.clone()]).into_iter().map(|o| (o.x.as_vec(), o.aux.iter().map(|a| a.as_ref().map(|d| d.as_vec())).collect::<Vec<_>>())).collect::<Vec<_>>()) {
      Ok(outs) => {
        let mut auxs: Vec<Option<Vec<u8>>> = outs.get(0).map(|o| o.1.clone()).unwrap_or_default();
        auxs.sort();
        if outs.len() != 1 || outs[0].0 != meas || auxs != vec![None, Some(vec![1u8, 2, 3])] {
          cx.viol("C01/boundary-tag/not-revealed", format!("measurement {:?} (tag bytes {:#04x}..{:#04x}) was reported by t = 2 clients; the aggregation server revealed {} measurement(s){}", String::from_utf8_lossy(&meas), tag[0], tag[31], outs.len(), if outs.len() == 1 { " with wrong content" } else { "" }), d());
        } else {
          cx.count("ok_recoveries", 1);
        }
      }
      Err(p) => cx.viol("C01/boundary-tag/server-panicked", p, d()),
    }
  }
  cx.count("boundary_tags_found", hits);
}

/// boundary search on an internal value: measurements whose sharing key K has a zero / 0xff first or last byte
fn run_boundary_keys(cx: &mut CaseCx, case: &Value) {
  let t = case["t"].as_u64().unwrap() as u32;
  let lo = case["lo"].as_u64().unwrap();
  let mut hits = 0u64;
  for i in lo..lo + 250 {
    let cfgv = json!({"t": t, "m": 0, "e": 1});
    let _ = cfgv;
    let meas = format!("measurement-{}", i).into_bytes();
    let epoch = b"e".to_vec();
    let rnd = local_randomness(&meas, &epoch, t);
    let n = t as usize + 1;
    let mut msgs = vec![];
    for k in 0..n {
      getrandom::verif::set_group(k as u32 + 1);
      if let Ok(m) = gen_report(&meas, &epoch, t, &rnd, &None) {
        msgs.push(m);
      }
    }
    if msgs.len() != n {
      continue;
    }
    let xs: Vec<BigUint> = msgs.iter().filter_map(|m| share_x(&m.share.to_bytes())).collect();
    let g = Group { msgs, xs, auxs: vec![None; n], meas: meas.clone(), epoch: epoch.clone(), t };
    let k = match sharing_key(&g) {
      Some(k) => k,
      None => continue,
    };
    let special = k[15] == 0 || k[0] == 0 || k[15] == 0xff || k[0] == 0xff || k[8] == 0 || k.windows(2).any(|w| w == [0, 0]);
    cx.count("keys_examined", 1);
    if !special {
      continue;
    }
    hits += 1;
    cx.nontrivial(fnv(&meas) ^ t as u64);
    cx.outcome(format!("K[0]={:#04x}? K[15]={:#04x}?", if k[0] == 0 || k[0] == 0xff { k[0] } else { 1 }, if k[15] == 0 || k[15] == 0xff { k[15] } else { 1 }));
    // every t-subset (and the full set) must recover and open every report
    let mut sels: Vec<Vec<usize>> = vec![(0..n).collect()];
    for_each_subset(n, t as usize, |s| sels.push(s.to_vec()));
    for sel in sels {
      let shares: Vec<sta_rs::Share> = sel.iter().map(|&i| g.msgs[i].share.clone()).collect();
      cx.eval();
      cx.count("states", 1);
      cx.count("transitions", 1);
      match recover_msg(&shares) {
        Ok(Ok(m)) => {
          cx.count("ok_recoveries", 1);
          for msg in &g.msgs {
            if !matches!(open_report(msg, &m, &epoch), Ok((mm, None)) if mm == meas) {
              cx.viol("C01/boundary-key/decrypt-mismatch", "report does not open", json!({"measurement": String::from_utf8_lossy(&meas), "t": t, "sharing_key": hex(&k)}));
            }
          }
        }
        other => cx.viol("C01/boundary-key/recover-failed", format!("measurement {:?} (t={}) has sharing key {} (a zero/0xff boundary byte): {} distinct shares do not recover: {:?}", String::from_utf8_lossy(&meas), t, hex(&k), sel.len(), other.map(|r| r.map(|_| ()))), json!({"measurement": String::from_utf8_lossy(&meas), "t": t, "sharing_key": hex(&k), "sel": sel})),
      }
    }
  }
  cx.count("boundary_keys_found", hits);
  cx.sample(json!({"t": t, "measurements": format!("measurement-{}..{}", lo, lo + 250), "boundary_keys_found": hits}));
}

pub fn spec() -> PropSpec {
  PropSpec {
    id: "C01",
    level: "model_checking",
    assumptions: vec![
      "Strobe/Keccak are the trusted base; the oracle is end-to-end equality with the client inputs, no model of the cryptography",
      "thresholds beyond the listed ones and measurements longer than 4 KiB are not covered; for t >= 8 the selection family is structured (stated), not exhaustive",
      "entropy model: distinct OS requests receive independent answers unless the explorer scripts a deviation (zeros, forced rejection, replay of another client's bytes, crafted boundary points); deviation bound 1 (quick) / 2 (thorough)",
    ],
    thorough_budget_s: 1500,
    checks: vec![
      Check {
        name: "selections",
        rule: "for every configuration (t, measurement, epoch, aux assignment, randomness source local|PPOPRF server, wire round trip) generate n=t+2 reports and hand EVERY index sequence of length 1..n over the n reports to share_recover; non-trivial = a selection holding >= t distinct share points (must recover; first success per configuration decrypts every report and compares measurement and associated data with the client inputs, later ones must recover the same message)",
        gen: gen_main,
        run: run_cfg,
        min_counts: &[("ok_recoveries", 1000), ("below_threshold_selections", 100)],
      },
      Check {
        name: "large-thresholds",
        rule: "t in {8,64,..}: structured selection family (identity, reversal, rotations, duplicates inserted at several positions, every t-subset of n=t+2) - structured, not exhaustive",
        gen: gen_large,
        run: run_cfg,
        min_counts: &[("ok_recoveries", 10)],
      },
      Check {
        name: "entropy-deviations",
        rule: "deviation-bounded exploration of the share-point entropy: every client x {zeros, forced rejection, replay of each earlier client's bytes (collision), crafted points 1,2,p-1,2^64,2^128}, then every selection sequence as above; the oracle conditions on the OBSERVED number of distinct share points",
        gen: gen_env,
        run: run_cfg,
        min_counts: &[("ok_recoveries", 100), ("collisions_produced", 1)],
      },
      Check {
        name: "threshold-sequences",
        rule: "history on ONE thread with ONE 32-byte client randomness (fixed bytes / one PPOPRF output): every ordered sequence of 2 and 3 distinct thresholds from {1,2,3,5,6}; in each round t+1 clients report and EVERY t-subset must recover and open every report of that round (a sharing must not depend on what was shared before)",
        gen: |tier| {
          let ts = [1u64, 2, 3, 5, 6];
          let mut v = vec![];
          for &a in &ts {
            for &b in &ts {
              if a == b {
                continue;
              }
              for src in ["fixed", "server"] {
                v.push(json!({"ts": [a, b], "src": src, "m": 4}));
                if tier.thorough() || src == "fixed" {
                  for &c in &ts {
                    if c != a && c != b {
                      v.push(json!({"ts": [a, b, c], "src": src, "m": 1}));
                    }
                  }
                }
              }
            }
          }
          v
        },
        run: run_threshold_sequence,
        min_counts: &[("ok_recoveries", 200)],
      },
      Check {
        name: "threshold-sweep",
        rule: "EVERY threshold t in 1..=130 plus {191..194, 255..258} (thorough: + 511..515, 600): t+1 reports, selections = first t, all, all reversed, last t, first t reversed: recover and open (threshold-dependent arithmetic: windows, batches, binomials)",
        gen: |tier| {
          let mut ts: Vec<u64> = (1..=130).collect();
          ts.extend([191, 192, 193, 194, 255, 256, 257, 258]);
          if tier.thorough() {
            ts.extend([511, 512, 513, 514, 515, 600]);
          }
          ts.into_iter().map(|t| json!({"t": t})).collect()
        },
        run: run_threshold_sweep,
        min_counts: &[("ok_recoveries", 600)],
      },
      Check {
        name: "report-counts",
        rule: "the number n of matching reports in every relation to the threshold (t in {1,2,3,5,7}; thorough + 16, 33): EVERY n in t..=70, n = k*t-1, k*t, k*t+1 for k in {2,3,4,8,16}, t^2, t^2+1 and 127..129, 255..257, 256+t-1, 256+t, 511..513, 512+t-1: the first n, the last n reversed, n+1 without the middle one - recover, and the first / middle / last report of the selection open to their own clients' inputs",
        gen: |tier| {
          let mut ts = vec![1u64, 2, 3, 5, 7];
          if tier.thorough() {
            ts.extend([16, 33]);
          }
          ts.into_iter().map(|t| json!({"t": t, "nmax": 530})).collect()
        },
        run: run_report_counts,
        min_counts: &[("ok_recoveries", 1000)],
      },
      Check {
        name: "large-payloads",
        rule: "measurement / associated-data lengths (0|40|65535|65536|65537, 65535|65536|65537|2^20+1) (thorough: + 2^24-1, 2^24, 2^24+1 bytes of associated data): 3 reports (one without associated data, lengths alen, alen+2) through the wire form, 3 selections: every report opens to exactly its client's inputs",
        gen: |tier| {
          let mut v = vec![];
          for mlen in [0u64, 40, 65535, 65536, 65537] {
            for alen in [65535u64, 65536, 65537, (1 << 20) + 1] {
              if mlen >= 65535 && alen > 65537 {
                continue;
              }
              v.push(json!({"mlen": mlen, "alen": alen}));
            }
          }
          if tier.thorough() {
            for alen in [(1u64 << 24) - 1, 1 << 24, (1 << 24) + 1] {
              v.push(json!({"mlen": 40, "alen": alen}));
            }
          }
          v
        },
        run: run_large_payloads,
        min_counts: &[("large_opened", 100)],
      },
      Check {
        name: "randomness-values",
        rule: "client randomness given as a VALUE (all zero, all 0xff, repeated byte, single top / bottom bit, low / high half zero, the tag of an earlier report, the measurement's own bytes) for t in {1,2,3,5}: t+1 reports with all associated-data shapes, first t and last t reversed: recover, every report opens to its client's inputs",
        gen: |_| [1u64, 2, 3, 5].iter().map(|t| json!({"t": t})).collect(),
        run: run_randomness_values,
        min_counts: &[("ok_recoveries", 60)],
      },
      Check {
        name: "aggregation-at-scale",
        rule: "the repository's reference aggregation side over ONE batch of 1100 / 2100 / 4200 reports (t in {2,3}): mostly single-report fillers, plus groups whose matching reports lie far apart - first and last position, one per 1024-report block, positions 1023.., every 1000th - and a far-apart group below threshold: each group revealed exactly once with exactly its clients' associated data, nothing below threshold",
        gen: |_| {
          let mut v = vec![];
          for t in [2u64, 3] {
            for total in [1100u64, 2100, 4200] {
              v.push(json!({"t": t, "total": total}));
            }
          }
          v
        },
        run: run_aggregation_scale,
        min_counts: &[("far_apart_groups_revealed", 20)],
      },
      Check {
        name: "cross-process",
        rule: "reports produced by a fresh client process (encoded to bytes) are aggregated by three fresh server processes whose first operations are decoding and recovery (three consumer orders): the measurement is revealed with both clients' associated data",
        gen: |_| vec![json!({})],
        run: |cx, _| crate::probe::cross_process_check(cx, "C01", "revealed"),
        min_counts: &[("cross_process_ok", 3)],
      },
      Check {
        name: "server-history",
        rule: "randomness from the randomness server while it lives on: between the requests of the clients of one measurement the server punctures OTHER tags (8 orders such as 0 then 2, 64 then 0 then 128, 7,5,3,1; through clones), for the clients' tag in {6, 130, 9, 192} and t in {2,3}: all clients obtain the same randomness, and the last t reports recover and open every report",
        gen: |_| {
          let mut v = vec![];
          for t in [2u64, 3] {
            for o in 0..8u64 {
              v.push(json!({"t": t, "order": o}));
            }
          }
          v
        },
        run: run_server_history,
        min_counts: &[("ok_recoveries", 50)],
      },
      Check {
        name: "aggregation-sources",
        rule: "the reference aggregation side over one batch of three groups (t in {1,2,3}; t+1 clients each) whose shared randomness is locally derived / obtained from the randomness server / a fixed 32-byte value, every client with different associated data of 600, 170 or 0 bytes (several cipher blocks): every group revealed once with exactly its clients' associated data",
        gen: |_| [1u64, 2, 3].iter().map(|t| json!({"t": t})).collect(),
        run: run_aggregation_sources,
        min_counts: &[("source_groups_revealed", 9)],
      },
      Check {
        name: "generator-reuse",
        rule: "ONE MessageGenerator object (t in {1,2,3,5}) taken through 6 measurements in a row by assigning its public field x (A, B, empty, 200 bytes, B again, A again): at every use its sampled local randomness and its share_with_local_randomness key / tag equal a fresh generator's, and its report joins t-1 (later visits: 1) reports of fresh clients: the reference aggregation side (forwards / reversed) reveals every measurement with >= t reports once, with all associated data",
        gen: |_| [1u64, 2, 3, 5].iter().map(|t| json!({"t": t})).collect(),
        run: run_generator_reuse,
        min_counts: &[("reuse_groups_revealed", 24)],
      },
      Check {
        name: "replays-with-surplus",
        rule: "the reference aggregation side, t in {2,3,5}: t+3 distinct reports of one measurement; for d = t..t+3 distinct reports 7 delivery sequences with REPLAYS placed among the first entries of the bucket (first report twice / three times up front, every report twice in a row, whole batch twice, second again in third place, last also first) and, as control, replays only at the end; forwards and reversed: the measurement is revealed exactly once with its clients' associated data",
        gen: |_| [2u64, 3, 5].iter().map(|t| json!({"t": t})).collect(),
        run: run_repeats_with_surplus,
        min_counts: &[("replay_batches_revealed", 150)],
      },
      Check {
        name: "boundary-tags",
        rule: "boundary search on the report tag: among 2000 (thorough 8000) measurements those whose tag starts or ends with 0x00 / 0xff or starts with 0x7f / 0x80, each reported by exactly t = 2 clients and aggregated by the repository's reference aggregation server: revealed once, with both clients' associated data",
        gen: |tier| (0..(if tier.thorough() { 20u64 } else { 5 })).map(|c| json!({"lo": c * 400})).collect(),
        run: run_boundary_tags,
        min_counts: &[("boundary_tags_found", 20)],
      },
      Check {
        name: "boundary-keys",
        rule: "boundary search on an internal value: among measurements 'measurement-<i>' (quick 1000, thorough 6000 per threshold 1..3) those whose sharing key K (reference interpolation) has a 0x00/0xff first, middle or last byte or a 00 00 pair; for each, every t-subset and the full set must recover and open every report",
        gen: |tier| {
          let mut v = vec![];
          for t in 1..=3u64 {
            for c in 0..(if tier.thorough() { 24u64 } else { 4 }) {
              v.push(json!({"t": t, "lo": c * 250}));
            }
          }
          v
        },
        run: run_boundary_keys,
        min_counts: &[("boundary_keys_found", 20)],
      },
    ],
  }
}
