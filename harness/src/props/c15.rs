//! C15 — PPOPRF public keys, proofs, points and evaluations survive serialisation.
use crate::mc::*;
use ppoprf::ppoprf as pp;
use serde_json::{json, Value};

fn run_pk_sizes(cx: &mut CaseCx, case: &Value) {
  let lo = case["lo"].as_u64().unwrap() as usize;
  let hi = case["hi"].as_u64().unwrap() as usize;
  for n in lo..=hi {
    let tags: Vec<u8> = match n {
      257 => vec![255],
      258 => vec![0, 255],
      259 => vec![255, 254, 3, 3, 0],
      _ => (0..n).map(|t| t as u8).collect(),
    };
    cx.entropy(500 + n as u64);
    let server = match guard(|| pp::Server::new(tags.clone())) {
      Ok(Ok(s)) => s,
      _ => {
        cx.viol("C15/server-new-failed", format!("Server::new with {} tags failed", tags.len()), json!({"tags": n}));
        continue;
      }
    };
    let pk = server.get_public_key();
    cx.eval();
    cx.nontrivial(n as u64);
    let d = || json!({"tag_set_size": tags.len(), "tags_first": tags.iter().take(4).collect::<Vec<_>>()});
    let b = match guard(|| pk.serialize_to_bincode()) {
      Ok(Ok(b)) => b,
      other => {
        cx.viol("C15/pk-serialize-failed", format!("{:?}", other.map(|r| r.map(|b| b.len()).map_err(|e| e.to_string()))), d());
        continue;
      }
    };
    match guard(|| pp::ServerPublicKey::load_from_bincode(&b)) {
      Ok(Ok(pk2)) => {
        if pk2 != pk {
          cx.viol("C15/pk-roundtrip-differs", "a public key restored from its binary form differs from the original", d());
        }
        if pk2.serialize_to_bincode().ok().as_ref() != Some(&b) {
          cx.viol("C15/pk-reserialize-differs", "serialize(load(b)) != b for a public key", d());
        }
        // interchangeable in verification
        if let Some(&md) = tags.first() {
          let (blinded, _) = pp::Client::blind(b"x");
          if let Ok(ev) = server.eval(&blinded, md, true) {
            let a = guard(|| pp::Client::verify(&pk, &blinded, &ev, md));
            let c = guard(|| pp::Client::verify(&pk2, &blinded, &ev, md));
            if a != Ok(true) || c != Ok(true) {
              cx.viol("C15/pk-not-interchangeable", format!("honest proof: original key verifies {:?}, restored key verifies {:?}", a, c), d());
            }
            // and both reject the wrong-tag cell alike
            let wrong = md.wrapping_add(1);
            let a = guard(|| pp::Client::verify(&pk, &blinded, &ev, wrong));
            let c = guard(|| pp::Client::verify(&pk2, &blinded, &ev, wrong));
            if a != Ok(false) || c != Ok(false) {
              cx.viol("C15/pk-not-interchangeable", format!("wrong-tag proof: original key verifies {:?}, restored key verifies {:?}", a, c), d());
            }
            cx.count("interchange_checks", 1);
          }
        }
        cx.count("pk_roundtrips", 1);
      }
      other => cx.viol("C15/pk-load-failed", format!("a serialised public key with {} tags ({} bytes) does not load: {:?}", tags.len(), b.len(), other.map(|r| r.map(|_| ()).map_err(|e| e.to_string()))), d()),
    }
  }
  cx.outcome("pk sizes");
  cx.sample(json!({"tag_set_sizes": [lo, hi]}));
}

fn run_proofs_json(cx: &mut CaseCx, _case: &Value) {
  cx.entropy(600);
  let server = pp::Server::new(vec![0, 1, 7, 255]).expect("server");
  let pk = server.get_public_key();
  for (ii, input) in super::c12::inputs().iter().enumerate().take(10) {
    for md in [0u8, 7, 255] {
      for verifiable in [true, false] {
        let (blinded, _) = pp::Client::blind(input);
        let ev = match server.eval(&blinded, md, verifiable) {
          Ok(e) => e,
          Err(_) => continue,
        };
        cx.eval();
        cx.nontrivial(fnv_str(&format!("{}|{}|{}", ii, md, verifiable)));
        let d = || json!({"input_index": ii, "tag": md, "verifiable": verifiable});
        // proof: binary form
        if let Some(p) = &ev.proof {
          match p.serialize_to_bincode() {
            Ok(b) => {
              if b.len() != 64 {
                cx.viol("C15/proof-layout", format!("proof encodes to {} bytes, documented c || s is 64", b.len()), d());
              }
              match guard(|| pp::ProofDLEQ::load_from_bincode(&b)) {
                Ok(Ok(p2)) => {
                  if p2.serialize_to_bincode().ok().as_ref() != Some(&b) {
                    cx.viol("C15/proof-roundtrip-differs", "serialize(load(b)) != b for a proof", d());
                  }
                  let ev2 = pp::Evaluation { output: pp::Point::from(&ev.output.as_bytes()[..]), proof: Some(p2) };
                  if guard(|| pp::Client::verify(&pk, &blinded, &ev2, md)) != Ok(true) {
                    cx.viol("C15/proof-not-interchangeable", "a proof restored from its binary form does not verify", d());
                  }
                  cx.count("proof_roundtrips", 1);
                }
                other => cx.viol("C15/proof-load-failed", format!("{:?}", other.map(|r| r.map(|_| ()).map_err(|e| e.to_string()))), d()),
              }
            }
            Err(e) => cx.viol("C15/proof-serialize-failed", e.to_string(), d()),
          }
        }
        // evaluation and point: JSON form
        match serde_json::to_string(&ev) {
          Ok(js) => match serde_json::from_str::<pp::Evaluation>(&js) {
            Ok(ev2) => {
              if ev2.output != ev.output || ev2.proof.is_some() != ev.proof.is_some() {
                cx.viol("C15/evaluation-json-differs", "an evaluation restored from JSON differs from the original", d());
              }
              if serde_json::to_string(&ev2).ok().as_ref() != Some(&js) {
                cx.viol("C15/evaluation-json-differs", "to_json(from_json(s)) != s for an evaluation", d());
              }
              if verifiable && guard(|| pp::Client::verify(&pk, &blinded, &ev2, md)) != Ok(true) {
                cx.viol("C15/evaluation-not-interchangeable", "an evaluation restored from JSON does not verify", d());
              }
              // interchangeable for the client: unblinding the restored output gives the same point
              cx.count("evaluation_json_roundtrips", 1);
            }
            Err(e) => cx.viol("C15/evaluation-json-load-failed", e.to_string(), json!({"json": js})),
          },
          Err(e) => cx.viol("C15/evaluation-json-failed", e.to_string(), d()),
        }
        match serde_json::to_string(&blinded) {
          Ok(js) => match serde_json::from_str::<pp::Point>(&js) {
            Ok(p2) => {
              if p2 != blinded {
                cx.viol("C15/point-json-differs", "a point restored from JSON differs from the original", d());
              }
              if verifiable && guard(|| pp::Client::verify(&pk, &p2, &ev, md)) != Ok(true) {
                cx.viol("C15/point-not-interchangeable", "a request point restored from JSON is not interchangeable in verification", d());
              }
              // the server answers the restored request identically
              if server.eval(&p2, md, false).ok().map(|e| *e.output.as_bytes()) != Some(*ev.output.as_bytes()) {
                cx.viol("C15/point-not-interchangeable", "the server answers a request restored from JSON differently", d());
              }
              cx.count("point_json_roundtrips", 1);
            }
            Err(e) => cx.viol("C15/point-json-load-failed", e.to_string(), json!({"json": js})),
          },
          Err(e) => cx.viol("C15/point-json-failed", e.to_string(), d()),
        }
      }
    }
  }
  cx.outcome("proofs and json");
}


/// JSON forms that do not decode must yield an error, never a partially initialised value (and never a panic)
fn run_json_malformed(cx: &mut CaseCx, _case: &Value) {
  use base64::{engine::Engine as _, prelude::{BASE64_STANDARD, BASE64_STANDARD_NO_PAD, BASE64_URL_SAFE}};
  cx.entropy(650);
  let server = pp::Server::new(vec![1]).expect("server");
  let (blinded, _) = pp::Client::blind(b"x");
  let ev = server.eval(&blinded, 1, true).expect("eval");
  let good: Value = serde_json::to_value(&ev).expect("json");
  let out = *ev.output.as_bytes();
  let mut cands: Vec<(String, String, bool)> = vec![]; // (description, output string, is exactly the 32 valid bytes in standard padded base64)
  for n in 0..=40usize {
    let bytes: Vec<u8> = if n <= 32 { out[..n].to_vec() } else { [&out[..], &vec![0x41u8; n - 32][..]].concat() };
    cands.push((format!("{} bytes, standard padded", n), BASE64_STANDARD.encode(&bytes), n == 32));
    cands.push((format!("{} bytes, unpadded", n), BASE64_STANDARD_NO_PAD.encode(&bytes), false));
    cands.push((format!("{} bytes, url-safe", n), BASE64_URL_SAFE.encode(&bytes), false));
  }
  let std32 = BASE64_STANDARD.encode(out);
  for k in 0..=std32.len() {
    cands.push((format!("first {} characters of the valid string", k), std32[..k].to_string(), k == std32.len()));
  }
  cands.push(("not base64".into(), "!!!!".into(), false));
  cands.push(("44 characters without padding (33 bytes)".into(), BASE64_STANDARD_NO_PAD.encode([7u8; 33]), false));
  cands.push(("valid with trailing newline".into(), format!("{}\n", std32), false));
  for (desc, outstr, is_valid_form) in cands {
    // a url-safe / unpadded rendering can coincide with the standard one
    let same_as_std = outstr == std32;
    let mut v = good.clone();
    v["output"] = Value::String(outstr.clone());
    let js = v.to_string();
    cx.eval();
    cx.nontrivial(fnv_str(&js));
    match guard(|| serde_json::from_str::<pp::Evaluation>(&js).map(|e| *e.output.as_bytes())) {
      Err(p) => cx.viol("C15/json-load-panicked", format!("restoring an Evaluation from JSON panicked ({}): {}", desc, p.chars().take(120).collect::<String>()), json!({"output_field": outstr, "how": desc})),
      Ok(Ok(bytes)) => {
        if is_valid_form || same_as_std {
          if bytes != out {
            cx.viol("C15/evaluation-json-differs", "valid JSON restores to a different point", json!({"how": desc}));
          }
          cx.count("json_accepted", 1);
        } else {
          cx.viol("C15/json-partial-value-accepted", format!("an Evaluation whose output field does not decode to exactly 32 bytes ({}) was restored instead of refused: output = {}", desc, hex(&bytes)), json!({"output_field": outstr, "how": desc, "restored_output": hex(&bytes)}));
        }
      }
      Ok(Err(_)) => {
        if is_valid_form || same_as_std {
          cx.viol("C15/evaluation-json-load-failed", format!("the valid form was refused ({})", desc), json!({"how": desc}));
        }
        cx.count("json_refused", 1);
      }
    }
    // the bare Point form (array of 32 numbers) with wrong lengths
  }
  for n in [0usize, 1, 31, 33, 64] {
    let arr: Vec<u8> = (0..n).map(|i| out[i % 32]).collect();
    let js = serde_json::to_string(&arr).unwrap();
    cx.eval();
    match guard(|| serde_json::from_str::<pp::Point>(&js).map(|_| ())) {
      Err(p) => cx.viol("C15/json-load-panicked", format!("restoring a Point from JSON panicked: {}", p), json!({"json": js})),
      Ok(Ok(())) => cx.viol("C15/json-partial-value-accepted", format!("a Point of {} bytes was restored from JSON", n), json!({"len": n})),
      Ok(Err(_)) => cx.count("json_refused", 1),
    }
  }
  cx.outcome("malformed JSON");
  cx.sample(json!({"valid_json": good.to_string().chars().take(100).collect::<String>()}));
}



/// every structural single mutation of a JSON document: a member deleted, a value replaced by null / "" /
/// [] / {} / 0 / false / a string, an array shortened at either end, emptied or extended
fn struct_mutants(root: &Value) -> Vec<(String, Value)> {
  fn rec(root: &Value, cur: &Value, ptr: &mut Vec<String>, out: &mut Vec<(String, Value)>) {
    let pointer = |ptr: &Vec<String>| format!("/{}", ptr.join("/"));
    let set = |ptr: &Vec<String>, nv: Option<Value>| -> Value {
      let mut r = root.clone();
      let (last, parents) = ptr.split_last().unwrap();
      let mut at = &mut r;
      for k in parents {
        at = if at.is_array() { &mut at[k.parse::<usize>().unwrap()] } else { &mut at[k.as_str()] };
      }
      match nv {
        Some(x) => {
          if at.is_array() {
            at[last.parse::<usize>().unwrap()] = x;
          } else {
            at[last.as_str()] = x;
          }
        }
        None => {
          if let Some(a) = at.as_array_mut() {
            a.remove(last.parse::<usize>().unwrap());
          } else if let Some(o) = at.as_object_mut() {
            o.remove(last.as_str());
          }
        }
      }
      r
    };
    if !ptr.is_empty() {
      out.push((format!("{} deleted", pointer(ptr)), set(ptr, None)));
      for (name, nv) in [("null", Value::Null), ("\"\"", json!("")), ("[]", json!([])), ("{}", json!({})), ("0", json!(0)), ("false", json!(false)), ("\"AAAA\"", json!("AAAA")), ("[0]", json!([0])), ("256", json!(256)), ("-1", json!(-1)), ("1.5", json!(1.5))] {
        if &nv != cur {
          out.push((format!("{} replaced by {}", pointer(ptr), name), set(ptr, Some(nv))));
        }
      }
    }
    match cur {
      Value::Object(o) => {
        for (k, child) in o {
          ptr.push(k.clone());
          rec(root, child, ptr, out);
          ptr.pop();
        }
      }
      Value::Array(a) => {
        if !ptr.is_empty() {
          let mut longer = a.clone();
          longer.push(a.last().cloned().unwrap_or(json!(0)));
          out.push((format!("{} extended by one element", pointer(ptr)), set(ptr, Some(Value::Array(longer)))));
          if a.len() > 1 {
            out.push((format!("{} without its first element", pointer(ptr)), set(ptr, Some(Value::Array(a[1..].to_vec())))));
          }
        }
        // single elements: only the first, the last and one in the middle (the interior of a byte array is uniform)
        let n = a.len();
        let mut idx = vec![0usize, n / 2, n.saturating_sub(1)];
        idx.dedup();
        for i in idx {
          if i < n {
            ptr.push(i.to_string());
            rec(root, &a[i], ptr, out);
            ptr.pop();
          }
        }
      }
      _ => {}
    }
  }
  let mut out = vec![];
  rec(root, root, &mut vec![], &mut out);
  out
}
/// JSON with null members removed (an absent optional member and an explicit null are the same document)
fn strip_nulls(v: &Value) -> Value {
  match v {
    Value::Object(o) => Value::Object(o.iter().filter(|(_, x)| !x.is_null()).map(|(k, x)| (k.clone(), strip_nulls(x))).collect()),
    Value::Array(a) => Value::Array(a.iter().map(strip_nulls).collect()),
    x => x.clone(),
  }
}

/// nothing is invented on the way in: whatever JSON restores to a value, the value re-serialises to that JSON
fn run_json_structure(cx: &mut CaseCx, _case: &Value) {
  cx.entropy(655);
  let server = pp::Server::new(vec![1, 2]).expect("server");
  let (blinded, _) = pp::Client::blind(b"json structure");
  let with_proof = server.eval(&blinded, 1, true).expect("eval");
  let without = server.eval(&blinded, 2, false).expect("eval");
  // Evaluation (with and without proof), the bare proof, the bare point
  let docs: Vec<(&str, Value)> = vec![
    ("Evaluation with proof", serde_json::to_value(&with_proof).expect("json")),
    ("Evaluation without proof", serde_json::to_value(&without).expect("json")),
    ("ProofDLEQ", serde_json::to_value(with_proof.proof.as_ref().expect("proof")).expect("json")),
    ("Point", serde_json::to_value(&blinded).expect("json")),
  ];
  for (kind, doc) in docs {
    // the untouched document restores and re-serialises to itself
    let restore = |v: &Value| -> Result<Result<Value, String>, String> {
      let js = v.to_string();
      guard(|| match kind {
        "ProofDLEQ" => serde_json::from_str::<pp::ProofDLEQ>(&js).map_err(|e| e.to_string()).and_then(|x| serde_json::to_value(&x).map_err(|e| e.to_string())),
        "Point" => serde_json::from_str::<pp::Point>(&js).map_err(|e| e.to_string()).and_then(|x| serde_json::to_value(&x).map_err(|e| e.to_string())),
        _ => serde_json::from_str::<pp::Evaluation>(&js).map_err(|e| e.to_string()).and_then(|x| serde_json::to_value(&x).map_err(|e| e.to_string())),
      })
    };
    cx.eval();
    match restore(&doc) {
      Ok(Ok(back)) if strip_nulls(&back) == strip_nulls(&doc) => cx.count("json_accepted", 1),
      other => {
        cx.viol("C15/evaluation-json-load-failed", format!("the JSON form of an honest {} does not restore to itself: {:?}", kind, other.map(|r| r.map(|v| v.to_string().chars().take(80).collect::<String>()))), json!({"kind": kind}));
        continue;
      }
    }
    for (how, m) in struct_mutants(&doc) {
      cx.eval();
      cx.nontrivial(fnv_str(&format!("{}|{}", kind, how)));
      match restore(&m) {
        Err(p) => cx.viol("C15/json-load-panicked", format!("restoring a {} from JSON panicked ({}): {}", kind, how, p.chars().take(120).collect::<String>()), json!({"kind": kind, "mutation": how})),
        Ok(Err(_)) => cx.count("json_refused", 1),
        Ok(Ok(back)) => {
          if strip_nulls(&back) == strip_nulls(&m) {
            // a different but complete document (e.g. the proof dropped as a whole): nothing was invented
            cx.count("json_accepted_as_given", 1);
          } else {
            cx.viol(
              "C15/json-partial-value-accepted/structure",
              format!("a {} JSON document with {} was restored instead of refused, and the restored value holds data the document does not contain (it re-serialises differently): a partially initialised value", kind, how),
              json!({"kind": kind, "mutation": how, "document": m.to_string().chars().take(300).collect::<String>(), "restored_as": back.to_string().chars().take(300).collect::<String>()}),
            );
            return;
          }
        }
      }
    }
  }
  cx.outcome("json structure");
}


/// "restored values are EQUAL to the originals" also for values that are legal to carry but are not group
/// elements: points whose 32 bytes do not decode, evaluations holding them, public keys whose tag point does
/// not decode. Equality is the type's own `==` (and byte equality), through JSON and bincode.
fn run_undecodable_values(cx: &mut CaseCx, _case: &Value) {
  cx.entropy(640);
  let server = pp::Server::new(vec![1, 200]).expect("server");
  let (blinded, _) = pp::Client::blind(b"undecodable");
  let good = *blinded.as_bytes();
  let mut odd = good;
  odd[0] |= 1; // a canonical encoding has an even low byte: this one does not decode
  let mut hi = good;
  hi[31] |= 0x80;
  let pts: Vec<(&str, [u8; 32])> = vec![("a client request", good), ("the neutral element", [0u8; 32]), ("0xff repeated", [0xff; 32]), ("a valid encoding with the low bit set", odd), ("a valid encoding with the top bit set", hi), ("0x01 then zeros", { let mut b = [0u8; 32]; b[0] = 1; b })];
  for (name, b) in &pts {
    let p = pp::Point::from(&b[..]);
    cx.eval();
    cx.nontrivial(fnv(b));
    let d = || json!({"point": name, "bytes": hex(b)});
    // reflexive, and equal to a second value built from the same bytes
    if !(p == p.clone()) || !(p == pp::Point::from(&b[..])) {
      cx.viol("C15/point-not-equal-to-itself", format!("a Point holding {} does not compare equal to a Point with the same 32 bytes", name), d());
      return;
    }
    // JSON
    match guard(|| serde_json::to_string(&p).ok().and_then(|js| serde_json::from_str::<pp::Point>(&js).ok())) {
      Ok(Some(p2)) => {
        if p2.as_bytes() != b || !(p2 == p) {
          cx.viol("C15/point-json-differs", format!("a Point holding {} restored from its JSON form is not equal to the original ({})", name, if p2.as_bytes() == b { "same bytes, == says different" } else { "different bytes" }), d());
          return;
        }
        cx.count("points_restored_equal", 1);
      }
      other => {
        cx.viol("C15/point-json-load-failed", format!("a Point holding {} does not survive its JSON form: {:?}", name, other.map(|o| o.is_some())), d());
        return;
      }
    }
    // inside an Evaluation (no proof), JSON
    let ev = pp::Evaluation { output: p.clone(), proof: None };
    match guard(|| serde_json::to_string(&ev).ok().and_then(|js| serde_json::from_str::<pp::Evaluation>(&js).ok())) {
      Ok(Some(ev2)) => {
        if !(ev2.output == ev.output) || ev2.output.as_bytes() != b {
          cx.viol("C15/evaluation-json-differs", format!("an Evaluation whose output is {} restored from JSON differs from the original", name), d());
          return;
        }
      }
      other => {
        cx.viol("C15/evaluation-json-load-failed", format!("an Evaluation whose output is {} does not survive JSON: {:?}", name, other.map(|o| o.is_some())), d());
        return;
      }
    }
    // inside a public key: the tag point of tag 200 replaced in the binary form, loaded twice
    if let Ok(mut pkb) = server.get_public_key().serialize_to_bincode() {
      if let Some(at) = super::c13::tag_slot(&pkb, 200) {
        pkb[at..at + 32].copy_from_slice(b);
        match (guard(|| pp::ServerPublicKey::load_from_bincode(&pkb)), guard(|| pp::ServerPublicKey::load_from_bincode(&pkb))) {
          (Ok(Ok(k1)), Ok(Ok(k2))) => {
            cx.eval();
            if !(k1 == k2) {
              cx.viol("C15/pk-roundtrip-differs", format!("two public keys loaded from the same bytes (tag point = {}) do not compare equal", name), d());
              return;
            }
            match k1.serialize_to_bincode().ok().and_then(|b2| pp::ServerPublicKey::load_from_bincode(&b2).ok().map(|k3| (b2, k3))) {
              Some((b2, k3)) => {
                if b2 != pkb || !(k3 == k1) {
                  cx.viol("C15/pk-roundtrip-differs", format!("a public key whose tag point is {} restored from its binary form differs from the original", name), d());
                  return;
                }
                cx.count("keys_restored_equal", 1);
              }
              None => {
                cx.viol("C15/pk-serialize-failed", format!("a loaded public key whose tag point is {} does not serialise and load again", name), d());
                return;
              }
            }
          }
          (Ok(Err(_)), Ok(Err(_))) => cx.count("keys_refused_at_load", 1),
          other => {
            cx.viol("C15/pk-load-not-deterministic", format!("{:?}", (other.0.map(|r| r.is_ok()), other.1.map(|r| r.is_ok()))), d());
            return;
          }
        }
      }
    }
  }
  cx.outcome("undecodable values survive");
}


/// JSON arrives through more doors than `from_str`: a reader, a byte slice, an already parsed `Value`, text in
/// which `/` is written `\/` or characters as \u escapes, pretty-printed text - the restored value is the same
fn run_json_doors(cx: &mut CaseCx, _case: &Value) {
  cx.entropy(645);
  let server = pp::Server::new(vec![1, 2]).expect("server");
  // several requests so that the base64 text contains '/' and '+' somewhere
  for i in 0..24u32 {
    let (blinded, _) = pp::Client::blind(format!("json doors {}", i).as_bytes());
    let ev = match server.eval(&blinded, 1, i % 2 == 0) {
      Ok(e) => e,
      Err(_) => continue,
    };
    let text = serde_json::to_string(&ev).expect("json");
    let ptext = serde_json::to_string(&blinded).expect("json");
    let want_out = *ev.output.as_bytes();
    let want_pt = *blinded.as_bytes();
    cx.nontrivial(i as u64);
    let mut forms: Vec<(&str, String)> = vec![("as written", text.clone()), ("pretty-printed", serde_json::to_string_pretty(&ev).expect("json")), ("with '/' written as '\\/'", text.replace('/', "\\/")), ("with '=' written as \\u003d", text.replace('=', "\\u003d"))];
    forms.dedup_by(|a, b| a.1 == b.1);
    for (fname, f) in &forms {
      let doors: Vec<(&str, Result<Result<pp::Evaluation, String>, String>)> = vec![
        ("from_str", guard(|| serde_json::from_str::<pp::Evaluation>(f).map_err(|e| e.to_string()))),
        ("from_slice", guard(|| serde_json::from_slice::<pp::Evaluation>(f.as_bytes()).map_err(|e| e.to_string()))),
        ("from_reader", guard(|| serde_json::from_reader::<_, pp::Evaluation>(std::io::Cursor::new(f.as_bytes().to_vec())).map_err(|e| e.to_string()))),
        ("from_value", guard(|| serde_json::from_str::<Value>(f).map_err(|e| e.to_string()).and_then(|v| serde_json::from_value::<pp::Evaluation>(v).map_err(|e| e.to_string())))),
      ];
      for (door, r) in doors {
        cx.eval();
        match r {
          Ok(Ok(e2)) if *e2.output.as_bytes() == want_out && e2.proof.is_some() == ev.proof.is_some() => cx.count("json_doors_ok", 1),
          other => {
            cx.viol("C15/evaluation-json-load-failed/door", format!("an Evaluation's own JSON ({}) does not restore through serde_json::{}: {:?}", fname, door, other.map(|r| r.map(|_| "a different value").map_err(|e| e.chars().take(100).collect::<String>()))), json!({"form": fname, "door": door}));
            return;
          }
        }
      }
    }
    let pforms: Vec<(&str, String)> = vec![("as written", ptext.clone()), ("with '/' written as '\\/'", ptext.replace('/', "\\/")), ("pretty-printed", serde_json::to_string_pretty(&blinded).expect("json"))];
    for (fname, f) in &pforms {
      let doors: Vec<(&str, Result<Result<pp::Point, String>, String>)> = vec![
        ("from_str", guard(|| serde_json::from_str::<pp::Point>(f).map_err(|e| e.to_string()))),
        ("from_reader", guard(|| serde_json::from_reader::<_, pp::Point>(std::io::Cursor::new(f.as_bytes().to_vec())).map_err(|e| e.to_string()))),
        ("from_value", guard(|| serde_json::from_str::<Value>(f).map_err(|e| e.to_string()).and_then(|v| serde_json::from_value::<pp::Point>(v).map_err(|e| e.to_string())))),
      ];
      for (door, r) in doors {
        cx.eval();
        match r {
          Ok(Ok(p2)) if *p2.as_bytes() == want_pt => cx.count("json_doors_ok", 1),
          other => {
            cx.viol("C15/point-json-load-failed/door", format!("a Point's own JSON ({}) does not restore through serde_json::{}: {:?}", fname, door, other.map(|r| r.map(|_| "a different value").map_err(|e| e.chars().take(100).collect::<String>()))), json!({"form": fname, "door": door}));
            return;
          }
        }
      }
    }
  }
  cx.outcome("json doors");
}

/// proof scalars at the group-order boundary; every write-failure point of the JSON serialisation
fn run_boundaries(cx: &mut CaseCx, _case: &Value) {
  use curve25519_dalek::scalar::Scalar;
  cx.entropy(660);
  let server = pp::Server::new(vec![1, 2]).expect("server");
  let (blinded, _) = pp::Client::blind(b"x");
  let ev = server.eval(&blinded, 1, true).expect("eval");
  let prb = ev.proof.as_ref().unwrap().serialize_to_bincode().unwrap();
  // l = 2^252 + 27742317777372353535851937790883648493, little endian
  let lm1 = (Scalar::ZERO - Scalar::ONE).to_bytes();
  let mut l = lm1;
  l[0] = l[0].wrapping_add(1); // l-1 ends in ...ec, no carry
  let mut lp1 = l;
  lp1[0] = lp1[0].wrapping_add(1);
  let cands: Vec<(&str, [u8; 32], bool)> = vec![("0", [0u8; 32], true), ("1", { let mut b = [0u8; 32]; b[0] = 1; b }, true), ("l-1", lm1, true), ("l (the group order)", l, false), ("l+1", lp1, false), ("2^255-1", { let mut b = [0xffu8; 32]; b[31] = 0x7f; b }, false), ("2^256-1", [0xffu8; 32], false), ("2^252", { let mut b = [0u8; 32]; b[31] = 0x10; b }, true), ("2^253", { let mut b = [0u8; 32]; b[31] = 0x20; b }, false)];
  for which in ["c", "s"] {
    for (name, val, canonical) in &cands {
      let mut b = prb.clone();
      let at = if which == "c" { 0 } else { 32 };
      b[at..at + 32].copy_from_slice(val);
      cx.eval();
      cx.nontrivial(fnv(&b));
      match guard(|| pp::ProofDLEQ::load_from_bincode(&b).map(|p| p.serialize_to_bincode().ok())) {
        Err(p) => cx.viol("C15/load-panicked", p, json!({"scalar": which, "value": name})),
        Ok(Ok(re)) => {
          if !canonical {
            cx.viol("C15/non-canonical-scalar-accepted", format!("a proof whose scalar {} is {} (not a canonical encoding) was loaded; it re-serialises to {} bytes {}", which, name, re.as_ref().map(|r| r.len()).unwrap_or(0), if re.as_ref() == Some(&b) { "identical" } else { "DIFFERENT from the input" }), json!({"scalar": which, "value": name}));
          } else if re.as_ref() != Some(&b) {
            cx.viol("C15/proof-roundtrip-differs", format!("serialize(load(b)) != b for a proof with {} = {}", which, name), json!({"scalar": which, "value": name}));
          } else {
            cx.count("scalars_accepted", 1);
          }
        }
        Ok(Err(_)) => {
          if *canonical {
            cx.viol("C15/proof-load-failed", format!("a proof with the canonical scalar {} = {} was refused", which, name), json!({"scalar": which, "value": name}));
          } else {
            cx.count("scalars_refused", 1);
          }
        }
      }
    }
  }
  // a writer that fails after n bytes, for EVERY n: the failed attempt must leave nothing behind
  struct Failing {
    left: usize,
  }
  impl std::io::Write for Failing {
    fn write(&mut self, b: &[u8]) -> std::io::Result<usize> {
      if self.left == 0 {
        return Err(std::io::Error::new(std::io::ErrorKind::Other, "disk full"));
      }
      let n = b.len().min(self.left);
      self.left -= n;
      Ok(n)
    }
    fn flush(&mut self) -> std::io::Result<()> {
      Ok(())
    }
  }
  let (b2, _) = pp::Client::blind(b"y");
  let ev2 = server.eval(&b2, 2, false).expect("eval");
  let want1 = serde_json::to_string(&ev).unwrap();
  let want2 = serde_json::to_string(&ev2).unwrap();
  for n in 0..want1.len() {
    cx.eval();
    let r = guard(|| serde_json::to_writer(Failing { left: n }, &ev).is_err());
    if r != Ok(true) {
      cx.viol("C15/json-failed-write", format!("writing an evaluation to a sink that fails after {} bytes: {:?}", n, r), json!({"fail_after": n}));
      continue;
    }
    // the next serialisations on this thread are unaffected by the failed one
    let got2 = guard(|| serde_json::to_string(&ev2).ok());
    let got1 = guard(|| serde_json::to_string(&ev).ok());
    if got2 != Ok(Some(want2.clone())) || got1 != Ok(Some(want1.clone())) {
      cx.viol("C15/json-after-failed-write", format!("after a write that failed at byte {}, the next evaluation serialises to a different JSON text (state left behind by the failed serialisation)", n), json!({"fail_after": n, "got": format!("{:?}", got2).chars().take(160).collect::<String>(), "want": want2.chars().take(100).collect::<String>()}));
      break;
    }
    match serde_json::from_str::<pp::Evaluation>(&want2) {
      Ok(e) if e.output == ev2.output => cx.count("failure_points_checked", 1),
      _ => cx.viol("C15/evaluation-json-load-failed", "valid JSON no longer restores", json!({"fail_after": n})),
    }
  }
  // same for the size-limited binary form of the public key
  cx.outcome("boundaries and failure points");
  cx.sample(json!({"scalar_values": cands.iter().map(|c| c.0).collect::<Vec<_>>(), "json_failure_points": want1.len()}));
}


/// loads in sequence on one thread: a valid key, then every single-byte variant of it - each result must reflect
/// ITS OWN input (canonical re-serialisation) or be an error; special points survive their JSON form
fn run_load_sequences(cx: &mut CaseCx, _case: &Value) {
  cx.entropy(670);
  let server = pp::Server::new(vec![1, 2, 9]).expect("server");
  let pkb = server.get_public_key().serialize_to_bincode().expect("pk");
  let (blinded, _) = pp::Client::blind(b"x");
  let prb = server.eval(&blinded, 1, true).unwrap().proof.unwrap().serialize_to_bincode().unwrap();
  for (what, base) in [("public key", &pkb), ("proof", &prb)] {
    let is_pk = what == "public key";
    let load = |b: &[u8]| -> Result<Option<Vec<u8>>, String> {
      if is_pk {
        guard(|| pp::ServerPublicKey::load_from_bincode(b).ok().and_then(|k| k.serialize_to_bincode().ok()))
      } else {
        guard(|| pp::ProofDLEQ::load_from_bincode(b).ok().and_then(|k| k.serialize_to_bincode().ok()))
      }
    };
    for off in 0..base.len() {
      for flt in ["^01", "^80", "+1"] {
        let mut b2 = base.to_vec();
        b2[off] = match flt {
          "^01" => b2[off] ^ 1,
          "^80" => b2[off] ^ 0x80,
          _ => b2[off].wrapping_add(1),
        };
        // first the valid encoding, then the variant, then the valid one again
        let r1 = load(base);
        let r2 = load(&b2);
        let r3 = load(base);
        cx.eval();
        cx.nontrivial(fnv(&b2) ^ is_pk as u64);
        let d = || json!({"what": what, "offset": off, "fault": flt});
        if r1 != Ok(Some(base.to_vec())) || r3 != Ok(Some(base.to_vec())) {
          cx.viol("C15/load-depends-on-history", format!("the valid {} no longer loads to itself after a variant of it was loaded on the same thread", what), d());
          return;
        }
        match r2 {
          Err(p) => cx.viol("C15/load-panicked", p, d()),
          Ok(None) => cx.count("variants_refused", 1),
          Ok(Some(re)) => {
            // what the variant's OWN bytes say, by an independent reading of the layout (entries may come in
            // any order and may repeat; trailing bytes are ignored): base | n | (tag, point)* -> sorted map
            let expect: Option<Vec<u8>> = if is_pk {
              (|| {
                let n = u64::from_le_bytes(b2.get(32..40)?.try_into().ok()?) as usize;
                let mut m: std::collections::BTreeMap<u8, Vec<u8>> = std::collections::BTreeMap::new();
                for i in 0..n {
                  let at = 40 + 33 * i;
                  m.insert(*b2.get(at)?, b2.get(at + 1..at + 33)?.to_vec());
                }
                let mut out = b2[..32].to_vec();
                out.extend_from_slice(&(m.len() as u64).to_le_bytes());
                for (k, v) in m {
                  out.push(k);
                  out.extend_from_slice(&v);
                }
                Some(out)
              })()
            } else {
              Some(b2.clone())
            };
            if Some(&re) != expect.as_ref() {
              cx.viol("C15/load-depends-on-history", format!("a {} that differs from the previously loaded one in byte {} was loaded as {} (it does not re-serialise to what its own bytes say)", what, off, if re == *base { "the PREVIOUS value" } else { "something else" }), d());
              return;
            }
            cx.count("variants_loaded_faithfully", 1);
          }
        }
      }
    }
  }
  // special points through their JSON form
  use curve25519_dalek::constants::RISTRETTO_BASEPOINT_POINT as G;
  for (name, bytes) in [("the neutral element", [0u8; 32]), ("the base point", G.compress().to_bytes()), ("an ordinary point", *blinded.as_bytes())] {
    let p = pp::Point::from(&bytes[..]);
    cx.eval();
    match serde_json::to_string(&p).ok().and_then(|js| serde_json::from_str::<pp::Point>(&js).ok()) {
      Some(p2) if p2 == p => cx.count("special_points_roundtrip", 1),
      _ => cx.viol("C15/point-json-differs", format!("{} does not survive its JSON form", name), json!({"point": name})),
    }
    // and as the output of an evaluation (base64 form)
    let ev = pp::Evaluation { output: pp::Point::from(&bytes[..]), proof: None };
    match serde_json::to_string(&ev).ok().and_then(|js| serde_json::from_str::<pp::Evaluation>(&js).ok()) {
      Some(e2) if e2.output == ev.output => cx.count("special_points_roundtrip", 1),
      _ => cx.viol("C15/evaluation-json-differs", format!("an evaluation whose output is {} does not survive its JSON form", name), json!({"point": name})),
    }
    // and inside a public key (binary form)
  }
  cx.outcome("load sequences");
}

fn run_limits(cx: &mut CaseCx, _case: &Value) {
  cx.entropy(700);
  let server = pp::Server::new((0..=255u8).collect()).expect("server");
  let pkb = server.get_public_key().serialize_to_bincode().expect("pk");
  let (blinded, _) = pp::Client::blind(b"x");
  let prb = server.eval(&blinded, 1, true).unwrap().proof.unwrap().serialize_to_bincode().unwrap();
  let small = pp::Server::new(vec![1, 2]).unwrap().get_public_key().serialize_to_bincode().unwrap();
  let too_big = |r: &Result<Result<(), pp::PPRFError>, String>| matches!(r, Ok(Err(pp::PPRFError::SerializedDataTooBig)));
  // over the limit => SerializedDataTooBig whatever the content
  for (name, base, limit) in [("public key", &pkb, pp::MAX_SERIALIZED_PK_SIZE), ("public key (2 tags)", &small, pp::MAX_SERIALIZED_PK_SIZE), ("proof", &prb, pp::MAX_SERIALIZED_PROOF_SIZE)] {
    let is_pk = name.starts_with("public");
    let load = |b: &[u8]| -> Result<Result<(), pp::PPRFError>, String> {
      if is_pk {
        guard(|| pp::ServerPublicKey::load_from_bincode(b).map(|_| ()))
      } else {
        guard(|| pp::ProofDLEQ::load_from_bincode(b).map(|_| ()))
      }
    };
    for size in [limit + 1, limit + 2, limit + 1000, 2 * limit, 100_000] {
      for (how, bytes) in [
        ("valid encoding padded with zeros past the limit", {
          let mut b = base.to_vec();
          b.resize(size.max(base.len()), 0);
          b
        }),
        ("constant 98", vec![98u8; size]),
        ("zeros", vec![0u8; size]),
      ] {
        if bytes.len() <= limit {
          continue;
        }
        cx.eval();
        cx.nontrivial(fnv_str(&format!("{}|{}|{}", name, size, how)));
        let r = load(&bytes);
        if !too_big(&r) {
          cx.viol(format!("C15/limit-not-enforced/{}", if is_pk { "public-key" } else { "proof" }), format!("{} input of {} bytes (> limit {}; {}) was not refused with SerializedDataTooBig: {:?}", name, bytes.len(), limit, how, r.map(|x| x.map_err(|e| e.to_string()))), json!({"what": name, "size": bytes.len(), "limit": limit, "content": how}));
        } else {
          cx.count("over_limit_refused", 1);
        }
      }
    }
    // at and below the limit: a valid encoding padded up to exactly the limit is not refused as too big
    for size in [limit - 1, limit] {
      let mut b = base.to_vec();
      if b.len() <= size {
        b.resize(size, 0);
        cx.eval();
        let r = load(&b);
        if too_big(&r) {
          cx.viol("C15/limit-off-by-one", format!("{} input of {} bytes (<= limit {}) refused as too big", name, size, limit), json!({"what": name, "size": size}));
        }
        cx.count("at_limit_checked", 1);
      }
    }
    // every truncation of a valid encoding is an error, never a partially initialised value
    for n in 0..base.len() {
      cx.eval();
      match load(&base[..n]) {
        Ok(Err(_)) => cx.count("truncations_refused", 1),
        Ok(Ok(())) => cx.viol(format!("C15/truncation-accepted/{}", if is_pk { "public-key" } else { "proof" }), format!("{} truncated to {} of {} bytes was loaded", name, n, base.len()), json!({"what": name, "prefix": n})),
        Err(p) => cx.viol("C15/load-panicked", p, json!({"what": name, "prefix": n})),
      }
    }
  }
  cx.outcome("limits and truncations");
  cx.sample(json!({"pk_len_256_tags": pkb.len(), "proof_len": prb.len(), "limits": [pp::MAX_SERIALIZED_PK_SIZE, pp::MAX_SERIALIZED_PROOF_SIZE]}));
}

pub fn spec() -> PropSpec {
  PropSpec {
    id: "C15",
    level: "fault_enumeration",
    assumptions: vec![
      "bincode tolerates trailing bytes below the size limit; the property does not forbid it and the oracle does not demand rejection",
      "tag sets: first-n tags for every n in 0..=256 plus {255}, {0,255} and an unsorted list with a repeat",
    ],
    thorough_budget_s: 600,
    checks: vec![
      Check {
        name: "public-key-sizes",
        rule: "public keys for EVERY tag-set size 0..256 (+3 special sets): load(serialize(v)) == v, serialize(load(b)) == b, restored key verifies an honest proof and rejects the wrong-tag cell exactly like the original",
        gen: |_| (0..26u64).map(|i| json!({"lo": i * 10, "hi": (i * 10 + 9).min(259)})).collect(),
        run: run_pk_sizes,
        min_counts: &[("pk_roundtrips", 257), ("interchange_checks", 200)],
      },
      Check {
        name: "proofs-and-json",
        rule: "10 inputs x 3 tags x {verifiable, not}: proof bincode round trip (64 bytes c||s) and interchangeability; Evaluation and Point JSON round trips, restored values interchangeable in verify and Server::eval",
        gen: |_| vec![json!({})],
        run: run_proofs_json,
        min_counts: &[("proof_roundtrips", 30), ("evaluation_json_roundtrips", 60), ("point_json_roundtrips", 60)],
      },
      Check {
        name: "json-malformed",
        rule: "Evaluation JSON whose output field is the base64 (standard padded / unpadded / url-safe) of 0..40 bytes, every character-prefix of the valid string, non-base64, 44 unpadded characters; bare Point arrays of 0,1,31,33,64 numbers: anything that is not exactly the valid 32-byte form must be an error (no panic, no zero-padded or truncated value)",
        gen: |_| vec![json!({})],
        run: run_json_malformed,
        min_counts: &[("json_refused", 100), ("json_accepted", 1)],
      },
      Check {
        name: "json-structure",
        rule: "the JSON documents of an Evaluation with proof, one without, a bare ProofDLEQ and a bare Point, under EVERY single structural mutation (each member / first, middle, last array element deleted or replaced by null, \"\", [], {}, 0, false, a string, [0], 256, -1, 1.5; arrays extended or shortened): restoring is an error, or the restored value re-serialises to exactly the given document (absent member == null) - a value holding data the document does not contain is a partially initialised value",
        gen: |_| vec![json!({})],
        run: run_json_structure,
        min_counts: &[("json_refused", 100), ("json_accepted", 4)],
      },
      Check {
        name: "undecodable-values",
        rule: "Points holding a client request, the neutral element, 0xff.., a valid encoding with the low / top bit set, 0x01 then zeros: equal to themselves and to a Point of the same bytes (the type's own ==), restored equal from JSON alone and inside an Evaluation; a public key whose tag point is replaced by each of them in the binary form: refused, or two loads compare equal and the key re-serialises to the same bytes and restores equal",
        gen: |_| vec![json!({})],
        run: run_undecodable_values,
        min_counts: &[("points_restored_equal", 6)],
      },
      Check {
        name: "json-doors",
        rule: "24 evaluations (with and without proof) and their request points: the JSON the library writes - as written, pretty-printed, with '/' written as '\\/', with '=' written as a \\u escape - restores to the same value through from_str, from_slice, from_reader and from_value (JSON text that travels through a parser, a stream or an escaping encoder is still that JSON)",
        gen: |_| vec![json!({})],
        run: run_json_doors,
        min_counts: &[("json_doors_ok", 400)],
      },
      Check {
        name: "scalar-boundaries-and-write-failures",
        rule: "proof scalars c, s replaced by 0, 1, l-1, l, l+1, 2^252, 2^253, 2^255-1, 2^256-1: loaded iff canonical (< l), and then re-serialised identically; JSON serialisation of an evaluation into a sink that fails after n bytes for EVERY n: error, and the following serialisations on the same thread are byte-identical to the reference",
        gen: |_| vec![json!({})],
        run: run_boundaries,
        min_counts: &[("scalars_accepted", 8), ("scalars_refused", 8), ("failure_points_checked", 50)],
      },
      Check {
        name: "load-sequences",
        rule: "history on one thread: load(valid), load(variant), load(valid) for EVERY single-byte variant (3 faults per offset) of a public key and of a proof: the valid one always loads to itself, an accepted variant re-serialises to what an independent reading of its own bytes gives (entries in any order, trailing bytes ignored), never to a previously loaded value; the neutral element, the base point and an ordinary point survive the JSON forms of Point and Evaluation",
        gen: |_| vec![json!({})],
        run: run_load_sequences,
        min_counts: &[("variants_refused", 10), ("variants_loaded_faithfully", 100), ("special_points_roundtrip", 6)],
      },
      Check {
        name: "limits-and-truncations",
        rule: "inputs of limit+1, limit+2, limit+1000, 2*limit, 100000 bytes (valid encoding padded, constant fill, zeros) must be refused with SerializedDataTooBig; limit-1 and limit not refused as too big; EVERY prefix of a 256-tag key (8488 bytes), a 2-tag key and a proof is an error",
        gen: |_| vec![json!({})],
        run: run_limits,
        min_counts: &[("over_limit_refused", 30), ("truncations_refused", 8000)],
      },
    ],
  }
}
