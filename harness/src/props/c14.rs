//! C14 — a randomness server answers iff the tag is registered and unpunctured, under any history of
//! evaluations, punctures, clones and key-state export/import. Explicit-state exploration over up
//! to three real `Server` instances against a two-set reference model.
use super::c11::{export_bytes, import_into};
use crate::ggmx::parse_export;
use crate::mc::*;
use ppoprf::ppoprf as pp;
use serde_json::{json, Value};
use std::collections::BTreeSet;

// 0/128 and 126/254 are deepest-level siblings (x ^ 0x80); 0,2,6 share the low-bit-0 half of the tree
pub const REGISTERED: [u8; 6] = [0, 1, 2, 6, 128, 255];
pub const TAGS: [u8; 8] = [0, 1, 2, 6, 128, 255, 3, 254];
const MAX_INST: usize = 3;

#[derive(Clone, Debug, PartialEq, Eq, Hash, serde::Serialize, serde::Deserialize)]
pub enum Act {
  Puncture(usize, u8),
  Clone(usize),
  ExportImportFresh(usize),
  /// export of instance .0 imported into the EXISTING instance .1 (a follower re-syncing)
  Sync(usize, usize),
}

#[derive(Clone)]
pub struct Inst {
  pub s: pp::Server,
  pub punct: BTreeSet<u8>,
}
#[derive(Clone)]
pub struct St {
  pub inst: Vec<Inst>,
  pub path: Vec<Act>,
  pub touched: Vec<usize>,
}
pub type Key = Vec<Vec<u8>>;
pub fn key_of(st: &St) -> Key {
  st.inst.iter().map(|i| i.punct.iter().copied().collect()).collect()
}

pub struct Base {
  /// an independently keyed server that has already punctured every tag of the alphabet (import target)
  pub foreign_punctured: pp::Server,
  pub initial: pp::Server,
  pub pk: pp::ServerPublicKey,
  pub points: Vec<pp::Point>,
  /// baseline[tag index][point index] = output bytes of the initial server (None if refused)
  pub baseline: Vec<Vec<Option<[u8; 32]>>>,
}
pub fn setup(cx: &CaseCx) -> Base {
  cx.entropy(1);
  let initial = pp::Server::new(REGISTERED.to_vec()).expect("server");
  let pk = initial.get_public_key();
  // two ordinary requests and the neutral element (a legal point no client produces)
  let points: Vec<pp::Point> = vec![pp::Client::blind(b"probe-0").0, pp::Client::blind(b"probe-1").0, pp::Point::from(&[0u8; 32][..])];
  let baseline = TAGS.iter().map(|&t| points.iter().map(|p| initial.eval(p, t, false).ok().map(|e| *e.output.as_bytes())).collect()).collect();
  let mut foreign_punctured = pp::Server::new(vec![0, 1, 2, 3, 200]).expect("server");
  for &t in TAGS.iter() {
    let _ = foreign_punctured.puncture(t);
  }
  Base { foreign_punctured, initial, pk, points, baseline }
}

pub fn observable(s: &pp::Server, b: &Base) -> Vec<Vec<Option<[u8; 32]>>> {
  TAGS.iter().map(|&t| b.points.iter().map(|p| s.eval(p, t, false).ok().map(|e| *e.output.as_bytes())).collect()).collect()
}

fn path_json(p: &[Act]) -> Value {
  serde_json::to_value(p).unwrap()
}

/// cheap invariant of one instance against its model (answers iff registered & unpunctured; answers never change)
pub fn check_instance(cx: &mut CaseCx, i: usize, inst: &Inst, b: &Base, path: &[Act]) {
  let obs = match guard(|| observable(&inst.s, b)) {
    Ok(o) => o,
    Err(p) => {
      cx.viol("C14/eval-panicked", p, json!({"history": path_json(path), "instance": i}));
      return;
    }
  };
  cx.evals((TAGS.len() * b.points.len()) as u64);
  for (ti, &t) in TAGS.iter().enumerate() {
    let should = REGISTERED.contains(&t) && !inst.punct.contains(&t);
    for pi in 0..b.points.len() {
      match (obs[ti][pi], should) {
        (Some(v), true) => {
          if Some(v) != b.baseline[ti][pi] {
            cx.viol("C14/answer-changed", format!("instance {} answers tag {} differently from the original server (its answer for a given point and tag changed)", i, t), json!({"history": path_json(path), "instance": i, "tag": t}));
            return;
          }
        }
        (None, false) => {}
        (Some(_), false) => {
          cx.viol(if inst.punct.contains(&t) { "C14/answers-punctured-tag" } else { "C14/answers-unregistered-tag" }, format!("instance {} answers for tag {} which is {}", i, t, if inst.punct.contains(&t) { "punctured in its history" } else { "not registered" }), json!({"history": path_json(path), "instance": i, "tag": t}));
          return;
        }
        (None, true) => {
          cx.viol("C14/refuses-live-tag", format!("instance {} refuses tag {} although it is registered and was never punctured in this key's history", i, t), json!({"history": path_json(path), "instance": i, "tag": t}));
          return;
        }
      }
    }
  }
  cx.eval();
  if inst.s.get_public_key() != b.pk {
    cx.viol("C14/public-key-changed", format!("the public key of instance {} differs from the original public key", i), json!({"history": path_json(path), "instance": i}));
  }
}

/// expensive part, for instances touched by the last action: verifiable answers verify against the
/// ORIGINAL public key; export now + import into a fresh server gives an indistinguishable instance
pub fn check_touched(cx: &mut CaseCx, i: usize, inst: &Inst, b: &Base, path: &[Act]) {
  for &t in REGISTERED.iter() {
    if inst.punct.contains(&t) {
      continue;
    }
    cx.eval();
    match guard(|| inst.s.eval(&b.points[1], t, true)) {
      Ok(Ok(ev)) => {
        let ti = TAGS.iter().position(|&x| x == t).unwrap();
        if Some(*ev.output.as_bytes()) != b.baseline[ti][1] {
          cx.viol("C14/answer-changed", format!("verifiable answer of instance {} for tag {} differs from the non-verifiable baseline", i, t), json!({"history": path_json(path), "instance": i, "tag": t}));
        }
        if guard(|| pp::Client::verify(&b.pk, &b.points[1], &ev, t)) != Ok(true) {
          cx.viol("C14/proof-does-not-verify", format!("a verifiable answer of instance {} for tag {} does not verify against the original public key", i, t), json!({"history": path_json(path), "instance": i, "tag": t}));
        }
      }
      other => cx.viol("C14/refuses-live-tag", format!("verifiable eval of instance {} for live tag {} failed: {:?}", i, t, other.map(|r| r.map(|_| ()).map_err(|e| e.to_string()))), json!({"history": path_json(path), "instance": i, "tag": t})),
    }
  }
  // export at this point of the history, import elsewhere
  cx.eval();
  match export_bytes(&inst.s) {
    Ok(bytes) => {
      // a second kind of importer: another key lineage that has punctured MORE than the exporter
      let mut foreign = b.foreign_punctured.clone();
      if import_into(&mut foreign, &bytes).is_ok() {
        let restored = Inst { s: foreign, punct: inst.punct.clone() };
        let before = cx.viols.len();
        check_instance(cx, i, &restored, b, path);
        if cx.viols.len() > before {
          let v = cx.viols.last_mut().unwrap();
          v.key = format!("C14/restored-instance-differs/foreign-importer/{}", v.key.trim_start_matches("C14/"));
          v.what = format!("a server of another key that had punctured more tags, after importing the state exported by instance {}, is distinguishable from the exporter: {}", i, v.what);
        }
        if export_bytes(&restored.s).ok().map(|b| canon_export(&b)) != Some(canon_export(&bytes)) {
          cx.viol("C14/restored-instance-differs/foreign-importer/re-export", "a server of another key that imported the state re-exports a different key state", json!({"history": path_json(path), "instance": i}));
        }
      }
      let mut fresh = pp::Server::new(vec![9]).expect("server");
      match import_into(&mut fresh, &bytes) {
        Ok(()) => {
          let restored = Inst { s: fresh, punct: inst.punct.clone() };
          let before = cx.viols.len();
          check_instance(cx, i, &restored, b, path);
          if cx.viols.len() > before {
            let v = cx.viols.last_mut().unwrap();
            v.key = format!("C14/restored-instance-differs/{}", v.key.trim_start_matches("C14/"));
            v.what = format!("a server restored from the state exported by instance {} at this point is distinguishable from the exporter: {}", i, v.what);
          }
          if guard(|| observable(&restored.s, b)).ok() != guard(|| observable(&inst.s, b)).ok() {
            cx.viol("C14/restored-instance-differs/observable", "restored server and exporter answer differently", json!({"history": path_json(path), "instance": i}));
          }
          // re-export is identical (nothing lost or added in transit)
          if export_bytes(&restored.s).ok().map(|b| canon_export(&b)) != Some(canon_export(&bytes)) {
            cx.viol("C14/restored-instance-differs/re-export", "the restored server exports a different key state than it imported (compared up to the order of the retained nodes)", json!({"history": path_json(path), "instance": i}));
          }
          cx.count("export_import_checks", 1);
        }
        Err(e) => cx.viol("C14/import-failed", e, json!({"history": path_json(path), "instance": i})),
      }
    }
    Err(e) => cx.viol("C14/export-failed", e, json!({"history": path_json(path), "instance": i})),
  }
}

pub fn actions(st: &St) -> Vec<Act> {
  let k = st.inst.len();
  let mut v = vec![];
  for i in 0..k {
    for &t in TAGS.iter() {
      v.push(Act::Puncture(i, t));
    }
  }
  if k < MAX_INST {
    for i in 0..k {
      v.push(Act::Clone(i));
      v.push(Act::ExportImportFresh(i));
    }
  }
  for i in 0..k {
    for j in 0..k {
      if i != j {
        v.push(Act::Sync(i, j));
      }
    }
  }
  v
}

/// execute one action on the real objects and on the model; returns None if the action is refused (state unchanged)
pub fn step(st: &St, a: &Act, sc: &mut CaseCx) -> Option<St> {
  let mut n = st.clone();
  n.path.push(a.clone());
  match a {
    Act::Puncture(i, t) => {
      sc.eval();
      let r = guard(|| n.inst[*i].s.puncture(*t).is_ok());
      let already = st.inst[*i].punct.contains(t);
      match r {
        Ok(true) if !already => {
          n.inst[*i].punct.insert(*t);
          n.touched = vec![*i];
          Some(n)
        }
        Ok(false) if already => {
          sc.count("refused_double_punctures", 1);
          // a refused puncture must leave the instance as it was
          if export_bytes(&n.inst[*i].s).ok().map(|b| canon_export(&b)) != export_bytes(&st.inst[*i].s).ok().map(|b| canon_export(&b)) {
            sc.viol("C14/refused-puncture-changed-state", format!("a refused puncture of tag {} changed the key state", t), json!({"history": path_json(&n.path)}));
          }
          None
        }
        Ok(true) => {
          sc.viol("C14/double-puncture-accepted", format!("tag {} was punctured twice in the history of instance {} without error", t, i), json!({"history": path_json(&n.path)}));
          None
        }
        Ok(false) => {
          sc.viol("C14/puncture-refused", format!("puncturing tag {} (never punctured in this key's history) failed on instance {}", t, i), json!({"history": path_json(&n.path)}));
          None
        }
        Err(p) => {
          sc.viol("C14/puncture-panicked", p, json!({"history": path_json(&n.path)}));
          None
        }
      }
    }
    Act::Clone(i) => {
      let c = st.inst[*i].clone();
      n.inst.push(c);
      n.touched = vec![n.inst.len() - 1];
      Some(n)
    }
    Act::ExportImportFresh(i) => {
      sc.eval();
      let bytes = export_bytes(&st.inst[*i].s).ok()?;
      let mut fresh = pp::Server::new(vec![9]).expect("server");
      if let Err(e) = import_into(&mut fresh, &bytes) {
        sc.viol("C14/import-failed", e, json!({"history": path_json(&n.path)}));
        return None;
      }
      n.inst.push(Inst { s: fresh, punct: st.inst[*i].punct.clone() });
      n.touched = vec![n.inst.len() - 1];
      Some(n)
    }
    Act::Sync(i, j) => {
      sc.eval();
      let bytes = export_bytes(&st.inst[*i].s).ok()?;
      if let Err(e) = import_into(&mut n.inst[*j].s, &bytes) {
        sc.viol("C14/import-failed", e, json!({"history": path_json(&n.path)}));
        return None;
      }
      n.inst[*j].punct = st.inst[*i].punct.clone();
      n.touched = vec![*j];
      Some(n)
    }
  }
}


/// Evaluations must not change server state. The BFS treats them as part of the invariant, so this is
/// checked separately for every transition: for every tag, evaluate it on a copy of the instance the
/// action is about to change, apply the action, and evaluate the SAME tag first afterwards - the
/// answer must be what the model says for the new state (no stale per-tag memo may survive a puncture,
/// a clone or an import).
pub fn interleaved_probe(st: &St, a: &Act, b: &Base, sc: &mut CaseCx) {
  let (src, new_punct): (usize, BTreeSet<u8>) = match a {
    Act::Puncture(i, t) => {
      if st.inst[*i].punct.contains(t) {
        return;
      }
      let mut p = st.inst[*i].punct.clone();
      p.insert(*t);
      (*i, p)
    }
    Act::Clone(i) | Act::ExportImportFresh(i) => (*i, st.inst[*i].punct.clone()),
    Act::Sync(i, _j) => (*i, st.inst[*i].punct.clone()),
  };
  for (ti, &tag) in TAGS.iter().enumerate() {
    // the instance that will carry the state after the action, warmed up with one evaluation of `tag`
    let mut target: pp::Server = match a {
      Act::Sync(_, j) => st.inst[*j].s.clone(),
      Act::ExportImportFresh(_) => pp::Server::new(vec![9]).expect("server"),
      _ => st.inst[src].s.clone(),
    };
    let _ = guard(|| target.eval(&b.points[0], tag, false).map(|e| *e.output.as_bytes()));
    let applied: Result<(), String> = match a {
      Act::Puncture(_, t) => guard(|| target.puncture(*t).map_err(|e| e.to_string())).and_then(|r| r),
      Act::Clone(_) => {
        target = target.clone();
        Ok(())
      }
      Act::ExportImportFresh(i) | Act::Sync(i, _) => export_bytes(&st.inst[*i].s).and_then(|bytes| import_into(&mut target, &bytes)),
    };
    if applied.is_err() {
      continue;
    }
    sc.eval();
    let got = guard(|| target.eval(&b.points[0], tag, false).ok().map(|e| *e.output.as_bytes()));
    let should = REGISTERED.contains(&tag) && !new_punct.contains(&tag);
    let want = if should { b.baseline[ti][0] } else { None };
    match got {
      Ok(g) if g == want => sc.count("interleaved_probes", 1),
      Ok(g) => {
        let mut path = st.path.clone();
        path.push(a.clone());
        sc.viol(
          if g.is_some() && !should { "C14/evaluation-changes-state/stale-answer" } else { "C14/evaluation-changes-state" },
          format!("tag {} was evaluated on the instance just before {:?}; evaluated again right after, the instance {} although the model says it must {}", tag, a, if g.is_some() { "answers" } else { "refuses" }, if should { "answer with the original value" } else { "refuse" }),
          json!({"history": path_json(&path), "evaluated_before_and_after": tag}),
        );
        return;
      }
      Err(p) => sc.viol("C14/eval-panicked", p, json!({"history": path_json(&st.path)})),
    }
  }
}

pub fn visit(st: &St, b: &Base, sc: &mut CaseCx) {
  getrandom::verif::reset(fnv_str(&format!("{:?}", key_of(st))));
  for (i, inst) in st.inst.iter().enumerate() {
    check_instance(sc, i, inst, b, &st.path);
  }
  for &i in &st.touched {
    check_touched(sc, i, &st.inst[i], b, &st.path);
  }
  // clones evolve independently - also with respect to evaluations: evaluate tag t on instance j and
  // IMMEDIATELY afterwards on instance i (the touched one, and the other way round); each answers per its own model
  for &i in &st.touched {
    for j in 0..st.inst.len() {
      if i == j {
        continue;
      }
      for (a, c) in [(j, i), (i, j)] {
        for (ti, &t) in TAGS.iter().enumerate() {
          let _ = guard(|| st.inst[a].s.eval(&b.points[0], t, false).is_ok());
          let got = guard(|| st.inst[c].s.eval(&b.points[0], t, false).ok().map(|e| *e.output.as_bytes()));
          sc.eval();
          let should = REGISTERED.contains(&t) && !st.inst[c].punct.contains(&t);
          let want = if should { b.baseline[ti][0] } else { None };
          match got {
            Ok(g) if g == want => sc.count("cross_instance_probes", 1),
            Ok(g) => {
              sc.viol(
                "C14/instances-not-independent",
                format!("tag {} was evaluated on instance {} and immediately afterwards on instance {}: instance {} {} although in its own key history the tag is {}", t, a, c, c, if g.is_some() { "answers" } else { "refuses" }, if should { "registered and unpunctured" } else { "punctured or unregistered" }),
                json!({"history": path_json(&st.path), "evaluate_on": a, "then_on": c, "tag": t}),
              );
              return;
            }
            Err(p) => sc.viol("C14/eval-panicked", p, json!({"history": path_json(&st.path)})),
          }
        }
      }
    }
  }
}

/// canonical form of an exported key state: everything but the order of the retained nodes
pub fn canon_export(bytes: &[u8]) -> Vec<u8> {
  match parse_export(bytes) {
    Some(e) => {
      let mut nodes = e.prefixes;
      nodes.sort();
      let mut punct = e.punctured;
      punct.sort();
      let mut out = vec![];
      out.extend_from_slice(&e.oprf_key);
      out.extend_from_slice(&e.base_pk);
      for (k, v) in e.md_pks {
        out.push(k);
        out.extend_from_slice(&v);
      }
      for p in e.prgs {
        out.extend_from_slice(&p);
      }
      out.extend_from_slice(format!("{:?}", nodes).as_bytes());
      out.extend_from_slice(format!("{:?}", punct).as_bytes());
      out
    }
    None => bytes.to_vec(),
  }
}
fn canon_exports(st: &St) -> Vec<Option<Vec<(Vec<bool>, Vec<u8>)>>> {
  st.inst
    .iter()
    .map(|i| {
      export_bytes(&i.s).ok().and_then(|b| parse_export(&b)).map(|e| {
        let mut v = e.prefixes;
        v.sort();
        v
      })
    })
    .collect()
}

fn run_bfs(cx: &mut CaseCx, case: &Value) {
  let depth = case["depth"].as_u64().unwrap() as usize;
  let b = setup(cx);
  let init = St { inst: vec![Inst { s: b.initial.clone(), punct: BTreeSet::new() }], path: vec![], touched: vec![0] };
  let mut samples: Vec<Vec<Act>> = vec![];
  let stats = bfs(
    cx,
    (key_of(&init), init),
    depth,
    |_k, st, sc| {
      let mut succ = vec![];
      for a in actions(st) {
        sc.count("transitions", 1);
        interleaved_probe(st, &a, &b, sc);
        if let Some(n) = step(st, &a, sc) {
          succ.push((key_of(&n), n));
        }
      }
      succ
    },
    |_k, first, dup, sc| {
      // same model state through another history: same observable and same canonical key material,
      // otherwise the late arrival is checked in full
      sc.eval();
      let same = (0..first.inst.len()).all(|i| guard(|| observable(&first.inst[i].s, &b)).ok() == guard(|| observable(&dup.inst[i].s, &b)).ok()) && canon_exports(first) == canon_exports(dup);
      if !same {
        sc.count("merge_differs", 1);
        let mut d = dup.clone();
        d.touched = (0..d.inst.len()).collect();
        visit(&d, &b, sc);
      }
    },
    |_k, st, sc| {
      visit(st, &b, sc);
      sc.nontrivial(fnv_str(&format!("{:?}", key_of(st))));
    },
    |_k, st| {
      if st.path.len() == depth && samples.len() < 8 {
        samples.push(st.path.clone());
      }
    },
  );
  cx.count("states", stats.states);
  cx.count("merges", stats.merges);
  // trace validation: recorded histories replayed on a fresh world keyed by the same entropy
  let b2 = setup(cx);
  for path in samples.iter() {
    let mut st = St { inst: vec![Inst { s: b2.initial.clone(), punct: BTreeSet::new() }], path: vec![], touched: vec![0] };
    for a in path {
      if let Some(n) = step(&st, a, cx) {
        st = n;
      }
    }
    st.touched = (0..st.inst.len()).collect();
    visit(&st, &b, cx);
    cx.count("traces_validated", 1);
  }
  cx.outcome(format!("depth {}: {} states, levels {:?}", depth, stats.states, stats.level_sizes));
  cx.sample(json!({"depth": depth, "states": stats.states, "level_sizes": stats.level_sizes, "merges": stats.merges, "example_history": samples.get(0).map(|p| path_json(p))}));
}


/// SUPPLEMENTARY (free-running schedules, not enumerated): evaluations of one server object from several threads at once
fn run_concurrent_eval(cx: &mut CaseCx, _case: &Value) {
  let b = setup(cx);
  let mut s = b.initial.clone();
  let _ = s.puncture(2);
  let _ = s.puncture(128);
  let inst = Inst { s, punct: [2u8, 128].into_iter().collect() };
  let other = Inst { s: b.initial.clone(), punct: BTreeSet::new() };
  for round in 0..6 {
    let results: Vec<CaseCx> = std::thread::scope(|sc| {
      let hs: Vec<_> = (0..6usize)
        .map(|k| {
          let (inst, other, b) = (&inst, &other, &b);
          let mut scx = cx.scratch();
          sc.spawn(move || {
            getrandom::verif::reset(1000 + k as u64 + 10 * round);
            for _ in 0..20 {
              // threads alternate between the punctured server and an unpunctured clone of the same key
              if k % 2 == 0 {
                check_instance(&mut scx, 0, inst, b, &[]);
              } else {
                check_instance(&mut scx, 1, other, b, &[]);
              }
            }
            scx
          })
        })
        .collect();
      hs.into_iter().filter_map(|h| h.join().ok()).collect()
    });
    for mut r in results {
      for v in r.viols.iter_mut() {
        v.key = format!("C14/concurrent/{}", v.key.trim_start_matches("C14/"));
        v.what = format!("six threads evaluating the same server objects at the same time: {}", v.what);
      }
      cx.absorb(r);
    }
  }
  cx.count("concurrent_rounds", 6);
  cx.nontrivial(1);
}


/// A server object that is REUSED: `standby.clone_from(&primary)` must make the standby the same value
/// as `primary.clone()`, whatever the standby was before (same key with more / fewer punctures, another
/// key, another tag set, an imported state).
fn run_object_reuse(cx: &mut CaseCx, case: &Value) {
  let b = setup(cx);
  let mut hists: Vec<Vec<u8>> = vec![vec![]];
  for &a in TAGS.iter() {
    hists.push(vec![a]);
    for &c in TAGS.iter() {
      if a != c {
        hists.push(vec![a, c]);
      }
    }
  }
  let si = case["src"].as_u64().unwrap() as usize % hists.len();
  let src_path = hists[si].clone();
  let mut src = Inst { s: b.initial.clone(), punct: BTreeSet::new() };
  for &t in &src_path {
    if src.s.puncture(t).is_ok() {
      src.punct.insert(t);
    }
  }
  let src_export = export_bytes(&src.s).ok().map(|x| canon_export(&x));
  // destinations
  cx.entropy(3);
  let mut dests: Vec<(String, pp::Server)> = vec![];
  for h in hists.iter().take(9) {
    let mut d = b.initial.clone();
    for &t in h {
      let _ = d.puncture(t);
    }
    dests.push((format!("same key, punctured {:?}", h), d));
  }
  for h in [vec![0u8, 128], vec![255, 1, 2], vec![0, 1, 2, 6, 128, 255]] {
    let mut d = b.initial.clone();
    for &t in &h {
      let _ = d.puncture(t);
    }
    dests.push((format!("same key, punctured {:?}", h), d));
  }
  dests.push(("another key, every tag punctured".into(), b.foreign_punctured.clone()));
  dests.push(("another key, same tags, fresh".into(), pp::Server::new(REGISTERED.to_vec()).expect("server")));
  let mut other = pp::Server::new(REGISTERED.to_vec()).expect("server");
  let _ = other.puncture(1);
  let _ = other.puncture(128);
  dests.push(("another key, same tags, punctured [1, 128]".into(), other));
  dests.push(("another key, tags [9]".into(), pp::Server::new(vec![9]).expect("server")));
  let mut imp = pp::Server::new(vec![9]).expect("server");
  if let Ok(bytes) = export_bytes(&b.initial) {
    let _ = import_into(&mut imp, &bytes);
  }
  let _ = imp.puncture(6);
  dests.push(("a restored copy of the same key, punctured [6]".into(), imp));
  for (dname, d0) in dests.iter() {
    let mut dst = d0.clone();
    // warm up the standby
    for &t in TAGS.iter() {
      let _ = guard(|| dst.eval(&b.points[0], t, false).is_ok());
    }
    cx.eval();
    if let Err(p) = guard(|| dst.clone_from(&src.s)) {
      cx.viol("C14/object-reuse/clone_from-panicked", p, json!({"primary_punctured": src_path, "standby": dname}));
      continue;
    }
    let before = cx.viols.len();
    let hist: Vec<Act> = src_path.iter().map(|&t| Act::Puncture(0, t)).collect();
    let inst = Inst { s: dst, punct: src.punct.clone() };
    check_instance(cx, 1, &inst, &b, &hist);
    if cx.viols.len() == before {
      check_touched(cx, 1, &inst, &b, &hist);
    }
    if cx.viols.len() == before && export_bytes(&inst.s).ok().map(|x| canon_export(&x)) != src_export {
      cx.viol("C14/object-reuse/key-state-differs", "after standby.clone_from(&primary) the standby exports another key state than the primary", json!({"primary_punctured": src_path, "standby": dname}));
    }
    cx.count("states", 1);
    cx.count("transitions", 1);
    for &t in TAGS.iter() {
      if cx.viols.len() > before {
        break;
      }
      if src.punct.contains(&t) {
        continue;
      }
      let mut n = inst.clone();
      cx.eval();
      if guard(|| n.s.puncture(t).is_ok()) != Ok(true) {
        cx.viol("C14/puncture-refused", format!("puncturing tag {} failed on the overwritten standby", t), json!({"primary_punctured": src_path, "standby": dname}));
        continue;
      }
      n.punct.insert(t);
      let mut h2 = hist.clone();
      h2.push(Act::Puncture(1, t));
      check_instance(cx, 1, &n, &b, &h2);
      // the primary is unaffected by what happens to the standby
      check_instance(cx, 0, &src, &b, &h2);
      let mut s2 = src.s.clone();
      let _ = s2.puncture(t);
      if cx.viols.len() == before && export_bytes(&n.s).ok().map(|x| canon_export(&x)) != export_bytes(&s2).ok().map(|x| canon_export(&x)) {
        cx.viol("C14/object-reuse/key-state-differs", format!("after standby.clone_from(&primary) and puncturing tag {} the standby exports another key state than primary.clone() after the same puncture", t), json!({"primary_punctured": src_path, "standby": dname, "then_puncture": t}));
      }
      cx.count("states", 1);
      cx.count("transitions", 1);
    }
    for v in cx.viols.iter_mut().skip(before) {
      if !v.key.starts_with("C14/object-reuse") {
        v.key = format!("C14/object-reuse/{}", v.key.trim_start_matches("C14/"));
        v.what = format!("server object overwritten with clone_from (standby was: {}; primary had punctured {:?}; 'instance 1' is the overwritten standby): {}", dname, src_path, v.what);
      }
    }
    if cx.viols.len() > before {
      return;
    }
  }
  cx.nontrivial(fnv(&src_path) ^ si as u64);
  cx.outcome("clone_from");
  if si == 0 {
    cx.sample(json!({"primary_histories": hists.len(), "standbys": dests.iter().map(|d| d.0.clone()).collect::<Vec<_>>()}));
  }
}


/// Order-dependence of the bookkeeping: tag families that share low-order bits (cousins at several levels of
/// the tree) punctured in EVERY order. A tag answers iff it was not punctured, whatever the order.
fn run_puncture_orders(cx: &mut CaseCx, case: &Value) {
  let fams: Vec<Vec<u8>> = vec![vec![0, 64, 128, 192], vec![1, 65, 129, 193], vec![0, 32, 64, 96, 128, 160, 192, 224], vec![0, 1, 2, 3], vec![252, 253, 254, 255], vec![85, 170, 21, 42], vec![0, 128, 1, 129], vec![63, 127, 191, 255]];
  let fam = fams[case["family"].as_u64().unwrap() as usize % fams.len()].clone();
  cx.entropy(40);
  let server = pp::Server::new((0..=255u8).collect()).expect("server");
  let point = pp::Client::blind(b"order probe").0;
  let mut probes: Vec<u8> = fam.iter().flat_map(|&x| [x, x ^ 0x80, x ^ 0x40, x ^ 0x01]).chain([5u8, 200]).collect();
  probes.sort();
  probes.dedup();
  let baseline: Vec<Option<[u8; 32]>> = probes.iter().map(|&t| server.eval(&point, t, false).ok().map(|e| *e.output.as_bytes())).collect();
  if baseline.iter().any(|b| b.is_none()) {
    cx.viol("C14/refuses-live-tag", "a fresh server refuses a registered tag", json!({}));
    return;
  }
  let maxlen = if fam.len() <= 4 { fam.len() } else { 3 };
  for_each_seq(fam.len(), maxlen, |seq| {
    let mut d = seq.to_vec();
    d.sort();
    d.dedup();
    if seq.is_empty() || d.len() != seq.len() || !cx.viols.is_empty() {
      return;
    }
    let order: Vec<u8> = seq.iter().map(|&i| fam[i]).collect();
    let mut s = server.clone();
    for &t in &order {
      cx.eval();
      if guard(|| s.puncture(t).is_ok()) != Ok(true) {
        cx.viol("C14/puncture-refused", format!("puncturing tag {} (never punctured before) failed in the order {:?}", t, order), json!({"punctured_in_order": order, "tag": t}));
        return;
      }
    }
    cx.count("states", 1);
    cx.count("transitions", order.len() as u64);
    cx.nontrivial(fnv(&order));
    for (pi, &t) in probes.iter().enumerate() {
      cx.eval();
      let got = guard(|| s.eval(&point, t, false).ok().map(|e| *e.output.as_bytes()));
      let should = !order.contains(&t);
      match got {
        Ok(Some(v)) if should && Some(v) == baseline[pi] => {}
        Ok(None) if !should => {}
        Ok(Some(_)) if !should => {
          cx.viol("C14/answers-punctured-tag/puncture-order", format!("after puncturing {:?} in this order the server still answers for the punctured tag {}", order, t), json!({"punctured_in_order": order, "tag": t}));
          return;
        }
        Ok(None) => {
          cx.viol("C14/refuses-live-tag/puncture-order", format!("after puncturing {:?} in this order the server refuses tag {}, which was never punctured", order, t), json!({"punctured_in_order": order, "tag": t}));
          return;
        }
        Ok(Some(_)) => {
          cx.viol("C14/answer-changed/puncture-order", format!("after puncturing {:?} the answer for tag {} changed", order, t), json!({"punctured_in_order": order, "tag": t}));
          return;
        }
        Err(p) => {
          cx.viol("C14/eval-panicked", p, json!({"punctured_in_order": order}));
          return;
        }
      }
    }
    // a second puncture of the last tag is refused
    if let Some(&last) = order.last() {
      if guard(|| s.puncture(last).is_ok()) == Ok(true) {
        cx.viol("C14/double-puncture-accepted", format!("tag {} was punctured twice without error", last), json!({"punctured_in_order": order}));
      }
    }
    cx.count("orders_checked", 1);
  });
  cx.outcome("every order");
}

/// the tag list handed to Server::new in the shapes callers produce (unsorted, descending, with repeats):
/// exactly the listed tags answer, before and after punctures
fn run_tag_list_shapes(cx: &mut CaseCx, case: &Value) {
  let lists: Vec<Vec<u8>> = vec![vec![3, 1, 2], vec![3, 2, 1, 0], vec![0, 1, 1, 2, 3], vec![255, 0, 128], vec![5, 5], vec![200, 100, 150, 50, 250], (0..=255u8).rev().collect(), vec![1, 0, 1], vec![9]];
  let li = case["list"].as_u64().unwrap() as usize % lists.len();
  let tags = lists[li].clone();
  cx.entropy(60 + li as u64);
  let server = match guard(|| pp::Server::new(tags.clone())) {
    Ok(Ok(s)) => s,
    _ => {
      cx.count("server_refused_tag_list", 1);
      return;
    }
  };
  let point = pp::Client::blind(b"tag list").0;
  let mut punct: Vec<u8> = vec![];
  let steps: Vec<Option<u8>> = vec![None, Some(tags[0]), Some(*tags.last().unwrap()), Some(tags[tags.len() / 2]), Some(77)];
  let mut s = server.clone();
  for step in steps {
    if let Some(t) = step {
      if !punct.contains(&t) {
        if guard(|| s.puncture(t).is_ok()) != Ok(true) {
          cx.viol("C14/puncture-refused", format!("puncturing tag {} (never punctured) failed on a server created with {:?}", t, tags), json!({"tag_list": tags, "tag": t}));
          return;
        }
        punct.push(t);
      }
    }
    for t in 0..=255u8 {
      if tags.len() > 16 && !(t < 3 || t > 252 || (126..=129).contains(&t)) {
        continue;
      }
      cx.eval();
      let should = tags.contains(&t) && !punct.contains(&t);
      match guard(|| s.eval(&point, t, false).is_ok()) {
        Ok(a) if a == should => cx.count("tag_answers_as_listed", 1),
        Ok(a) => {
          cx.viol(if a { "C14/answers-unregistered-tag/tag-list" } else { "C14/refuses-live-tag/tag-list" }, format!("server created with the tag list {:?} (punctured so far: {:?}) {} tag {}", tags, punct, if a { "answers for" } else { "refuses" }, t), json!({"tag_list": tags, "punctured": punct, "tag": t}));
          return;
        }
        Err(p) => cx.viol("C14/eval-panicked", p, json!({"tag_list": tags})),
      }
    }
    cx.count("states", 1);
    cx.count("transitions", 1);
  }
  cx.nontrivial(li as u64);
  cx.outcome("tag list shapes");
}


/// MANY requests on ONE server object: 1200 evaluations (every 5th verifiable, tags in rotation incl. punctured
/// and unregistered ones) with a puncture every 300 - every answer per the model and with the original value
fn run_many_requests(cx: &mut CaseCx, _case: &Value) {
  let b = setup(cx);
  let mut inst = Inst { s: b.initial.clone(), punct: BTreeSet::new() };
  let mut n = 0u64;
  for round in 0..4usize {
    for i in 0..300usize {
      let ti = (i * 5 + round) % TAGS.len();
      let t = TAGS[ti];
      let pi = i % b.points.len();
      let verifiable = i % 5 == 0;
      n += 1;
      cx.eval();
      let got = guard(|| inst.s.eval(&b.points[pi], t, verifiable));
      let should = REGISTERED.contains(&t) && !inst.punct.contains(&t);
      match got {
        Ok(Ok(ev)) if should => {
          if Some(*ev.output.as_bytes()) != b.baseline[ti][pi] {
            cx.viol("C14/many-requests/answer-changed", format!("request number {} on one server object (tag {}): the answer differs from the original server's", n, t), json!({"request_number": n, "tag": t, "punctured": inst.punct}));
            return;
          }
          if verifiable && guard(|| pp::Client::verify(&b.pk, &b.points[pi], &ev, t)) != Ok(true) {
            cx.viol("C14/many-requests/proof-does-not-verify", format!("request number {} on one server object (tag {}): the proof does not verify against the original public key", n, t), json!({"request_number": n, "tag": t}));
            return;
          }
        }
        Ok(Err(_)) if !should => {}
        Ok(r) => {
          cx.viol(if r.is_ok() { "C14/many-requests/answers-against-model" } else { "C14/many-requests/refuses-live-tag" }, format!("request number {} on one server object: tag {} is {} but the server {}", n, t, if should { "registered and unpunctured" } else { "punctured or unregistered" }, if r.is_ok() { "answers" } else { "refuses" }), json!({"request_number": n, "tag": t, "punctured": inst.punct}));
          return;
        }
        Err(p) => {
          cx.viol("C14/eval-panicked", p, json!({"request_number": n}));
          return;
        }
      }
    }
    let t = [2u8, 128, 255, 0][round];
    if inst.s.puncture(t).is_ok() {
      inst.punct.insert(t);
    }
    check_instance(cx, 0, &inst, &b, &[]);
    cx.count("states", 1);
    cx.count("transitions", 301);
  }
  cx.count("requests_on_one_server", n);
  cx.nontrivial(1);
  cx.outcome("many requests");
}

/// replay of one recorded history (also used as the "plain unit test" form of a counterexample)
fn run_history(cx: &mut CaseCx, case: &Value) {
  let path: Vec<Act> = serde_json::from_value(case["history"].clone()).unwrap();
  let b = setup(cx);
  let mut st = St { inst: vec![Inst { s: b.initial.clone(), punct: BTreeSet::new() }], path: vec![], touched: vec![0] };
  visit(&st, &b, cx);
  for a in &path {
    cx.count("transitions", 1);
    interleaved_probe(&st, a, &b, cx);
    if let Some(mut n) = step(&st, a, cx) {
      n.touched = (0..n.inst.len()).collect();
      visit(&n, &b, cx);
      st = n;
    }
    cx.count("states", 1);
  }
  cx.nontrivial(fnv_str(&case.to_string()));
  cx.outcome("history replayed");
}

fn fixed_histories() -> Vec<Vec<Act>> {
  use Act::*;
  vec![
    // end_to_end_puncture extended: puncture, sync to follower twice, follower must follow
    vec![Clone(0), Puncture(0, 1), Sync(0, 1), Puncture(0, 0), Sync(0, 1), Puncture(1, 2), Sync(1, 0)],
    // export, diverge, re-import the OLD state into the newer instance (state goes back to the exporter's)
    vec![ExportImportFresh(0), Puncture(0, 0), Puncture(0, 2), Puncture(0, 6), Sync(0, 1), Puncture(1, 255), Clone(1), Puncture(2, 1), Sync(2, 0)],
    // puncture everything, also unregistered and extreme tags, then clone and export
    vec![Puncture(0, 3), Puncture(0, 254), Puncture(0, 0), Puncture(0, 255), Puncture(0, 1), Puncture(0, 2), Puncture(0, 6), Clone(0), ExportImportFresh(0)],
    // second puncture in the same half of the tree, then check survivors
    vec![Puncture(0, 0), Puncture(0, 2), Clone(0), Puncture(1, 254), Puncture(1, 6), Sync(1, 0)],
    vec![Puncture(0, 255), Puncture(0, 3), Puncture(0, 1), ExportImportFresh(0), Puncture(1, 254), Puncture(1, 6), Puncture(1, 2), Puncture(1, 0)],
    // deepest-level siblings in both orders, on two instances, then sync
    vec![Clone(0), Puncture(0, 128), Puncture(0, 0), Puncture(1, 0), Puncture(1, 128), Sync(0, 1), Puncture(1, 254), ExportImportFresh(1)],
  ]
}

pub fn spec() -> PropSpec {
  PropSpec {
    id: "C14",
    level: "model_checking",
    assumptions: vec![
      "evaluations do not change server state (checked: they are part of the invariant, evaluated in every state), so the action alphabet is {puncture(i, tag), clone(i), export+import into a fresh instance, export(i)+import into existing instance j}; up to 3 instances; tags {0,1,2,6,128,255} registered, {3,254} unregistered (0/128 are deepest-level siblings)",
      "reference model: (registered set, punctured set per instance); outputs compared with the answers of the original server, proofs verified against the original public key",
      "history depth bounded (quick 3, thorough 5) plus fixed longer histories; proofs use fresh entropy per request (scripted stream), only their verification result is observed",
    ],
    thorough_budget_s: 2400,
    checks: vec![
      Check {
        name: "histories-bfs",
        rule: "explicit-state BFS: state = up to 3 real Server instances + model; every enabled action executed on the real objects (refused double punctures included); digest = per-instance punctured sets in instance order, merge check on observable + canonical exported key material; invariant in every state and for every instance: eval answers iff registered and unpunctured in that key's history, answers equal the original server's, public key unchanged; for the instance touched by the action: verifiable answers verify against the original public key and export-now/import-into-fresh gives an indistinguishable server that re-exports the same bytes; for EVERY transition and every tag: evaluate the tag on the instance right before the action and first thing after it (evaluations must not leave state behind); for the touched instance and every other instance: evaluate a tag on one and immediately on the other, both ways (clones share nothing)",
        // the build without debug assertions explores one level less (the deep exploration is done once, in the
        // build that has the library's own assertions on)
        gen: |tier| vec![json!({"depth": (if tier.thorough() { 7 } else { 5 }) - if cfg!(debug_assertions) { 0 } else { 1 }})],
        run: run_bfs,
        min_counts: &[("states", 1000), ("refused_double_punctures", 100), ("export_import_checks", 500), ("merges", 100), ("traces_validated", 4), ("interleaved_probes", 10_000)],
      },
      Check {
        name: "stateright-crosscheck",
        rule: "second engine: stateright 0.31 BFS (single thread, target_max_depth) over the same real step function and invariant; verdict and unique-state count must equal the harness BFS at the same depth (engine disagreement = machinery error)",
        gen: |tier| vec![json!({"depth": if tier.thorough() { 4 } else { 3 }})],
        run: super::sr::run_c14,
        min_counts: &[("engine_agreements", 1)],
      },
      Check {
        name: "concurrent-evaluations (supplementary)",
        rule: "SUPPLEMENTARY, schedules free-running: six threads evaluate all tags on a punctured server and on an unpunctured clone of the same key at the same time (6 rounds x 20 sweeps): every answer per the instance's own model",
        gen: |_| vec![json!({})],
        run: run_concurrent_eval,
        min_counts: &[("concurrent_rounds", 6)],
      },
      Check {
        name: "object-reuse",
        rule: "standby.clone_from(&primary) for every primary history (all ordered puncture sequences of length <= 2 over the 8 tags: 65) and 17 standbys (same key with fewer / more / all punctures, another key fresh / punctured / with other tags, a restored copy): the overwritten standby satisfies the full invariant of the PRIMARY's history (answers, original values, public key, proofs, export/import), exports the primary's key state, and after every one-step continuation equals primary.clone() after the same step; the primary is unaffected",
        gen: |_| (0..65u64).map(|i| json!({"src": i})).collect(),
        run: run_object_reuse,
        min_counts: &[("states", 3000)],
      },
      Check {
        name: "puncture-orders",
        rule: "8 tag families that share low-order bits at several tree levels ({0,64,128,192}, {1,65,129,193}, the eight multiples of 32, {0..3}, {252..255}, {85,170,21,42}, {0,128,1,129}, {63,127,191,255}) on a server with all 256 tags: EVERY ordered sequence of distinct punctures (all of them for 4-tag families, length <= 3 for the 8-tag family): every tag of the family and its x^0x80, x^0x40, x^0x01 neighbours answers iff it was not punctured, with the original value; a second puncture is refused",
        gen: |_| (0..8u64).map(|f| json!({"family": f})).collect(),
        run: run_puncture_orders,
        min_counts: &[("orders_checked", 800)],
      },
      Check {
        name: "tag-list-shapes",
        rule: "Server::new with 9 tag lists as callers produce them (unsorted, descending, repeats, one tag, the full space reversed): in the initial state and after puncturing the first, last, middle listed tag and an unlisted one, exactly the listed unpunctured tags answer (all 256 tags probed; extremes and middle for the full list)",
        gen: |_| (0..9u64).map(|l| json!({"list": l})).collect(),
        run: run_tag_list_shapes,
        min_counts: &[("tag_answers_as_listed", 5000)],
      },
      Check {
        name: "many-requests",
        rule: "ONE server object through 1200 requests (tags in rotation incl. punctured and unregistered ones, three probe points, every 5th with a proof) with a puncture after every 300: every answer per the model, equal to the original server's, proofs verify against the original key (counters, pools or caches that wrap or run out after hundreds of calls)",
        gen: |_| vec![json!({})],
        run: run_many_requests,
        min_counts: &[("requests_on_one_server", 1200)],
      },
      Check {
        name: "fixed-histories",
        rule: "6 longer hand-written histories (follower re-syncing repeatedly, re-import of an older state, puncturing every tag incl. unregistered and extreme ones, two punctures in one half of the tree): full invariant on every instance after every step",
        gen: |_| fixed_histories().into_iter().map(|h| json!({"history": serde_json::to_value(h).unwrap()})).collect(),
        run: run_history,
        min_counts: &[("states", 30)],
      },
    ],
  }
}
