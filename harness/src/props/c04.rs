//! C04 — tags and keys are a function of exactly (measurement, epoch, threshold).
use crate::mc::*;
use crate::sut::*;
use num_bigint::BigUint;
use serde_json::{json, Value};
use sta_rs::{MessageGenerator, SingleMeasurement};
use std::collections::HashMap;

fn thresholds_all() -> Vec<u32> {
  vec![0, 1, 2, 3, 256, 257, 65536, 65537, 65538, 1 << 31, (1 << 31) + 2, u32::MAX - 1, u32::MAX]
}
fn strings(thorough: bool) -> Vec<Vec<u8>> {
  let alpha = [b'a', b'b', 0u8];
  let mut v: Vec<Vec<u8>> = vec![vec![]];
  let _ = thorough;
  let maxlen = 3;
  let mut cur: Vec<Vec<u8>> = vec![vec![]];
  for _ in 0..maxlen {
    let mut next = vec![];
    for s in &cur {
      for &c in &alpha {
        let mut t = s.clone();
        t.push(c);
        next.push(t);
      }
    }
    v.extend(next.iter().cloned());
    cur = next;
  }
  // 4-byte little-endian encodings of thresholds: epoch bytes that can impersonate the threshold field
  for t in [1u32, 2, 3, 256, 65538, u32::MAX] {
    v.push(t.to_le_bytes().to_vec());
  }
  // long strings that share long prefixes / suffixes (a derivation that truncates or windows its input)
  for &l in &[15usize, 16, 17, 31, 32, 33, 40, 64, 65, 165, 166, 167, 200] {
    let base = prbytes(40_000 + l as u64, l);
    v.push(base.clone());
    let mut a = base.clone();
    a[l - 1] ^= 1;
    v.push(a);
    let mut b = base.clone();
    b[0] ^= 1;
    v.push(b);
    let mut c = base.clone();
    c.push(0);
    v.push(c);
  }
  // inputs equal to the labels the derivations use internally (an input that aliases a domain separator)
  for l in ["star_sample_local", "star_derive_randoms", "star_derive_ske_key", "star_encrypt", "adss encrypt", "random coins"] {
    v.push(l.as_bytes().to_vec());
  }
  v.sort();
  v.dedup();
  v
}

fn rnd_of(m: &[u8], e: &[u8], t: u32) -> [u8; 32] {
  local_randomness(m, e, t)
}

/// injectivity of (m,e,t) -> randomness over the whole family, decided with a hash map (= all pairs)
fn run_injective_rnd(cx: &mut CaseCx, _case: &Value) {
  let ss = strings(cx.tier.thorough());
  let ts = thresholds_all();
  let mut triples: Vec<(usize, usize, u32)> = vec![];
  for m in 0..ss.len() {
    for e in 0..ss.len() {
      for &t in &ts {
        triples.push((m, e, t));
      }
    }
  }
  let vals = par_map(&triples, |_, &(m, e, t)| rnd_of(&ss[m], &ss[e], t));
  let mut map: HashMap<[u8; 32], usize> = HashMap::with_capacity(vals.len());
  for (i, v) in vals.iter().enumerate() {
    cx.eval();
    cx.nontrivial(i as u64);
    if let Some(&j) = map.get(v) {
      let (a, b) = (triples[j], triples[i]);
      let which = if a.0 != b.0 && a.1 == b.1 && a.2 == b.2 {
        "measurement"
      } else if a.0 == b.0 && a.1 != b.1 && a.2 == b.2 {
        "epoch"
      } else if a.0 == b.0 && a.1 == b.1 {
        "threshold"
      } else {
        "boundary"
      };
      cx.viol(
        format!("C04/randomness-collision/{}", which),
        format!("two different (measurement, epoch, threshold) triples obtain the same local randomness (they differ in: {})", which),
        json!({"m1": hexs(&ss[a.0]), "e1": hexs(&ss[a.1]), "t1": a.2, "m2": hexs(&ss[b.0]), "e2": hexs(&ss[b.1]), "t2": b.2}),
      );
    } else {
      map.insert(*v, i);
    }
  }
  // concatenation-equal pairs are in the family by construction: count them as a vacuity guard
  let mut concat: HashMap<(Vec<u8>, u32), u32> = HashMap::new();
  for &(m, e, t) in &triples {
    let mut c = ss[m].clone();
    c.extend_from_slice(&ss[e]);
    *concat.entry((c, t)).or_insert(0) += 1;
  }
  cx.count("boundary_shifted_groups", concat.values().filter(|&&n| n > 1).count() as u64);
  cx.outcome(format!("{} triples, {} distinct randomness values", triples.len(), map.len()));
  cx.sample(json!({"triples": triples.len(), "distinct_randomness": map.len(), "strings": ss.len(), "thresholds": ts}));
}

/// tags and keys: injective over the family with sharable thresholds; deterministic across clients and aux
fn run_tags_keys(cx: &mut CaseCx, case: &Value) {
  let ss = strings(cx.tier.thorough());
  let ts: Vec<u32> = case["ts"].as_array().unwrap().iter().map(|v| v.as_u64().unwrap() as u32).collect();
  let stride = case["stride"].as_u64().unwrap_or(1) as usize;
  let mut triples: Vec<(usize, usize, u32)> = vec![];
  for m in 0..ss.len() {
    for e in 0..ss.len() {
      if (m * 31 + e) % stride != 0 {
        continue;
      }
      for &t in &ts {
        triples.push((m, e, t));
      }
    }
  }
  let seed = cx.seed;
  let vals = par_map(&triples, |i, &(m, e, t)| {
    getrandom::verif::reset(seed ^ fnv_str("c04tags") ^ i as u64);
    let mg = MessageGenerator::new(SingleMeasurement::new(&ss[m]), t, &ss[e]);
    guard(|| mg.share_with_local_randomness().map(|w| (w.key, w.tag, w.share.to_bytes())).map_err(|e| e.to_string()))
  });
  let mut tags: HashMap<[u8; 32], usize> = HashMap::new();
  let mut keys: HashMap<[u8; 16], usize> = HashMap::new();
  for (i, v) in vals.iter().enumerate() {
    cx.eval();
    cx.nontrivial(fnv_str(&format!("{:?}", triples[i])));
    let (key, tag, share) = match v {
      Ok(Ok(x)) => x,
      other => {
        cx.viol("C04/share-failed", format!("share_with_local_randomness failed: {:?}", other.as_ref().map(|r| r.as_ref().map(|_| ()))), json!({"triple": format!("{:?}", triples[i])}));
        continue;
      }
    };
    let d = |j: usize| {
      let (a, b) = (triples[j], triples[i]);
      json!({"m1": hexs(&ss[a.0]), "e1": hexs(&ss[a.1]), "t1": a.2, "m2": hexs(&ss[b.0]), "e2": hexs(&ss[b.1]), "t2": b.2})
    };
    if let Some(&j) = tags.get(tag) {
      cx.viol("C04/tag-collision", "two different (measurement, epoch, threshold) triples obtain the same tag", d(j));
    } else {
      tags.insert(*tag, i);
    }
    if let Some(&j) = keys.get(key) {
      cx.viol("C04/key-collision", "two different (measurement, epoch, threshold) triples obtain the same encryption key", d(j));
    } else {
      keys.insert(*key, i);
    }
    // the threshold recorded in the share is the client's threshold
    if share.len() >= 4 && u32::from_le_bytes(share[..4].try_into().unwrap()) != triples[i].2 {
      cx.viol("C04/share-threshold-field", format!("share carries threshold {} but the client used {}", u32::from_le_bytes(share[..4].try_into().unwrap()), triples[i].2), d(i));
    }
  }
  cx.outcome(format!("ts={:?}", ts));
  cx.sample(json!({"triples": triples.len(), "distinct_tags": tags.len(), "distinct_keys": keys.len()}));
}

/// determinism across independent clients and associated data; share points distinct and combinable
fn run_clients(cx: &mut CaseCx, case: &Value) {
  let ss = strings(true);
  let m = &ss[case["m"].as_u64().unwrap() as usize % ss.len()];
  let e = &ss[case["e"].as_u64().unwrap() as usize % ss.len()];
  let t = case["t"].as_u64().unwrap() as u32;
  let auxa = aux_alphabet();
  let n = (t as usize + 1).max(3);
  let mut tag0: Option<Vec<u8>> = None;
  let mut key0: Option<[u8; 16]> = None;
  let mut msgs = vec![];
  let mut xs: Vec<BigUint> = vec![];
  for i in 0..n {
    // an independent client: its own generator objects, its own entropy group
    getrandom::verif::set_group(i as u32 + 1);
    let mg = MessageGenerator::new(SingleMeasurement::new(m), t, e);
    let w = match guard(|| mg.share_with_local_randomness().map_err(|e| e.to_string())) {
      Ok(Ok(w)) => w,
      other => {
        cx.viol("C04/share-failed", format!("{:?}", other.map(|r| r.map(|_| ()))), json!({}));
        return;
      }
    };
    let rnd = local_randomness(m, e, t);
    for aux in &auxa {
      cx.eval();
      let msg = match gen_report(m, e, t, &rnd, aux) {
        Ok(x) => x,
        Err(err) => {
          cx.viol("C04/generate-failed", err, json!({}));
          return;
        }
      };
      if msg.tag != w.tag.to_vec() {
        cx.viol("C04/tag-differs-generate-vs-share", "Message::generate and share_with_local_randomness give different tags for one client", json!({"client": i}));
      }
      match &tag0 {
        None => tag0 = Some(msg.tag.clone()),
        Some(t0) => {
          if *t0 != msg.tag {
            cx.viol("C04/tag-not-deterministic", "clients agreeing on (measurement, epoch, threshold) produce different tags (or the tag depends on the associated data)", json!({"client": i, "aux_len": aux.as_ref().map(|a| a.len())}));
          }
        }
      }
      if aux.is_none() {
        xs.push(share_x(&msg.share.to_bytes()).unwrap_or_default());
        msgs.push(msg);
      }
    }
    match &key0 {
      None => key0 = Some(w.key),
      Some(k0) => {
        if *k0 != w.key {
          cx.viol("C04/key-not-deterministic", "clients agreeing on (measurement, epoch, threshold) derive different encryption keys", json!({"client": i}));
        }
      }
    }
    xs.push(share_x(&w.share.to_bytes()).unwrap_or_default());
  }
  // every share has its own evaluation point
  let mut sorted = xs.clone();
  sorted.sort();
  sorted.dedup();
  cx.eval();
  if sorted.len() != xs.len() {
    cx.viol("C04/share-points-not-distinct", format!("{} shares of independent clients (fresh entropy each) use only {} distinct evaluation points", xs.len(), sorted.len()), json!({"xs": xs.iter().map(|x| x.to_string()).collect::<Vec<_>>()}));
  }
  // mutually combinable: every t-subset of the clients' reports recovers one and the same message that opens the key
  if t >= 1 && (t as usize) <= msgs.len() {
    let mut rec0: Option<Vec<u8>> = None;
    for_each_subset(msgs.len(), t as usize, |sel| {
      let shares: Vec<sta_rs::Share> = sel.iter().map(|&i| msgs[i].share.clone()).collect();
      cx.eval();
      match recover_msg(&shares) {
        Ok(Ok(mm)) => {
          let mut k = vec![0u8; 16];
          sta_rs::derive_ske_key(&mm, e, &mut k);
          if Some(&k[..]) != key0.as_ref().map(|k| &k[..]) {
            cx.viol("C04/recovered-key-differs", "the key derived from the recovered message differs from the clients' key", json!({"sel": sel}));
          }
          if let Some(r) = &rec0 {
            if *r != mm {
              cx.viol("C04/not-combinable", "different t-subsets of the clients' shares recover different messages", json!({"sel": sel}));
            }
          }
          rec0 = Some(mm);
          cx.count("combinable_subsets", 1);
        }
        other => cx.viol("C04/not-combinable", format!("t shares of independent clients do not combine: {:?}", other), json!({"sel": sel})),
      }
    });
  }
  cx.nontrivial(fnv_str(&case.to_string()));
  cx.outcome(format!("t={}", t));
  cx.sample(json!({"t": t, "clients": n, "distinct_points": sorted.len()}));
}

/// the evaluation point is a function of the client's entropy alone - and of all of it
fn run_point_entropy(cx: &mut CaseCx, case: &Value) {
  let ss = strings(true);
  let t = case["t"].as_u64().unwrap() as u32;
  let (m1, e1) = (&ss[3], &ss[5]);
  let (m2, e2) = (&ss[20], &ss[1]);
  let mut base = prbytes(0xE47 + t as u64, 24);
  base[16] &= 0xfe; // candidate < 2^128 < p: always accepted by a sampler that masks to 129 bits
  let point = |m: &Vec<u8>, e: &Vec<u8>, tt: u32, script: &[u8]| -> Option<(BigUint, usize)> {
    getrandom::verif::set_script(script);
    let before = getrandom::verif::total_bytes();
    let r = gen_report(m, e, tt, &local_randomness(m, e, tt), &None).ok()?;
    let used = (getrandom::verif::total_bytes() - before) as usize;
    getrandom::verif::clear_script();
    Some((share_x(&r.share.to_bytes())?, used))
  };
  let (x0, used) = match point(m1, e1, t, &base) {
    Some(v) => v,
    None => return,
  };
  cx.count("entropy_bytes_per_share_point", used as u64);
  // same entropy, different triple => same point (the point depends on nothing else)
  cx.eval();
  if let Some((x1, _)) = point(m2, e2, t + 1, &base) {
    if x1 != x0 {
      cx.viol("C04/share-point-depends-on-inputs", "with identical entropy, clients of different (measurement, epoch, threshold) obtain different evaluation points: the point is not a function of the client's entropy alone", json!({"x1": x0.to_string(), "x2": x1.to_string()}));
    } else {
      cx.count("replayed_entropy_gives_same_point", 1);
    }
  }
  // different entropy (one bit flipped in any of the first 16 bytes) => different point
  let mut seen: HashMap<BigUint, String> = HashMap::new();
  seen.insert(x0.clone(), "base".into());
  for byte in 0..16 {
    for bit in [0x01u8, 0x10, 0x80] {
      let mut b = base.clone();
      b[byte] ^= bit;
      cx.eval();
      cx.nontrivial(fnv_str(&format!("{}|{}|{}", t, byte, bit)));
      if let Some((x, _)) = point(m1, e1, t, &b) {
        if let Some(prev) = seen.insert(x.clone(), format!("byte {} ^ {:#04x}", byte, bit)) {
          cx.viol(
            "C04/share-point-ignores-entropy",
            format!("two clients whose OS entropy differs (byte {} ^ {:#04x} vs {}) obtain the SAME evaluation point: the point does not use at least 128 bits of the entropy it is given, so shares are not pairwise distinct", byte, bit, prev),
            json!({"byte": byte, "bit": bit, "x": x.to_string(), "entropy_bytes_consumed": used}),
          );
        }
      }
    }
  }
  cx.outcome(format!("{} distinct points from {} entropy variants", seen.len(), 49));
  cx.sample(json!({"t": t, "entropy_bytes_consumed": used, "distinct_points": seen.len()}));
}


/// one generator object whose (public) measurement field is reassigned between calls behaves like a fresh client
fn run_generator_reuse(cx: &mut CaseCx, _case: &Value) {
  let ss = strings(true);
  for t in [1u32, 2, 3] {
    for (i, a) in ss.iter().enumerate().take(40) {
      let b = &ss[(i * 7 + 3) % ss.len()];
      let e = &ss[(i * 5 + 1) % ss.len()];
      if a == b {
        continue;
      }
      cx.eval();
      cx.nontrivial(fnv_str(&format!("{}|{}", t, i)));
      let mut mg = MessageGenerator::new(SingleMeasurement::new(a), t, e);
      let mut r1 = [0u8; 32];
      mg.sample_local_randomness(&mut r1);
      let w1 = mg.share_with_local_randomness().map(|w| (w.key, w.tag)).ok();
      // history: the same object now reports another measurement
      mg.x = SingleMeasurement::new(b);
      let mut r2 = [0u8; 32];
      mg.sample_local_randomness(&mut r2);
      let w2 = mg.share_with_local_randomness().map(|w| (w.key, w.tag)).ok();
      let fresh = MessageGenerator::new(SingleMeasurement::new(b), t, e);
      let mut rf = [0u8; 32];
      fresh.sample_local_randomness(&mut rf);
      let wf = fresh.share_with_local_randomness().map(|w| (w.key, w.tag)).ok();
      let d = || json!({"first_measurement": hexs(a), "second_measurement": hexs(b), "epoch": hexs(e), "t": t});
      if r1 != rnd_of(a, e, t) {
        cx.viol("C04/generator-history", "randomness of a generator differs from an independent client's", d());
      }
      if r2 != rf || w2 != wf {
        cx.viol("C04/generator-history", "after its measurement was reassigned, a generator still derives the randomness / tag / key of its EARLIER measurement: it disagrees with an independent client of the new measurement", d());
      }
      if w1 == w2 && w1.is_some() {
        cx.viol("C04/generator-history", "two different measurements on one generator object give equal tags and keys", d());
      }
      cx.count("reuse_checked", 1);
    }
  }
  cx.outcome("generator reuse");
}


/// independent clients on SEPARATE freshly spawned threads (each with its own OS entropy stream)
fn run_threads(cx: &mut CaseCx, case: &Value) {
  let t = case["t"].as_u64().unwrap() as u32;
  let m = b"threaded measurement".to_vec();
  let e = b"e".to_vec();
  let nthreads = 4usize;
  let seed = cx.seed ^ cx.case_key;
  let per_thread = 3usize;
  let results: Vec<Vec<(Vec<u8>, Vec<u8>, [u8; 16])>> = std::thread::scope(|s| {
    let hs: Vec<_> = (0..nthreads)
      .map(|k| {
        let (m, e) = (m.clone(), e.clone());
        s.spawn(move || {
          // each client thread has its own entropy stream, as independent machines would
          getrandom::verif::reset(seed ^ (0x7EAD + k as u64 * 0x1_0001));
          let mut out = vec![];
          for _ in 0..per_thread {
            let mg = MessageGenerator::new(SingleMeasurement::new(&m), t, &e);
            if let Ok(w) = mg.share_with_local_randomness() {
              out.push((w.share.to_bytes(), w.tag.to_vec(), w.key));
            }
          }
          out
        })
      })
      .collect();
    hs.into_iter().map(|h| h.join().unwrap_or_default()).collect()
  });
  let all: Vec<&(Vec<u8>, Vec<u8>, [u8; 16])> = results.iter().flatten().collect();
  cx.eval();
  cx.nontrivial(fnv_str(&case.to_string()));
  if all.len() != nthreads * per_thread {
    cx.viol("C04/share-failed", "a client thread failed to produce its shares", json!({"t": t}));
    return;
  }
  let xs: Vec<BigUint> = all.iter().filter_map(|a| share_x(&a.0)).collect();
  let mut sx = xs.clone();
  sx.sort();
  sx.dedup();
  if sx.len() != xs.len() {
    let dup = (0..xs.len()).find(|&i| xs[..i].contains(&xs[i])).unwrap();
    cx.viol("C04/share-points-not-distinct", format!("clients on different threads (independent entropy) produced the same evaluation point: share #{} (thread {}, call {}) equals an earlier one", dup, dup / per_thread, dup % per_thread), json!({"t": t, "threads": nthreads, "calls_per_thread": per_thread}));
  }
  if all.iter().any(|a| a.1 != all[0].1 || a.2 != all[0].2) {
    cx.viol("C04/tag-not-deterministic", "clients on different threads disagree on tag or key", json!({"t": t}));
  }
  // combinable across threads: one share from each of t different threads (round robin)
  if (t as usize) <= nthreads && t >= 1 {
    let shares: Vec<sta_rs::Share> = (0..t as usize).filter_map(|k| sta_rs::Share::from_bytes(&results[k][k % per_thread].0)).collect();
    cx.eval();
    match recover_msg(&shares) {
      Ok(Ok(_)) => cx.count("cross_thread_combinable", 1),
      other => cx.viol("C04/not-combinable", format!("t shares from clients on {} different threads do not combine: {:?}", t, other.map(|r| r.map(|_| ()))), json!({"t": t})),
    }
  }
  cx.outcome("threads");
}



/// byte strings a careless canonicalisation could merge with `s`
pub fn neighbours(s: &[u8]) -> Vec<(String, Vec<u8>)> {
  let mut v: Vec<(String, Vec<u8>)> = vec![];
  for i in 0..s.len().min(12) {
    for bit in 0..8 {
      let mut t = s.to_vec();
      t[i] ^= 1 << bit;
      v.push((format!("bit {} of byte {} flipped", bit, i), t));
    }
  }
  for &c in &[0x00u8, 0x20, 0x09, 0x0a, 0x0d, 0x2f, 0x80, 0xbf, 0xc3, 0xff, b'2'] {
    let mut t = s.to_vec();
    t.push(c);
    v.push((format!("byte {:#04x} appended", c), t));
    let mut t = vec![c];
    t.extend_from_slice(s);
    v.push((format!("byte {:#04x} prepended", c), t));
  }
  if !s.is_empty() {
    v.push(("last byte dropped".into(), s[..s.len() - 1].to_vec()));
    v.push(("first byte dropped".into(), s[1..].to_vec()));
    let mut t = s.to_vec();
    t.reverse();
    v.push(("reversed".into(), t));
    v.push(("doubled".into(), [s, s].concat()));
    // ASCII case folding, UTF-8 BOM, replacement character for the last byte, NFC/NFD forms
    v.push(("ASCII upper-cased".into(), s.to_ascii_uppercase()));
    v.push(("ASCII lower-cased".into(), s.to_ascii_lowercase()));
    v.push(("UTF-8 BOM prepended".into(), [&[0xef, 0xbb, 0xbf][..], s].concat()));
    v.push(("last byte replaced by U+FFFD".into(), [&s[..s.len() - 1], &[0xef, 0xbf, 0xbd][..]].concat()));
    v.push(("lossy UTF-8 conversion".into(), String::from_utf8_lossy(s).as_bytes().to_vec()));
    v.push(("hex-encoded".into(), hex(s).into_bytes()));
  }
  if let Ok(txt) = std::str::from_utf8(s) {
    v.push(("e-acute decomposed".into(), txt.replace('\u{e9}', "e\u{301}").into_bytes()));
    v.push(("e-acute composed".into(), txt.replace("e\u{301}", "\u{e9}").into_bytes()));
    v.push(("trimmed".into(), txt.trim().as_bytes().to_vec()));
  }
  v.retain(|(_, t)| t != s);
  v.sort_by(|a, b| a.1.cmp(&b.1));
  v.dedup_by(|a, b| a.1 == b.1);
  v
}
/// variable-width integer encodings: (name, encode)
fn var_encodings() -> Vec<(&'static str, fn(u32) -> Vec<u8>)> {
  fn leb(mut t: u32) -> Vec<u8> {
    let mut o = vec![];
    loop {
      let b = (t & 0x7f) as u8;
      t >>= 7;
      if t == 0 {
        o.push(b);
        return o;
      }
      o.push(b | 0x80);
    }
  }
  fn dec(t: u32) -> Vec<u8> {
    t.to_string().into_bytes()
  }
  fn min_le(t: u32) -> Vec<u8> {
    let mut b = t.to_le_bytes().to_vec();
    while b.len() > 1 && *b.last().unwrap() == 0 {
      b.pop();
    }
    b
  }
  fn min_be(t: u32) -> Vec<u8> {
    let b = t.to_be_bytes();
    let k = b.iter().position(|&x| x != 0).unwrap_or(3);
    b[k..].to_vec()
  }
  fn hexa(t: u32) -> Vec<u8> {
    format!("{:x}", t).into_bytes()
  }
  vec![("LEB128", leb), ("decimal", dec), ("minimal little-endian", min_le), ("minimal big-endian", min_be), ("hexadecimal", hexa)]
}


/// pairs (epoch || prefix, t1) / (epoch, t2) with prefix || enc(t1) == enc(t2) for variable-width encodings
pub fn framing_pairs() -> Vec<((Vec<u8>, u32), (Vec<u8>, u32), String)> {
  let mut out = vec![];
  for (ename, enc) in var_encodings() {
    for t2 in [12u32, 120, 127, 128, 129, 255, 256, 300, 1000, 1234, 16383, 16384] {
      let full = enc(t2);
      for k in 1..full.len() {
        for t1 in [1u32, 2, 3, 4, 5, 7, 8, 9, 12, 16, 20, 23, 34, 100, 127, 128, 234, 256, 300, 512, 1000] {
          if enc(t1) == full[k..] && t1 != t2 {
            for base in [b"wk".to_vec(), b"1".to_vec(), vec![]] {
              let e1 = [&base[..], &full[..k]].concat();
              out.push(((e1, t1), (base.clone(), t2), format!("epoch || {}(threshold) splits two ways", ename)));
            }
          }
        }
      }
    }
  }
  out
}

/// Distinctness under everything a canonicalisation or a variable-width framing could merge: for each base
/// triple, every neighbour of the measurement, of the epoch, and every (epoch || prefix, t1) / (epoch, t2)
/// pair in which prefix || enc(t1) == enc(t2) for a variable-width integer encoding.
fn run_neighbours(cx: &mut CaseCx, _case: &Value) {
  let bases: Vec<Vec<u8>> = vec![
    b"epoch".to_vec(),
    b"2026-09".to_vec(),
    b"wk".to_vec(),
    "caf\u{e9}".as_bytes().to_vec(),
    b" t ".to_vec(),
    vec![0x80],
    vec![0xff, 0xfe],
    vec![0, 0, 0, 254],
    vec![0xc3, 0x28],
    vec![b'a', 0xe2, 0x82],
    vec![],
  ];
  let mut pairs: Vec<((Vec<u8>, Vec<u8>, u32), (Vec<u8>, Vec<u8>, u32), String)> = vec![];
  let m0 = b"https://example.com/a".to_vec();
  for b in &bases {
    for (how, n) in neighbours(b) {
      for t in [1u32, 3] {
        pairs.push(((m0.clone(), b.clone(), t), (m0.clone(), n.clone(), t), format!("epoch: {}", how)));
        pairs.push(((b.clone(), b"e".to_vec(), t), (n.clone(), b"e".to_vec(), t), format!("measurement: {}", how)));
      }
    }
    // the empty measurement against the other components
    pairs.push(((vec![], b.clone(), 2), (b.clone(), b.clone(), 2), "measurement: empty vs equal to the epoch".into()));
    pairs.push(((vec![], b.clone(), 2), (b.clone(), vec![], 2), "measurement and epoch swapped with an empty one".into()));
    pairs.push(((b.clone(), m0.clone(), 2), (m0.clone(), b.clone(), 2), "measurement and epoch swapped".into()));
  }
  for (ename, enc) in var_encodings() {
    for t2 in [12u32, 120, 127, 128, 129, 255, 256, 300, 1000, 1234, 16383, 16384, 65538, (1 << 21) + 5] {
      let full = enc(t2);
      for k in 1..full.len() {
        // the remainder must itself be the encoding of some t1
        for t1 in [1u32, 2, 3, 4, 5, 7, 8, 9, 12, 16, 20, 23, 34, 100, 127, 128, 234, 256, 300, 512, 1000] {
          if enc(t1) == full[k..] && t1 != t2 {
            for base in [b"wk".to_vec(), b"2026-09".to_vec(), vec![]] {
              let e1 = [&base[..], &full[..k]].concat();
              pairs.push(((m0.clone(), e1, t1), (m0.clone(), base.clone(), t2), format!("epoch || {}(threshold) splits two ways", ename)));
            }
          }
        }
      }
    }
  }
  // LONG inputs that agree on a long prefix (or suffix): an input silently clamped, chunked or sampled at some
  // length N gives equal contexts to every pair that agrees on its first N bytes - one pair with a common prefix
  // of 100000 bytes decides it for every N up to there; the shorter ones name the smallest failing length
  {
    let before = pairs.len();
    for l in [40usize, 64, 128, 166, 167, 200, 256, 512, 1000, 1024, 1500, 2048, 4096, 10_000, 65_536, 100_000] {
      let base = prbytes(0xC04 + l as u64, l);
      let mut last_flipped = base.clone();
      last_flipped[l - 1] ^= 0x01;
      let mut first_flipped = base.clone();
      first_flipped[0] ^= 0x80;
      let mut middle_flipped = base.clone();
      middle_flipped[l / 2] ^= 0x10;
      let longer = [&base[..], &[0u8][..]].concat();
      let longer2 = [&base[..], &base[..7]].concat();
      for (how, other) in [("last byte differs", last_flipped), ("first byte differs", first_flipped), ("middle byte differs", middle_flipped), ("one zero byte appended", longer), ("seven bytes appended", longer2)] {
        for t in [2u32] {
          pairs.push(((base.clone(), b"e".to_vec(), t), (other.clone(), b"e".to_vec(), t), format!("measurement of {} bytes: {}", l, how)));
          pairs.push(((m0.clone(), base.clone(), t), (m0.clone(), other.clone(), t), format!("epoch of {} bytes: {}", l, how)));
        }
      }
    }
    cx.count("long_common_part_pairs", (pairs.len() - before) as u64);
  }
  pairs.retain(|(a, b, _)| a != b);
  cx.count("framing_pairs", pairs.iter().filter(|p| p.2.contains("splits two ways")).count() as u64);
  let _ = framing_pairs;
  let seed = cx.seed;
  let res = par_map(&pairs, |i, (a, b, _)| {
    getrandom::verif::reset(seed ^ fnv_str("c04nb") ^ i as u64);
    let f = |x: &(Vec<u8>, Vec<u8>, u32)| {
      let r = rnd_of(&x.0, &x.1, x.2);
      // the dealer materialises t-1 coefficients: tags and keys only for moderate thresholds
      let w = if x.2 > 20_000 { None } else { guard(|| MessageGenerator::new(SingleMeasurement::new(&x.0), x.2, &x.1).share_with_local_randomness().ok().map(|w| (w.tag, w.key))).ok().flatten() };
      (r, w)
    };
    (f(a), f(b))
  });
  for (i, ((ra, wa), (rb, wb))) in res.iter().enumerate() {
    cx.eval();
    cx.nontrivial(i as u64);
    let (a, b, how) = &pairs[i];
    let d = || json!({"m1": hexs(&a.0), "e1": hexs(&a.1), "t1": a.2, "m2": hexs(&b.0), "e2": hexs(&b.1), "t2": b.2, "relation": how});
    if ra == rb {
      cx.viol("C04/randomness-collision/neighbour", format!("two different (measurement, epoch, threshold) triples obtain the same local randomness ({})", how), d());
    }
    match (wa, wb) {
      (Some(x), Some(y)) => {
        if x.0 == y.0 {
          cx.viol("C04/tag-collision", format!("two different triples obtain the same tag ({})", how), d());
        }
        if x.1 == y.1 {
          cx.viol("C04/key-collision", format!("two different triples obtain the same encryption key ({})", how), d());
        }
      }
      _ if a.2 > 20_000 || b.2 > 20_000 => cx.count("randomness_only_pairs", 1),
      _ => cx.viol("C04/share-failed", "share_with_local_randomness failed", d()),
    }
  }
  cx.outcome(format!("{} neighbour pairs", pairs.len()));
  cx.sample(json!({"pairs": pairs.len(), "bases": bases.len()}));
}

/// out-parameters: the value written must not depend on what the caller's buffer held before
fn run_output_buffers(cx: &mut CaseCx, _case: &Value) {
  let ss = strings(true);
  for (i, m) in ss.iter().enumerate().take(60) {
    let e = &ss[(i * 5 + 1) % ss.len()];
    for t in [1u32, 2, 70000] {
      let mg = MessageGenerator::new(SingleMeasurement::new(m), t, e);
      let clean = rnd_of(m, e, t);
      let mut prev = [0u8; 32];
      mg.sample_local_randomness(&mut prev);
      for (what, fill) in [("0xff bytes", [0xffu8; 32]), ("the previous output", prev), ("another client's output", rnd_of(b"other", e, t)), ("pseudo-random bytes", prbytes(i as u64, 32).try_into().unwrap())] {
        let mut buf = fill;
        mg.sample_local_randomness(&mut buf);
        cx.eval();
        if buf != clean {
          cx.viol("C04/randomness-depends-on-buffer", format!("sample_local_randomness into a buffer that held {} gives another value than into a zeroed buffer: clients with the same triple disagree", what), json!({"m": hexs(m), "e": hexs(e), "t": t, "buffer_held": what}));
          return;
        }
        // the symmetric key derivation writes into a caller buffer as well
        let mut k0 = vec![0u8; 16];
        sta_rs::derive_ske_key(&clean, e, &mut k0);
        let mut k1 = fill[..16].to_vec();
        sta_rs::derive_ske_key(&clean, e, &mut k1);
        cx.eval();
        if k0 != k1 {
          cx.viol("C04/key-depends-on-buffer", format!("derive_ske_key into a buffer that held {} gives another key than into a zeroed buffer", what), json!({"buffer_held": what}));
          return;
        }
        cx.count("buffer_probes", 1);
      }
      cx.nontrivial(fnv_str(&format!("{}|{}", i, t)));
    }
  }
  // a buffer LONGER than 32 bytes (a client that carves the randomness out of a larger arena): refused, or its
  // first 32 bytes are the 32-byte randomness
  for len in [33usize, 48, 64, 100] {
    let (m, e, t) = (b"arena".to_vec(), b"epoch".to_vec(), 2u32);
    let mg = MessageGenerator::new(SingleMeasurement::new(&m), t, &e);
    let want = rnd_of(&m, &e, t);
    let mut buf = vec![0u8; len];
    cx.eval();
    match guard(|| mg.sample_local_randomness(&mut buf)) {
      Ok(()) => {
        if buf[..32] != want {
          cx.viol("C04/randomness-depends-on-buffer-length", format!("sample_local_randomness into a {}-byte buffer is accepted, but its first 32 bytes are not the randomness a client with a 32-byte buffer obtains for the same triple", len), json!({"buffer_len": len}));
          return;
        }
        cx.count("oversized_buffer_consistent", 1);
      }
      Err(_) => cx.count("oversized_buffer_refused", 1),
    }
  }
  cx.outcome("output buffers");
}


/// "mutually combinable" for triples found by boundary search on an internal value: measurements whose 16-byte
/// sharing key has a 0x00 / 0xff boundary byte (or a zero pair) - independent clients' shares must combine,
/// to one and the same message, whose derived key is the clients' key
fn run_boundary_keys(cx: &mut CaseCx, case: &Value) {
  let t = case["t"].as_u64().unwrap() as u32;
  let lo = case["lo"].as_u64().unwrap();
  let epoch = b"epoch-7".to_vec();
  let (found, examined) = super::c01::boundary_key_measurements("measurement-", &epoch, t, lo, 300);
  cx.count("keys_examined", examined);
  cx.count("boundary_keys_found", found.len() as u64);
  for (meas, k) in found {
    let n = t as usize + 1;
    let mut shares = vec![];
    let mut key0 = None;
    for i in 0..n {
      getrandom::verif::set_group(40 + i as u32);
      let mg = MessageGenerator::new(SingleMeasurement::new(&meas), t, &epoch);
      match guard(|| mg.share_with_local_randomness().map_err(|e| e.to_string())) {
        Ok(Ok(w)) => {
          if key0.is_some() && key0 != Some(w.key) {
            cx.viol("C04/key-not-deterministic", "clients agreeing on the triple derive different keys", json!({"measurement": String::from_utf8_lossy(&meas)}));
          }
          key0 = Some(w.key);
          shares.push(w.share);
        }
        _ => {
          cx.viol("C04/share-failed", "share_with_local_randomness failed", json!({"measurement": String::from_utf8_lossy(&meas)}));
          return;
        }
      }
    }
    cx.nontrivial(fnv(&meas) ^ t as u64);
    let mut sels: Vec<Vec<usize>> = vec![(0..n).collect()];
    for_each_subset(n, t as usize, |s| sels.push(s.to_vec()));
    for sel in sels {
      let sh: Vec<sta_rs::Share> = sel.iter().map(|&i| shares[i].clone()).collect();
      cx.eval();
      match recover_msg(&sh) {
        Ok(Ok(mm)) => {
          let mut kk = vec![0u8; 16];
          sta_rs::derive_ske_key(&mm, &epoch, &mut kk);
          if Some(&kk[..]) != key0.as_ref().map(|k| &k[..]) {
            cx.viol("C04/recovered-key-differs", "the key derived from the recovered message differs from the clients' key", json!({"measurement": String::from_utf8_lossy(&meas), "sharing_key": hex(&k)}));
          }
          cx.count("boundary_combinable", 1);
        }
        other => {
          cx.viol("C04/not-combinable/boundary-key", format!("{} shares of independent clients of ({:?}, epoch-7, t={}) do not combine: {:?} (the sharing key of this triple is {}: a zero / 0xff boundary byte)", sel.len(), String::from_utf8_lossy(&meas), t, other.map(|r| r.map(|_| ())), hex(&k)), json!({"measurement": String::from_utf8_lossy(&meas), "t": t, "sharing_key": hex(&k)}));
          return;
        }
      }
    }
  }
  cx.outcome("boundary keys combinable");
}


/// MANY calls on ONE generator object (a client that reports the same measurement every few minutes): 600
/// shares from one MessageGenerator - tag and key constant, evaluation points pairwise distinct, shares from far
/// apart call numbers combine, randomness constant (also into a buffer that held the previous value)
fn run_many_calls(cx: &mut CaseCx, case: &Value) {
  let t = case["t"].as_u64().unwrap() as u32;
  let m = b"https://example.com/many-calls".to_vec();
  let e = b"epoch".to_vec();
  let mg = MessageGenerator::new(SingleMeasurement::new(&m), t, &e);
  let reference = MessageGenerator::new(SingleMeasurement::new(&m), t, &e).share_with_local_randomness().map(|w| (w.key, w.tag)).ok();
  let r0 = rnd_of(&m, &e, t);
  let mut buf = [0u8; 32];
  let mut shares: Vec<sta_rs::Share> = vec![];
  let mut xs: Vec<BigUint> = vec![];
  for i in 0..600u32 {
    getrandom::verif::set_group(i + 1);
    mg.sample_local_randomness(&mut buf);
    cx.eval();
    if buf != r0 {
      cx.viol("C04/many-calls/randomness-changed", format!("call number {} of sample_local_randomness on one generator gives another value", i + 1), json!({"call": i + 1, "t": t}));
      return;
    }
    match guard(|| mg.share_with_local_randomness().map_err(|e| e.to_string())) {
      Ok(Ok(w)) => {
        if Some((w.key, w.tag)) != reference {
          cx.viol("C04/many-calls/tag-or-key-changed", format!("call number {} of share_with_local_randomness on one generator gives another tag or key than an independent client", i + 1), json!({"call": i + 1, "t": t}));
          return;
        }
        xs.push(share_x(&w.share.to_bytes()).unwrap_or_default());
        shares.push(w.share);
      }
      other => {
        cx.viol("C04/share-failed", format!("call number {} failed: {:?}", i + 1, other.map(|r| r.map(|_| ()))), json!({"call": i + 1}));
        return;
      }
    }
  }
  let mut sx = xs.clone();
  sx.sort();
  sx.dedup();
  if sx.len() != xs.len() {
    let dup = (0..xs.len()).find(|&i| xs[..i].contains(&xs[i])).unwrap();
    cx.viol("C04/share-points-not-distinct", format!("600 shares from one generator (fresh entropy each): call {} repeats the evaluation point of call {}", dup + 1, xs[..dup].iter().position(|x| *x == xs[dup]).unwrap() + 1), json!({"t": t, "call": dup + 1}));
    return;
  }
  // shares from far-apart call numbers combine
  for start in [0usize, 1, 255, 256, 257, 511, 598 - t as usize] {
    let sel: Vec<sta_rs::Share> = (0..t as usize).map(|k| shares[(start + k * 97) % shares.len()].clone()).collect();
    cx.eval();
    match recover_msg(&sel) {
      Ok(Ok(_)) => cx.count("far_apart_calls_combine", 1),
      other => {
        cx.viol("C04/not-combinable/many-calls", format!("shares from calls {}.. (stride 97) of one generator do not combine: {:?}", start + 1, other.map(|r| r.map(|_| ()))), json!({"t": t, "first_call": start + 1}));
        return;
      }
    }
  }
  cx.count("calls_on_one_generator", 600);
  cx.nontrivial(t as u64);
  cx.outcome("many calls");
}

/// boundary search on internal values: the pairs of triples whose local randomness agree in the most leading /
/// trailing bytes are processed back-to-back on one thread; each must come out as on a fresh thread
fn run_near_collisions(cx: &mut CaseCx, _case: &Value) {
  let ss = strings(true);
  let mut triples: Vec<(usize, usize, u32)> = vec![];
  for m in 0..ss.len() {
    for e in 0..ss.len() {
      for t in [1u32, 2, 3] {
        triples.push((m, e, t));
      }
    }
  }
  // a second family of many short URL-like measurements (more candidates => closer pairs)
  let urls: Vec<Vec<u8>> = (0..(if cx.tier.thorough() { 1_500_000u32 } else { 450_000 })).map(|i| format!("https://example.com/page/{}", i).into_bytes()).collect();
  let mut vals: Vec<([u8; 32], Vec<u8>, Vec<u8>, u32)> = par_map(&triples, |_, &(m, e, t)| (rnd_of(&ss[m], &ss[e], t), ss[m].clone(), ss[e].clone(), t));
  vals.extend(par_map(&urls, |_, u| (rnd_of(u, b"2026-w39", 3), u.clone(), b"2026-w39".to_vec(), 3u32)));
  cx.count("randomness_values_examined", vals.len() as u64);
  let common_prefix = |a: &[u8; 32], b: &[u8; 32]| a.iter().zip(b.iter()).take_while(|(x, y)| x == y).count();
  let mut cands: Vec<(usize, usize, usize)> = vec![]; // (agreeing bytes, i, j)
  for rev in [false, true] {
    let mut idx: Vec<usize> = (0..vals.len()).collect();
    let key = |i: usize| -> [u8; 32] {
      let mut k = vals[i].0;
      if rev {
        k.reverse();
      }
      k
    };
    idx.sort_by_key(|&i| key(i));
    for w in idx.windows(2) {
      let n = common_prefix(&key(w[0]), &key(w[1]));
      if n >= 3 {
        cands.push((n, w[0], w[1]));
      }
    }
  }
  cands.sort_by(|a, b| b.0.cmp(&a.0));
  cands.truncate(40);
  let share = |v: &([u8; 32], Vec<u8>, Vec<u8>, u32)| -> Option<(Vec<u8>, [u8; 16], Vec<u8>)> {
    let mg = MessageGenerator::new(SingleMeasurement::new(&v.1), v.3, &v.2);
    let w = mg.share_with_local_randomness().ok()?;
    let msg = sta_rs::Message::generate(&mg, &v.0, None).ok()?;
    Some((w.tag.to_vec(), w.key, msg.tag))
  };
  for (n, i, j) in cands {
    for (a, b) in [(i, j), (j, i)] {
      // reference: b alone on a fresh thread; then a followed by b on another fresh thread
      let alone = std::thread::scope(|s| s.spawn(|| share(&vals[b])).join().ok().flatten());
      let after = std::thread::scope(|s| {
        s.spawn(|| {
          let _ = share(&vals[a]);
          share(&vals[b])
        })
        .join()
        .ok()
        .flatten()
      });
      cx.eval();
      cx.nontrivial(fnv_str(&format!("{}|{}", a, b)));
      if alone != after || alone.is_none() {
        cx.viol("C04/client-history", format!("a client for ({}, {}, t={}) derives a different tag / key when its thread served ({}, {}, t={}) just before (their local randomness agree in {} bytes): state is carried between clients", hexs(&vals[b].1), hexs(&vals[b].2), vals[b].3, hexs(&vals[a].1), hexs(&vals[a].2), vals[a].3, n), json!({"first": [hexs(&vals[a].1), hexs(&vals[a].2)], "second": [hexs(&vals[b].1), hexs(&vals[b].2)], "agreeing_bytes": n}));
        return;
      }
      cx.count("near_collision_histories", 1);
    }
  }
  cx.outcome("near collisions");
}

pub fn spec() -> PropSpec {
  PropSpec {
    id: "C04",
    level: "exploration",
    assumptions: vec![
      "collision resistance of Strobe/Keccak is the trusted base: injectivity is decided on the enumerated family (every pair of it, through a hash map), which contains every boundary-shifted pair, prefix pair, long-common-prefix pair and one-bit threshold pair",
      "freshness of share points is decided relative to the entropy model: equal entropy => equal point whatever the inputs, entropy differing in any of its first 128 bits => different point",
      "tags/keys for thresholds >= 65536 are only computed in the thorough tier (the dealer materialises t-1 coefficients); thresholds >= 2^31 only through the randomness derivation",
    ],
    thorough_budget_s: 1200,
    checks: vec![
      Check {
        name: "randomness-injective",
        rule: "family = (all strings over {a,b,00} of length <= 2 (quick) / 3 (thorough) + LE threshold encodings + long strings sharing long prefixes/suffixes)^2 x 13 thresholds (0,1,2,3,256,257,2^16..2^16+2,2^31,2^31+2,2^32-2,2^32-1): sample_local_randomness of every triple; any two triples with equal randomness is a violation (hash map = all pairs); distinct = triples",
        gen: |_| vec![json!({})],
        run: run_injective_rnd,
        min_counts: &[("evaluations", 20_000), ("boundary_shifted_groups", 50)],
      },
      Check {
        name: "tags-keys-injective",
        rule: "share_with_local_randomness on every triple of the family with thresholds {0,1,2,3,256,257} (thorough: + 65536,65538 on a sub-family): tag and key injective (hash maps), threshold recorded in the share equals the client's",
        gen: |t| if t.thorough() { vec![json!({"ts": [0, 1, 2, 3]}), json!({"ts": [256, 257]}), json!({"ts": [2, 65536, 65538], "stride": 211})] } else { vec![json!({"ts": [0, 1, 2, 3, 256, 257], "stride": 3})] },
        run: run_tags_keys,
        min_counts: &[("evaluations", 5_000)],
      },
      Check {
        name: "independent-clients",
        rule: "per triple: max(3,t+1) independent clients x all 6 associated-data shapes: equal tags (also generate vs share_with_local_randomness), equal keys, pairwise distinct share points under fresh entropy, every t-subset of their shares recovers the same message whose derived key is the clients' key",
        gen: |t| {
          let mut v = vec![];
          let n = if t.thorough() { 40 } else { 12 };
          for i in 0..n {
            for tt in [1u64, 2, 3, 5] {
              v.push(json!({"m": i * 7 + 1, "e": i * 3, "t": tt}));
            }
          }
          v
        },
        run: run_clients,
        min_counts: &[("combinable_subsets", 50)],
      },
      Check {
        name: "near-collision-histories",
        rule: "among ~480k triples (the injectivity family with t in 1..3 plus 450000 URL-like measurements; thorough 1.5 million: by the birthday bound some pairs agree in 4 bytes) the 40 pairs whose local randomness agree in the most leading or trailing bytes (>= 3) are run back-to-back on one fresh thread, in both orders: tag and key of the second must equal those computed alone on a fresh thread",
        gen: |_| vec![json!({})],
        run: run_near_collisions,
        min_counts: &[("near_collision_histories", 10)],
      },
      Check {
        name: "neighbour-contexts",
        rule: "for 11 base strings (text, padded, accented, invalid UTF-8, binary counters, empty) every NEIGHBOUR a canonicalisation could merge with it (each single-bit flip of the first 12 bytes, 11 bytes appended / prepended, first / last byte dropped, reversed, doubled, ASCII case folding, BOM, U+FFFD, lossy UTF-8 conversion, hex form, NFC/NFD, trimming; empty-vs-epoch and swapped components), as measurement and as epoch, t in {1,3}; and every pair (epoch || prefix, t1) / (epoch, t2) with prefix || enc(t1) == enc(t2) for the variable-width encodings LEB128, decimal, minimal LE/BE, hexadecimal: randomness, tag and key of the two triples differ; LONG measurements / epochs of 40 .. 100000 bytes (16 lengths) against a twin that differs in the last, first or middle byte or is 1 / 7 bytes longer (an input clamped, chunked or sampled at any length N <= 100000 makes such twins collide)",
        gen: |_| vec![json!({})],
        run: run_neighbours,
        min_counts: &[("evaluations", 2000), ("framing_pairs", 30), ("long_common_part_pairs", 150)],
      },
      Check {
        name: "output-buffers",
        rule: "sample_local_randomness and derive_ske_key write through a caller buffer: for 60 (measurement, epoch) pairs x t in {1,2,70000} x 4 prior buffer contents (0xff, the previous output, another client's output, pseudo-random) the value equals the one written into a zeroed buffer",
        gen: |_| vec![json!({})],
        run: run_output_buffers,
        min_counts: &[("buffer_probes", 500)],
      },
      Check {
        name: "boundary-keys",
        rule: "boundary search on an internal value: of 1200 (thorough 4800) triples per threshold (t in {2,3}) those whose 16-byte sharing key has a 0x00 / 0xff first, middle or last byte or a zero pair (about 1 in 45): t+1 independent clients - equal keys, every t-subset and the full set combine, the key derived from the recovered message is the clients' key",
        gen: |tier| {
          let mut v = vec![];
          for t in [2u64, 3] {
            for c in 0..(if tier.thorough() { 16u64 } else { 4 }) {
              v.push(json!({"t": t, "lo": c * 300}));
            }
          }
          v
        },
        run: run_boundary_keys,
        min_counts: &[("boundary_keys_found", 30), ("boundary_combinable", 100)],
      },
      Check {
        name: "many-calls",
        rule: "600 consecutive sample_local_randomness + share_with_local_randomness calls on ONE MessageGenerator (t in {1,2,3}): randomness, tag and key constant and equal to an independent client's, all 600 evaluation points pairwise distinct, shares from far-apart call numbers (stride 97, starting at 1, 2, 256..258, 512, the end) combine",
        gen: |_| [1u64, 2, 3].iter().map(|t| json!({"t": t})).collect(),
        run: run_many_calls,
        min_counts: &[("calls_on_one_generator", 1800), ("far_apart_calls_combine", 20)],
      },
      Check {
        name: "process-histories",
        rule: "clients are separate PROCESSES: 12 fresh processes that each perform a different first operation (nothing, PPOPRF blind / finalize / eval / verify, local randomness or share of ANOTHER triple, a report, an adss share, GGM eval, field inversion) and then derive randomness, tag, key, share (same entropy) and report for the same three triples: identical in all of them",
        gen: |_| vec![json!({})],
        run: |cx, _| crate::probe::process_order_check(cx, "C04", &|l: &str| l.starts_with("local randomness") || l.starts_with("tag") || l.starts_with("report") || l.starts_with("derive_ske_key") || l.starts_with("adss share")),
        min_counts: &[("process_histories_agree", 12)],
      },
      Check {
        name: "client-threads",
        rule: "4 freshly spawned threads (own entropy stream each) x 3 clients per thread on one triple: all 12 evaluation points pairwise distinct, tags and keys equal, one share from each of t threads combine (a per-thread or per-process point generator that replays one sequence)",
        gen: |_| (1..=4u64).map(|t| json!({"t": t})).collect(),
        run: run_threads,
        min_counts: &[("cross_thread_combinable", 4)],
      },
      Check {
        name: "generator-reuse",
        rule: "history on one MessageGenerator object: sample/share, reassign the public measurement field, sample/share again: randomness, tag and key must equal those of a fresh independent client of the new measurement (120 measurement pairs x t in 1..3)",
        gen: |_| vec![json!({})],
        run: run_generator_reuse,
        min_counts: &[("reuse_checked", 100)],
      },
      Check {
        name: "share-point-entropy",
        rule: "E-env: scripted 24-byte entropy answer; same answer under a different triple must give the same point; each of 48 single-bit variants in the first 16 bytes must give a new point (pairwise distinct)",
        gen: |_| (1..=4u64).map(|t| json!({"t": t})).collect(),
        run: run_point_entropy,
        min_counts: &[("replayed_entropy_gives_same_point", 1)],
      },
    ],
  }
}
