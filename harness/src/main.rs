//! `verif <Cxx> [--tier quick|thorough] [--replay file] [--only substr]`
//! Bounded exhaustive exploration of the real sta-rs code (see /verif/DESIGN.md).
mod ggmx;
mod mc;
mod probe;
mod props;
mod refmodel;
mod sut;
mod wire;

use mc::{Options, Tier};

fn main() {
  let args: Vec<String> = std::env::args().skip(1).collect();
  if args.is_empty() {
    eprintln!("usage: verif <Cxx> [--tier quick|thorough] [--replay file] [--only substr] [--no-evidence]");
    std::process::exit(2);
  }
  if args[0] == "probe" {
    match args.get(1).map(|s| s.as_str()) {
      Some("produce") => probe::main_produce(),
      Some("big") => probe::main_big(args.get(2).map(|s| s.as_str()).unwrap_or("")),
      Some("consume") => probe::main_consume(args.get(2).map(|s| s.as_str()).unwrap_or(""), args.get(3).map(|s| s.as_str()).unwrap_or("")),
      other => probe::main_probe(other.unwrap_or("nothing")),
    }
    return;
  }
  let id = args[0].clone();
  let mut tier = match std::env::var("VERIF_TIER").ok().as_deref() {
    Some("thorough") => Tier::Thorough,
    _ => Tier::Quick,
  };
  let mut replay = None;
  let mut only = None;
  let mut write_evidence = true;
  let mut i = 1;
  while i < args.len() {
    match args[i].as_str() {
      "--tier" => {
        i += 1;
        tier = match args.get(i).map(|s| s.as_str()) {
          Some("thorough") => Tier::Thorough,
          Some("quick") => Tier::Quick,
          other => {
            eprintln!("bad tier {:?}", other);
            std::process::exit(2)
          }
        };
      }
      "--replay" => {
        i += 1;
        replay = args.get(i).cloned();
      }
      "--only" => {
        i += 1;
        only = args.get(i).cloned();
      }
      "--no-evidence" => write_evidence = false,
      other => {
        eprintln!("unknown argument {}", other);
        std::process::exit(2)
      }
    }
    i += 1;
  }
  let seed: u64 = std::env::var("VERIF_SEED").ok().and_then(|s| s.parse().ok()).unwrap_or(1);
  let verif_dir = std::env::var("VERIF_DIR").unwrap_or_else(|_| "/verif".into());
  let spec = match props::spec(&id) {
    Some(s) => s,
    None => {
      eprintln!("unknown property {}", id);
      std::process::exit(2)
    }
  };
  let out_dir = std::env::var("VERIF_OUT").unwrap_or_else(|_| verif_dir.clone());
  let rc = mc::run_property(spec, Options { tier, seed, replay, only, verif_dir, out_dir, write_evidence });
  std::process::exit(rc);
}
