//! Process-level history: `verif probe <first-op>` runs ONE operation first in a fresh process and then a fixed
//! observation script under fixed entropy, printing one line per observation. Clients and servers of the
//! protocol are different processes; whatever a process did first (lazily initialised statics, once-cells,
//! interned tables) must not show in any derived value. The parent (`process_order_check`) compares the
//! transcripts of all first-ops.
use crate::mc::hex;
use ppoprf::ppoprf as pp;
use ppoprf::PPRF;
use sta_rs::{MessageGenerator, SingleMeasurement};

pub const FIRST_OPS: [&str; 12] = ["nothing", "blind", "finalize", "eval", "eval-verifiable", "verify", "local-randomness", "share", "report", "adss-share", "ggm", "field"];

fn first(op: &str) {
  getrandom::verif::reset(0xF125);
  match op {
    "blind" => {
      let _ = pp::Client::blind(b"first op");
    }
    "finalize" => {
      let mut out = [0u8; 32];
      pp::Client::finalize(b"first op", 3, &pp::Point::from(&[0u8; 32][..]), &mut out);
    }
    "eval" | "eval-verifiable" | "verify" => {
      let s = pp::Server::new(vec![3]).expect("server");
      // a point that needs no blinding (no hashing of an input): the neutral element
      let p = pp::Point::from(&[0u8; 32][..]);
      if let Ok(ev) = s.eval(&p, 3, op != "eval") {
        if op == "verify" {
          let _ = pp::Client::verify(&s.get_public_key(), &p, &ev, 3);
        }
      }
    }
    "local-randomness" => {
      let mut r = [0u8; 32];
      MessageGenerator::new(SingleMeasurement::new(b"first"), 2, b"ep").sample_local_randomness(&mut r); // a prefix of the epochs observed later
    }
    "share" => {
      let _ = MessageGenerator::new(SingleMeasurement::new(b"measurement-and-more"), 2, b"epoch-2-and-more").share_with_local_randomness(); // extensions of the inputs observed later
    }
    "report" => {
      let mg = MessageGenerator::new(SingleMeasurement::new(b""), 1, b"");
      let _ = sta_rs::Message::generate(&mg, &[7u8; 32], None);
    }
    "adss-share" => {
      let _ = adss::Commune::new(1, b"first".to_vec(), b"coins".to_vec(), None).share();
    }
    "ggm" => {
      let g = ppoprf::ggm::GGM::setup();
      let mut o = [0u8; 32];
      let _ = g.eval(&[9], &mut o);
    }
    "field" => {
      use ff::Field;
      let _ = star_sharks::Fp::ONE.invert();
    }
    _ => {}
  }
}

/// the observation script: everything below is a function of the fixed inputs and the fixed entropy
pub fn observe() -> Vec<String> {
  let mut out = vec![];
  // STAR client
  for (m, e, t) in [(&b"measurement"[..], &b"epoch"[..], 2u32), (b"", b"e", 1), (b"measurement", b"epoch-2", 3)] {
    let mg = MessageGenerator::new(SingleMeasurement::new(m), t, e);
    let mut r = [0u8; 32];
    mg.sample_local_randomness(&mut r);
    out.push(format!("local randomness ({:?},{:?},{}) = {}", String::from_utf8_lossy(m), String::from_utf8_lossy(e), t, hex(&r)));
    getrandom::verif::reset(0x0B5E);
    if let Ok(w) = mg.share_with_local_randomness() {
      out.push(format!("tag = {} key = {} share = {}", hex(&w.tag), hex(&w.key), hex(&w.share.to_bytes())));
    }
    getrandom::verif::reset(0x0B5E);
    if let Ok(msg) = sta_rs::Message::generate(&mg, &r, Some(sta_rs::AssociatedData::new(b"aux"))) {
      out.push(format!("report = {}", hex(&msg.to_bytes())));
    }
    let mut k = [0u8; 16];
    sta_rs::derive_ske_key(&r, e, &mut k);
    out.push(format!("derive_ske_key = {}", hex(&k)));
  }
  // adss
  getrandom::verif::reset(0x0B5F);
  if let Ok(s) = adss::Commune::new(2, b"message".to_vec(), b"coins".to_vec(), None).share() {
    out.push(format!("adss share = {}", hex(&s.to_bytes())));
  }
  // PPOPRF: server key from fixed entropy; blinding from fixed entropy
  getrandom::verif::reset(0x0B60);
  let s = pp::Server::new(vec![0, 7]).expect("server");
  out.push(format!("public key = {}", s.get_public_key().serialize_to_bincode().map(|b| hex(&b)).unwrap_or_default()));
  for input in [&b"input"[..], b""] {
    getrandom::verif::reset(0x0B61);
    let (blinded, r) = pp::Client::blind(input);
    out.push(format!("blinded({:?}) = {}", String::from_utf8_lossy(input), hex(blinded.as_bytes())));
    if let Ok(ev) = s.eval(&blinded, 7, false) {
      let un = pp::Client::unblind(&ev.output, &r);
      let mut fin = [0u8; 32];
      pp::Client::finalize(input, 7, &un, &mut fin);
      out.push(format!("evaluation = {} unblinded = {} finalised = {}", hex(ev.output.as_bytes()), hex(un.as_bytes()), hex(&fin)));
    }
    getrandom::verif::reset(0x0B62);
    if let Ok(ev) = s.eval(&blinded, 0, true) {
      out.push(format!("proof = {} verifies = {}", ev.proof.as_ref().and_then(|p| p.serialize_to_bincode().ok()).map(|b| hex(&b)).unwrap_or_default(), pp::Client::verify(&s.get_public_key(), &blinded, &ev, 0)));
    }
  }
  // GGM
  getrandom::verif::reset(0x0B63);
  let g = ppoprf::ggm::GGM::setup();
  for x in [0u8, 1, 128, 255] {
    let mut o = [0u8; 32];
    let _ = g.eval(&[x], &mut o);
    out.push(format!("ggm({}) = {}", x, hex(&o)));
  }
  // field
  {
    use ff::{Field, PrimeField};
    let a = star_sharks::Fp::from(12451u64);
    out.push(format!("field: inv = {} sqrt(4) = {:?}", hex(a.invert().unwrap().to_repr().as_ref()), Option::<star_sharks::Fp>::from(star_sharks::Fp::from(4u64).sqrt()).map(|r| hex(r.to_repr().as_ref()))));
  }
  out
}

pub fn main_probe(op: &str) {
  first(op);
  for l in observe() {
    println!("{}", l);
  }
}

/// spawn one fresh process per first-op; returns (op, transcript lines) or an error string
pub fn transcripts() -> Result<Vec<(String, Vec<String>)>, String> {
  let exe = std::env::current_exe().map_err(|e| e.to_string())?;
  let mut v = vec![];
  // one more process: nothing first, but in a NOISY ENVIRONMENT - diagnostic switches a deployment or a developer
  // may have set (bounded list of plausible names) must not change any derived value
  let noisy: Vec<(String, String)> = {
    let mut v = vec![("RUST_LOG".to_string(), "trace".to_string()), ("RUST_BACKTRACE".into(), "full".into()), ("DEBUG".into(), "1".into()), ("TRACE".into(), "1".into()), ("VERBOSE".into(), "1".into())];
    for c in ["ADSS", "STAR", "STARS", "STA_RS", "SHARKS", "STAR_SHARKS", "PPOPRF", "GGM", "STAR_WASM", "STROBE"] {
      for sfx in ["TRACE", "DEBUG", "LOG", "VERBOSE", "DIAG", "STATS", "METRICS"] {
        v.push((format!("{}_{}", c, sfx), "1".into()));
      }
    }
    v
  };
  for op in FIRST_OPS.iter().copied().chain(std::iter::once("noisy-environment")) {
    let mut cmd = std::process::Command::new(&exe);
    cmd.arg("probe").arg(op);
    if op == "noisy-environment" {
      cmd.envs(noisy.iter().cloned());
    }
    let o = cmd.output().map_err(|e| e.to_string())?;
    if !o.status.success() {
      return Err(format!("probe process for first-op {} exited with {:?}: {}", op, o.status.code(), String::from_utf8_lossy(&o.stderr).chars().take(300).collect::<String>()));
    }
    v.push((op.to_string(), String::from_utf8_lossy(&o.stdout).lines().map(|s| s.to_string()).collect()));
  }
  Ok(v)
}

/// the check body shared by C04 and C12: `filter` selects the observation lines that belong to the property
pub fn process_order_check(cx: &mut crate::mc::CaseCx, prop: &str, filter: &dyn Fn(&str) -> bool) {
  use serde_json::json;
  let ts = match transcripts() {
    Ok(t) => t,
    Err(e) => {
      cx.count("probe_processes_unavailable", 1);
      cx.note(format!("probe processes could not be run ({}): process-order check skipped", e));
      return;
    }
  };
  let base: Vec<&String> = ts[0].1.iter().filter(|l| filter(l)).collect();
  if base.len() < 3 {
    cx.count("probe_processes_unavailable", 1);
    return;
  }
  for (op, lines) in ts.iter().skip(1) {
    let mine: Vec<&String> = lines.iter().filter(|l| filter(l)).collect();
    cx.eval();
    cx.nontrivial(crate::mc::fnv_str(op));
    if let Some(i) = (0..base.len().max(mine.len())).find(|&i| base.get(i) != mine.get(i)) {
      let what = base.get(i).map(|l| l.split('=').next().unwrap_or("").trim().to_string()).unwrap_or_default();
      cx.viol(
        format!("{}/depends-on-process-history", prop),
        format!("a fresh process whose FIRST operation is '{}' ('noisy-environment': nothing first, but ~75 diagnostic environment variables such as RUST_LOG, ADSS_TRACE, STAR_DEBUG set) derives another value for [{}] than a process that starts with the observation itself (same inputs, same entropy): something initialised lazily by the first call leaks into later derivations - two clients (two processes) disagree", op, what),
        json!({"first_operation": op, "observation": what, "in_a_process_starting_with_nothing": base.get(i), "in_this_process": mine.get(i)}),
      );
      return;
    }
    cx.count("process_histories_agree", 1);
  }
}

// ---------------------------------------------------------------- produced in one process, consumed in another

/// `verif probe produce`: a client process. Prints shares / reports and what they must recover to.
pub fn main_produce() {
  use base64::{engine::Engine as _, prelude::BASE64_STANDARD};
  let (m, epoch, t) = (b"hello world".to_vec(), "1", 2u32);
  for i in 0..2u64 {
    getrandom::verif::reset(0x9A0D + i);
    println!("wasm {}", star_wasm::create_share(&m, t, epoch));
  }
  let mg = MessageGenerator::new(SingleMeasurement::new(&m), t, epoch.as_bytes());
  let mut r = [0u8; 32];
  mg.sample_local_randomness(&mut r);
  for i in 0..2u64 {
    getrandom::verif::reset(0x9A1D + i);
    if let Ok(msg) = sta_rs::Message::generate(&mg, &r, Some(sta_rs::AssociatedData::new(&[b'a', i as u8 + b'0']))) {
      println!("report {}", hex(&msg.to_bytes()));
    }
  }
  if let Ok(w) = mg.share_with_local_randomness() {
    println!("key {}", BASE64_STANDARD.encode(w.key));
  }
  for i in 0..2u64 {
    getrandom::verif::reset(0x9A2D + i);
    if let Ok(s) = adss::Commune::new(2, b"message".to_vec(), b"coins".to_vec(), None).share() {
      println!("adss {}", hex(&s.to_bytes()));
    }
  }
}
fn unhex(s: &str) -> Vec<u8> {
  (0..s.len() / 2).filter_map(|i| u8::from_str_radix(&s[2 * i..2 * i + 2], 16).ok()).collect()
}
/// `verif probe consume <order> <file>`: an aggregation-side process whose FIRST operations are recoveries of
/// material produced elsewhere; `order` decides which consumer runs first
pub fn main_consume(order: &str, file: &str) {
  let text = std::fs::read_to_string(file).unwrap_or_default();
  let lines: Vec<&str> = text.lines().collect();
  let wasm = || {
    let shares: Vec<String> = lines.iter().filter_map(|l| l.strip_prefix("wasm ")).filter_map(|j| serde_json::from_str::<serde_json::Value>(j).ok()).filter_map(|v| v["share"].as_str().map(|s| s.to_string())).collect();
    println!("grouped {:?}", star_wasm::group_shares(&shares.join("\n"), "1"));
  };
  let ad = || {
    let shares: Vec<adss::Share> = lines.iter().filter_map(|l| l.strip_prefix("adss ")).filter_map(|h| adss::Share::from_bytes(&unhex(h))).collect();
    println!("adss-message {:?}", adss::recover(&shares).map(|c| hex(&c.get_message())).map_err(|e| e.to_string()));
  };
  let agg = || {
    let msgs: Vec<sta_rs::Message> = lines.iter().filter_map(|l| l.strip_prefix("report ")).filter_map(|h| sta_rs::Message::from_bytes(&unhex(h))).collect();
    let server = star_test_utils::AggregationServer::new(2, "1");
    let out = server.retrieve_outputs(&msgs);
    let mut v: Vec<String> = out.iter().map(|o| format!("{}:{:?}", hex(&o.x.as_vec()), { let mut a: Vec<Option<Vec<u8>>> = o.aux.iter().map(|x| x.as_ref().map(|d| d.as_vec())).collect(); a.sort(); a })).collect();
    v.sort();
    println!("revealed {:?}", v);
  };
  match order {
    "wasm-first" => { wasm(); ad(); agg(); }
    "adss-first" => { ad(); agg(); wasm(); }
    _ => { agg(); wasm(); ad(); }
  }
}

/// producer process -> consumer processes; returns (producer lines, [(order, consumer lines)])
pub fn produce_consume(scratch_dir: &str) -> Result<(Vec<String>, Vec<(String, Vec<String>)>), String> {
  let exe = std::env::current_exe().map_err(|e| e.to_string())?;
  let o = std::process::Command::new(&exe).arg("probe").arg("produce").output().map_err(|e| e.to_string())?;
  if !o.status.success() {
    return Err(format!("producer process failed: {}", String::from_utf8_lossy(&o.stderr).chars().take(200).collect::<String>()));
  }
  let _ = std::fs::create_dir_all(scratch_dir);
  let file = format!("{}/probe-produced-{}.txt", scratch_dir, std::process::id());
  std::fs::write(&file, &o.stdout).map_err(|e| e.to_string())?;
  let produced: Vec<String> = String::from_utf8_lossy(&o.stdout).lines().map(|s| s.to_string()).collect();
  let mut v = vec![];
  for order in ["wasm-first", "adss-first", "aggregate-first"] {
    let c = std::process::Command::new(&exe).arg("probe").arg("consume").arg(order).arg(&file).output().map_err(|e| e.to_string())?;
    let mut lines: Vec<String> = String::from_utf8_lossy(&c.stdout).lines().map(|s| s.to_string()).collect();
    if !c.status.success() {
      lines.push(format!("PROCESS FAILED: {}", String::from_utf8_lossy(&c.stderr).lines().last().unwrap_or("").chars().take(200).collect::<String>()));
    }
    v.push((order.to_string(), lines));
  }
  let _ = std::fs::remove_file(&file);
  Ok((produced, v))
}

/// check body: what a fresh consumer process recovers from material produced by another process
pub fn cross_process_check(cx: &mut crate::mc::CaseCx, prop: &str, which: &str) {
  use serde_json::json;
  let base = std::env::var("VERIF_OUT").or_else(|_| std::env::var("VERIF_DIR")).unwrap_or_else(|_| "/verif".into());
  let (produced, consumers) = match produce_consume(&format!("{}/replays", base)) {
    Ok(x) => x,
    Err(e) => {
      cx.count("probe_processes_unavailable", 1);
      cx.note(format!("probe processes could not be run ({}): cross-process check skipped", e));
      return;
    }
  };
  let key = produced.iter().find_map(|l| l.strip_prefix("key ")).unwrap_or("").to_string();
  let want: String = match which {
    "grouped" => format!("grouped Some({:?})", key),
    "adss-message" => format!("adss-message Ok({:?})", hex(b"message")),
    _ => format!("revealed [\"{}:[Some([97, 48]), Some([97, 49])]\"]", hex(b"hello world")),
  };
  for (order, lines) in &consumers {
    cx.eval();
    cx.nontrivial(crate::mc::fnv_str(order));
    let got = lines.iter().find(|l| l.starts_with(which)).cloned().unwrap_or_else(|| lines.last().cloned().unwrap_or_default());
    if got != want {
      cx.viol(
        format!("{}/cross-process", prop),
        format!("material produced by one process (a client) and consumed by a FRESH process whose first operations are recoveries (order: {}): expected [{}], the consumer printed [{}]", order, want, got),
        json!({"consumer_order": order, "expected": want, "got": got}),
      );
      return;
    }
    cx.count("cross_process_ok", 1);
  }
}

// ---------------------------------------------------------------- aborts (stack exhaustion, allocation failure)

pub const BIG_INPUTS: [&str; 9] = ["report+empty-chunks", "report+zeros", "share+zeros", "adss-share+zeros", "nested-chunks", "group-many-lines", "group-one-long-line", "json-deep", "pk-many-entries"];

/// `verif probe big <kind>`: feeds one LARGE, well-formed-looking input to a decoder on an ordinary 2 MiB thread
/// (as a server worker would). The process must exit normally whatever the decoder answers; the parent treats
/// death by signal (stack overflow abort, allocation failure abort) as the violation.
pub fn main_big(kind: &str) {
  let kind = kind.to_string();
  let h = std::thread::spawn(move || {
    getrandom::verif::reset(0xB16);
    let mg = MessageGenerator::new(SingleMeasurement::new(b"big"), 2, b"e");
    let mut r = [0u8; 32];
    mg.sample_local_randomness(&mut r);
    let report = sta_rs::Message::generate(&mg, &r, None).map(|m| m.to_bytes()).unwrap_or_default();
    let share = mg.share_with_local_randomness().map(|w| w.share.to_bytes()).unwrap_or_default();
    let zeros = vec![0u8; 8 << 20];
    let answered: bool = match kind.as_str() {
      "report+empty-chunks" | "report+zeros" => sta_rs::Message::from_bytes(&[&report[..], &zeros[..]].concat()).is_some(),
      "share+zeros" => sta_rs::Share::from_bytes(&[&share[..], &zeros[..]].concat()).is_some(),
      "adss-share+zeros" => adss::Share::from_bytes(&[&share[..], &zeros[..]].concat()).is_some(),
      "nested-chunks" => {
        // a chunk whose body is a chunk whose body is a chunk ... 200000 levels
        let mut b: Vec<u8> = vec![];
        for _ in 0..200_000 {
          let mut n = (b.len() as u32).to_le_bytes().to_vec();
          n.extend_from_slice(&b);
          b = n;
          if b.len() > (4 << 20) {
            break;
          }
        }
        sta_rs::Message::from_bytes(&b).is_some() | adss::Share::from_bytes(&b).is_some()
      }
      "group-many-lines" => {
        use base64::{engine::Engine as _, prelude::BASE64_STANDARD};
        let line = BASE64_STANDARD.encode(&share);
        let joined = vec![line; 20_000].join("\n");
        star_wasm::group_shares(&joined, "e").is_some()
      }
      "group-one-long-line" => star_wasm::group_shares(&"A".repeat(16 << 20), "e").is_some(),
      "json-deep" => {
        let deep = format!("{}{}", "[".repeat(300_000), "]".repeat(300_000));
        serde_json::from_str::<pp::Evaluation>(&deep).is_ok() | serde_json::from_str::<pp::Point>(&format!("{{\"output\":{}}}", deep)).is_ok()
      }
      _ => {
        // a public key whose entry count claims 2^40 entries (below the size limit in bytes)
        let mut b = vec![0u8; 32];
        b.extend_from_slice(&(1u64 << 40).to_le_bytes());
        b.extend_from_slice(&vec![0u8; 4000]);
        pp::ServerPublicKey::load_from_bincode(&b).is_ok() | pp::ProofDLEQ::load_from_bincode(&b).is_ok()
      }
    };
    println!("answered {}", answered);
  });
  match h.join() {
    Ok(()) => {}
    Err(_) => println!("panicked"),
  }
}

/// parent side: (kind, Ok(stdout) | Err(description of abnormal termination))
pub fn big_input_runs() -> Result<Vec<(String, Result<String, String>)>, String> {
  let exe = std::env::current_exe().map_err(|e| e.to_string())?;
  let mut v = vec![];
  for kind in BIG_INPUTS {
    let o = std::process::Command::new(&exe).arg("probe").arg("big").arg(kind).output().map_err(|e| e.to_string())?;
    let out = String::from_utf8_lossy(&o.stdout).trim().to_string();
    if o.status.success() {
      v.push((kind.to_string(), Ok(out)));
    } else {
      let err = String::from_utf8_lossy(&o.stderr);
      v.push((kind.to_string(), Err(format!("{:?}; last stderr line: {}", o.status, err.lines().last().unwrap_or("").chars().take(160).collect::<String>()))));
    }
  }
  Ok(v)
}
