//! Helpers for the puncturable-PRF properties (C10, C11, C14): the leaf-set
//! reference model, the view of the retained nodes through the hook, an
//! independent reader of the exported key state, and a Strobe replica of the
//! tree PRG used only to name the seeds that must NOT survive a puncture.
use ppoprf::ggm::GGM;
use ppoprf::PPRF;
use std::collections::BTreeMap;
use strobe_rs::{SecParam, Strobe};

/// 256-bit set of punctured inputs
#[derive(Clone, Copy, PartialEq, Eq, Hash, Debug, Default)]
pub struct Set256(pub [u64; 4]);
impl Set256 {
  pub fn has(&self, x: u8) -> bool {
    self.0[(x >> 6) as usize] >> (x & 63) & 1 == 1
  }
  pub fn with(&self, x: u8) -> Self {
    let mut s = *self;
    s.0[(x >> 6) as usize] |= 1 << (x & 63);
    s
  }
  pub fn len(&self) -> usize {
    self.0.iter().map(|w| w.count_ones() as usize).sum()
  }
  pub fn to_vec(&self) -> Vec<u8> {
    (0..=255u8).filter(|&x| self.has(x)).collect()
  }
}

/// a tree node: `len` leading bits (LSB-first order of the input byte) with value `bits`
#[derive(Clone, Copy, PartialEq, Eq, Hash, Debug, PartialOrd, Ord)]
pub struct Node {
  pub len: u8,
  pub bits: u8,
}
impl Node {
  pub fn from_bools(b: &[bool]) -> Option<Node> {
    if b.is_empty() || b.len() > 8 {
      return None;
    }
    let mut bits = 0u8;
    for (i, &x) in b.iter().enumerate() {
      if x {
        bits |= 1 << i;
      }
    }
    Some(Node { len: b.len() as u8, bits })
  }
  pub fn covers(&self, x: u8) -> bool {
    let mask = if self.len >= 8 { 0xff } else { (1u8 << self.len) - 1 };
    x & mask == self.bits
  }
  pub fn leaves(&self) -> Vec<u8> {
    (0..=255u8).filter(|&x| self.covers(x)).collect()
  }
}

/// reference model: the maximal subtrees that contain no punctured leaf (= canonical cover of the complement)
pub fn model_cover(p: &Set256) -> Vec<Node> {
  fn rec(len: u8, bits: u8, p: &Set256, out: &mut Vec<Node>) {
    let n = Node { len, bits };
    let leaves = n.leaves();
    let punct = leaves.iter().filter(|&&x| p.has(x)).count();
    if punct == 0 {
      out.push(n);
    } else if punct < leaves.len() && len < 8 {
      rec(len + 1, bits, p, out);
      rec(len + 1, bits | (1 << len), p, out);
    }
  }
  let mut out = vec![];
  rec(1, 0, p, &mut out);
  rec(1, 1, p, &mut out);
  out.sort();
  out
}

pub type Nodes = BTreeMap<Node, Vec<u8>>;

/// retained nodes through the verification hook: Err(description) if the vector is not even a set of nodes
pub fn hook_nodes(g: &GGM) -> Result<(Vec<(Node, Vec<u8>)>, Vec<Vec<bool>>), String> {
  let (nodes, punct) = g.verif_retained_nodes();
  let mut out = vec![];
  for (b, seed) in nodes {
    match Node::from_bools(&b) {
      Some(n) => out.push((n, seed)),
      None => return Err(format!("retained prefix of length {}", b.len())),
    }
  }
  Ok((out, punct))
}

pub fn eval_all(g: &GGM) -> Vec<Option<[u8; 32]>> {
  (0..=255u8)
    .map(|x| {
      let mut out = [0u8; 32];
      match g.eval(&[x], &mut out) {
        Ok(()) => Some(out),
        Err(_) => None,
      }
    })
    .collect()
}

// ---------------------------------------------------------------- exported key state (bincode of get_private_key)

pub struct Export {
  pub oprf_key: [u8; 32],
  pub base_pk: [u8; 32],
  pub md_pks: Vec<(u8, [u8; 32])>,
  pub prgs: Vec<[u8; 32]>,
  pub prefixes: Vec<(Vec<bool>, Vec<u8>)>,
  pub punctured: Vec<Vec<bool>>,
  /// bytes of the ggm part only (for seed scanning)
  pub ggm_offset: usize,
}
struct Rd<'a> {
  b: &'a [u8],
  at: usize,
}
impl<'a> Rd<'a> {
  fn take(&mut self, n: usize) -> Option<&'a [u8]> {
    if self.at + n > self.b.len() {
      return None;
    }
    let s = &self.b[self.at..self.at + n];
    self.at += n;
    Some(s)
  }
  fn u64(&mut self) -> Option<u64> {
    Some(u64::from_le_bytes(self.take(8)?.try_into().ok()?))
  }
  fn u8(&mut self) -> Option<u8> {
    Some(self.take(1)?[0])
  }
  fn a32(&mut self) -> Option<[u8; 32]> {
    self.take(32)?.try_into().ok()
  }
  /// bitvec 1.x serde form: order string, head {width u8, index u8}, bits u64, data: seq of u64 words
  fn bitvec(&mut self) -> Option<Vec<bool>> {
    let n = self.u64()? as usize;
    let order = self.take(n)?;
    if order != b"bitvec::order::Lsb0" {
      return None;
    }
    let width = self.u8()?;
    let index = self.u8()? as usize;
    if width != 64 {
      return None;
    }
    let bits = self.u64()? as usize;
    let words = self.u64()? as usize;
    let mut data = vec![];
    for _ in 0..words {
      data.push(self.u64()?);
    }
    let mut out = vec![];
    for i in 0..bits {
      let pos = index + i;
      out.push(data.get(pos / 64)? >> (pos % 64) & 1 == 1);
    }
    Some(out)
  }
}
pub fn parse_export(b: &[u8]) -> Option<Export> {
  let mut r = Rd { b, at: 0 };
  let oprf_key = r.a32()?;
  let base_pk = r.a32()?;
  let n = r.u64()? as usize;
  let mut md_pks = vec![];
  for _ in 0..n {
    let k = r.u8()?;
    md_pks.push((k, r.a32()?));
  }
  let ggm_offset = r.at;
  let n = r.u64()? as usize;
  let mut prgs = vec![];
  for _ in 0..n {
    prgs.push(r.a32()?);
  }
  let n = r.u64()? as usize;
  let mut prefixes = vec![];
  for _ in 0..n {
    let bv = r.bitvec()?;
    let sl = r.u64()? as usize;
    prefixes.push((bv, r.take(sl)?.to_vec()));
  }
  let n = r.u64()? as usize;
  let mut punctured = vec![];
  for _ in 0..n {
    punctured.push(r.bitvec()?);
  }
  if r.at != b.len() {
    return None;
  }
  Some(Export { oprf_key, base_pk, md_pks, prgs, prefixes, punctured, ggm_offset })
}


/// the inverse of `parse_export` (used to hand crafted key states to a server); callers validate it on an
/// honest export first (print(parse(b)) == b) and skip their check otherwise
pub fn print_export(e: &Export) -> Vec<u8> {
  fn bitvec(out: &mut Vec<u8>, bits: &[bool]) {
    let order = b"bitvec::order::Lsb0";
    out.extend_from_slice(&(order.len() as u64).to_le_bytes());
    out.extend_from_slice(order);
    out.push(64);
    out.push(0);
    out.extend_from_slice(&(bits.len() as u64).to_le_bytes());
    let words = (bits.len() + 63) / 64;
    out.extend_from_slice(&(words as u64).to_le_bytes());
    for w in 0..words {
      let mut v = 0u64;
      for i in 0..64 {
        if bits.get(w * 64 + i).copied().unwrap_or(false) {
          v |= 1 << i;
        }
      }
      out.extend_from_slice(&v.to_le_bytes());
    }
  }
  let mut out = vec![];
  out.extend_from_slice(&e.oprf_key);
  out.extend_from_slice(&e.base_pk);
  out.extend_from_slice(&(e.md_pks.len() as u64).to_le_bytes());
  for (k, v) in &e.md_pks {
    out.push(*k);
    out.extend_from_slice(v);
  }
  out.extend_from_slice(&(e.prgs.len() as u64).to_le_bytes());
  for p in &e.prgs {
    out.extend_from_slice(p);
  }
  out.extend_from_slice(&(e.prefixes.len() as u64).to_le_bytes());
  for (b, seed) in &e.prefixes {
    bitvec(&mut out, b);
    out.extend_from_slice(&(seed.len() as u64).to_le_bytes());
    out.extend_from_slice(seed);
  }
  out.extend_from_slice(&(e.punctured.len() as u64).to_le_bytes());
  for b in &e.punctured {
    bitvec(&mut out, b);
  }
  out
}
impl Node {
  pub fn to_bools(&self) -> Vec<bool> {
    (0..self.len).map(|i| self.bits >> i & 1 == 1).collect()
  }
}

// ---------------------------------------------------------------- Strobe replica of the tree PRG (extraction aid only)

fn prg(key: &[u8; 32], input: &[u8]) -> [u8; 32] {
  let mut t = Strobe::new(b"ggm eval (ppoprf)", SecParam::B128);
  t.key(key, false);
  t.ad(input, false);
  let mut out = [0u8; 32];
  t.meta_ad(&(32u32).to_le_bytes(), false);
  t.prf(&mut out, false);
  out
}
/// all node seeds of the full tree below the retained nodes of an (unpunctured) export:
/// map node -> seed. Returns None if the replica does not reproduce the given leaf values.
pub fn all_seeds(exp: &Export, leaf_values: &[Option<[u8; 32]>]) -> Option<BTreeMap<Node, [u8; 32]>> {
  if exp.prgs.len() != 2 {
    return None;
  }
  let mut map: BTreeMap<Node, [u8; 32]> = BTreeMap::new();
  let mut stack: Vec<(Node, [u8; 32])> = vec![];
  for (b, seed) in &exp.prefixes {
    let n = Node::from_bools(b)?;
    let s: [u8; 32] = seed.as_slice().try_into().ok()?;
    stack.push((n, s));
  }
  while let Some((n, s)) = stack.pop() {
    map.insert(n, s);
    if n.len < 8 {
      stack.push((Node { len: n.len + 1, bits: n.bits }, prg(&exp.prgs[0], &s)));
      stack.push((Node { len: n.len + 1, bits: n.bits | (1 << n.len) }, prg(&exp.prgs[1], &s)));
    }
  }
  // self-validation against the real evaluations
  for x in 0..=255u8 {
    if let Some(v) = leaf_values[x as usize] {
      if map.get(&Node { len: 8, bits: x }) != Some(&v) {
        return None;
      }
    }
  }
  Some(map)
}
/// the seeds on the path to leaf x (depths 1..=8)
pub fn path_nodes(x: u8) -> Vec<Node> {
  (1..=8u8).map(|len| Node { len, bits: if len >= 8 { x } else { x & ((1u8 << len) - 1) } }).collect()
}
