//! Thin helpers around the real sta-rs API (the system under test).
use crate::refmodel as rm;
use ff::PrimeField;
use num_bigint::BigUint;
use star_sharks::{Fp, FpRepr};

pub fn fp_to_big(f: &Fp) -> BigUint {
  rm::from_le(f.to_repr().as_ref())
}
pub fn fp_from_big(n: &BigUint) -> Option<Fp> {
  Option::from(Fp::from_repr(FpRepr(rm::le24(n))))
}
