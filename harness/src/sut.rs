//! Thin helpers around the real sta-rs API (the system under test) and the
//! shared input alphabets of DESIGN.md §5.
use crate::mc::{fnv, guard};
use crate::refmodel as rm;
use ff::PrimeField;
use num_bigint::BigUint;
use ppoprf::ppoprf as pp;
use sta_rs::{AssociatedData, Message, MessageGenerator, SingleMeasurement};
use star_sharks::{Fp, FpRepr};

pub fn fp_to_big(f: &Fp) -> BigUint {
  rm::from_le(f.to_repr().as_ref())
}
pub fn fp_from_big(n: &BigUint) -> Option<Fp> {
  Option::from(Fp::from_repr(FpRepr(rm::le24(n))))
}

/// deterministic pseudo-random bytes (harness data, not entropy of the code under test)
pub fn prbytes(tag: u64, len: usize) -> Vec<u8> {
  let mut out = Vec::with_capacity(len);
  let mut st = tag ^ 0x1234_5678_9abc_def0;
  while out.len() < len {
    st = st.wrapping_add(0x9E3779B97F4A7C15);
    let mut z = st;
    z = (z ^ (z >> 30)).wrapping_mul(0xBF58476D1CE4E5B9);
    z = (z ^ (z >> 27)).wrapping_mul(0x94D049BB133111EB);
    z ^= z >> 31;
    out.extend_from_slice(&z.to_le_bytes());
  }
  out.truncate(len);
  out
}

// ---------------------------------------------------------------- alphabets

/// Strobe-128 rate: a payload crosses a cipher block every 166 bytes
pub const BLOCK: usize = 166;

pub fn meas_alphabet(thorough: bool) -> Vec<Vec<u8>> {
  let mut v = vec![
    vec![],
    b"a".to_vec(),
    vec![0u8],
    vec![0xAA; 16],
    prbytes(1, 32),
    prbytes(2, BLOCK - 4 - 1), // 4-byte length prefix + measurement ends one byte before the block boundary
    prbytes(3, BLOCK - 4),     // ... exactly at the boundary
    prbytes(4, BLOCK - 4 + 1), // ... one byte past
  ];
  if thorough {
    v.push(prbytes(5, BLOCK - 8)); // aux length prefix straddles the boundary
    v.push(prbytes(6, 2 * BLOCK - 4));
    v.push(b"hello world".to_vec());
    v.push(vec![0xff, 0x00, 0x80, 0x7f]);
    v.push(prbytes(7, 4096));
  }
  v
}
pub fn epoch_alphabet(thorough: bool) -> Vec<Vec<u8>> {
  let mut v = vec![vec![], b"t".to_vec(), b"epoch".to_vec()];
  if thorough {
    v.push(b"tt".to_vec());
    v.push("é".as_bytes().to_vec());
    v.push(prbytes(9, 64));
    // epochs ending in / containing NUL bytes (little-endian counters, C strings)
    v.push(vec![0]);
    v.push(vec![3, 2, 1, 0]);
    v.push(b"t\0".to_vec());
    v.push(vec![0, b't']);
  }
  v
}
pub fn aux_alphabet() -> Vec<Option<Vec<u8>>> {
  vec![None, Some(vec![]), Some(vec![7]), Some(prbytes(11, 16)), Some(prbytes(12, 200)), Some(prbytes(13, 4096))]
}

// ---------------------------------------------------------------- entropy scripting

#[derive(Clone, Debug, PartialEq, Eq, serde::Serialize, serde::Deserialize)]
pub enum Ans {
  Fresh,
  /// 24 zero bytes, then fresh (x = 0 candidate)
  Zeros,
  /// 48 bytes 0xff (two candidates >= p force the rejection loop), then fresh
  Ones,
  /// the exact bytes entropy group j consumed (collision with client j)
  Replay(u32),
  /// bytes that the field's random sampler decodes to this value (decimal)
  Craft(String),
}
/// Montgomery-form limbs that ff_derive's `random` turns into the element `x`
pub fn craft_bytes(x: &BigUint) -> Vec<u8> {
  let r = (BigUint::from(1u32) << 192usize) % rm::p();
  rm::le24(&((x * r) % rm::p())).to_vec()
}
pub fn apply_answer(a: &Ans) {
  use getrandom::verif as e;
  match a {
    Ans::Fresh => e::set_script(&[]),
    Ans::Zeros => e::set_script(&[0u8; 24]),
    Ans::Ones => e::set_script(&[0xffu8; 48]),
    Ans::Replay(j) => e::set_script(&e::group_bytes(*j)),
    Ans::Craft(s) => e::set_script(&craft_bytes(&s.parse::<BigUint>().unwrap())),
  }
}
pub fn craft_points() -> Vec<String> {
  let p = rm::p();
  let one = BigUint::from(1u32);
  vec![one.clone(), BigUint::from(2u32), &p - &one, &one << 64usize, &one << 128usize].iter().map(|x| x.to_string()).collect()
}

// ---------------------------------------------------------------- STAR client / server helpers

pub fn local_randomness(meas: &[u8], epoch: &[u8], t: u32) -> [u8; 32] {
  let mg = MessageGenerator::new(SingleMeasurement::new(meas), t, epoch);
  let mut rnd = [0u8; 32];
  mg.sample_local_randomness(&mut rnd);
  rnd
}

/// full PPOPRF exchange against a randomness server (verifiable), as a client would run it
pub fn server_randomness(server: &pp::Server, md: u8, meas: &[u8]) -> Result<[u8; 32], String> {
  let (blinded, r) = pp::Client::blind(meas);
  let eval = server.eval(&blinded, md, true).map_err(|e| format!("eval: {}", e))?;
  if !pp::Client::verify(&server.get_public_key(), &blinded, &eval, md) {
    return Err("proof does not verify".into());
  }
  let unblinded = pp::Client::unblind(&eval.output, &r);
  let mut out = [0u8; 32];
  pp::Client::finalize(meas, md, &unblinded, &mut out);
  Ok(out)
}

pub fn gen_report(meas: &[u8], epoch: &[u8], t: u32, rnd: &[u8; 32], aux: &Option<Vec<u8>>) -> Result<Message, String> {
  let mg = MessageGenerator::new(SingleMeasurement::new(meas), t, epoch);
  let ad = aux.as_ref().map(|a| AssociatedData::new(a));
  match guard(|| Message::generate(&mg, rnd, ad).map_err(|e| e.to_string())) {
    Ok(r) => r,
    Err(p) => Err(format!("panic: {}", p)),
  }
}

/// what the aggregation side does with one report once it holds the recovered message
pub fn open_report(msg: &Message, recovered: &[u8], epoch: &[u8]) -> Result<(Vec<u8>, Option<Vec<u8>>), String> {
  guard(|| {
    let mut key = vec![0u8; 16];
    sta_rs::derive_ske_key(recovered, epoch, &mut key);
    let plain = msg.ciphertext.decrypt(&key, "star_encrypt");
    let m = sta_rs::load_bytes(&plain).ok_or("payload: measurement chunk does not parse")?;
    let rest = &plain[4 + m.len()..];
    if rest.is_empty() {
      return Ok((m.to_vec(), None));
    }
    let a = sta_rs::load_bytes(rest).ok_or("payload: associated-data chunk does not parse")?;
    if rest.len() != 4 + a.len() {
      return Err("payload: trailing bytes after associated data".to_string());
    }
    Ok((m.to_vec(), Some(a.to_vec())))
  })
  .unwrap_or_else(|p| Err(format!("panic: {}", p)))
}

/// x-coordinate of the share inside a report, through the independent layout parser
pub fn share_x(share_bytes: &[u8]) -> Option<BigUint> {
  rm::parse_adss(share_bytes).map(|s| s.s.x)
}

pub fn recover_msg(shares: &[sta_rs::Share]) -> Result<Result<Vec<u8>, String>, String> {
  guard(|| sta_rs::share_recover(shares).map(|c| c.get_message()).map_err(|e| e.to_string()))
}

pub fn short(b: &[u8]) -> String {
  crate::mc::hexs(b)
}
pub fn hash_bytes(b: &[u8]) -> u64 {
  fnv(b)
}

/// `Sharks(t).dealer(secret)`; in the build without star-sharks' `std` feature (where that convenience does not
/// exist) the same dealing through `dealer_rng` with the OS random source
pub fn sharks_dealer(t: u32, secret: &[u8]) -> Result<star_sharks::Evaluator, String> {
  #[cfg(feature = "sharks-std")]
  {
    star_sharks::Sharks(t).dealer(secret).map_err(|e| e.to_string())
  }
  #[cfg(not(feature = "sharks-std"))]
  {
    let mut rng = rand::rngs::OsRng;
    star_sharks::Sharks(t).dealer_rng(secret, &mut rng).map_err(|e| e.to_string())
  }
}
