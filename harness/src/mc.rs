//! Engine shared by all property checks: case driver (parallel, deterministic
//! per-case entropy), panic sandbox, violation / known-finding bookkeeping,
//! replay and evidence writers, and the explicit-state BFS explorer.
use serde_json::{json, Value};
use std::collections::{BTreeMap, BTreeSet, HashSet};
use std::panic::{catch_unwind, AssertUnwindSafe};
use std::sync::atomic::{AtomicUsize, Ordering};
use std::sync::Mutex;
use std::time::{Duration, Instant};

#[derive(Clone, Copy, PartialEq, Eq, Debug)]
pub enum Tier {
  Quick,
  Thorough,
}
impl Tier {
  pub fn name(self) -> &'static str {
    match self {
      Tier::Quick => "quick",
      Tier::Thorough => "thorough",
    }
  }
  pub fn thorough(self) -> bool {
    self == Tier::Thorough
  }
}

pub fn fnv(bytes: &[u8]) -> u64 {
  let mut h: u64 = 0xcbf29ce484222325;
  for b in bytes {
    h ^= *b as u64;
    h = h.wrapping_mul(0x100000001b3);
  }
  h
}
pub fn fnv_str(s: &str) -> u64 {
  fnv(s.as_bytes())
}
pub fn hex(b: &[u8]) -> String {
  let mut s = String::with_capacity(b.len() * 2);
  for x in b {
    s.push_str(&format!("{:02x}", x));
  }
  s
}
pub fn unhex(s: &str) -> Vec<u8> {
  (0..s.len() / 2).map(|i| u8::from_str_radix(&s[2 * i..2 * i + 2], 16).expect("hex")).collect()
}
/// short printable form of a byte string for samples / replay details
pub fn hexs(b: &[u8]) -> String {
  if b.len() <= 48 {
    hex(b)
  } else {
    format!("{}..({} bytes, fnv {:016x})", hex(&b[..24]), b.len(), fnv(b))
  }
}

// ---------------------------------------------------------------- sandbox

thread_local! {
  static LAST_PANIC: std::cell::RefCell<Option<String>> = std::cell::RefCell::new(None);
}
pub fn install_silent_panic_hook() {
  std::panic::set_hook(Box::new(|info| {
    let msg = format!("{}", info);
    LAST_PANIC.with(|p| *p.borrow_mut() = Some(msg));
  }));
}
/// Run code of the system under test; a panic becomes `Err(message)`.
pub fn guard<T>(f: impl FnOnce() -> T) -> Result<T, String> {
  match catch_unwind(AssertUnwindSafe(f)) {
    Ok(v) => Ok(v),
    Err(_) => Err(LAST_PANIC.with(|p| p.borrow_mut().take()).unwrap_or_else(|| "panic".into())),
  }
}

// ---------------------------------------------------------------- per-case context

/// keys of recorded known findings of the property being checked (they never stop an exploration early)
static KNOWN_KEYS: std::sync::OnceLock<Vec<String>> = std::sync::OnceLock::new();
fn is_known_key(k: &str) -> bool {
  KNOWN_KEYS.get().map(|v| v.iter().any(|x| x == k)).unwrap_or(false)
}

pub struct Viol {
  /// signature used for known-finding matching and de-duplication
  pub key: String,
  pub what: String,
  pub detail: Value,
}

pub struct CaseCx {
  pub tier: Tier,
  pub seed: u64,
  pub check: &'static str,
  pub case_key: u64,
  pub viols: Vec<Viol>,
  pub counts: BTreeMap<&'static str, u64>,
  pub outcomes: BTreeSet<String>,
  pub distinct: HashSet<u64>,
  pub samples: Vec<Value>,
  pub notes: BTreeSet<String>,
  /// violations recorded by this context and its scratch copies (lets a long exploration stop early)
  pub viol_count: std::sync::Arc<AtomicUsize>,
  /// wall-clock cap of the run (thorough tier): explorations stop opening new levels after it
  pub deadline: Option<Instant>,
}
impl CaseCx {
  pub fn new(tier: Tier, seed: u64, check: &'static str, case_key: u64) -> Self {
    CaseCx {
      tier,
      seed,
      check,
      case_key,
      viols: vec![],
      counts: BTreeMap::new(),
      outcomes: BTreeSet::new(),
      distinct: HashSet::new(),
      samples: vec![],
      notes: BTreeSet::new(),
      viol_count: std::sync::Arc::new(AtomicUsize::new(0)),
      deadline: None,
    }
  }
  /// true once enough counterexamples were recorded; explorations stop expanding then
  pub fn should_stop(&self) -> bool {
    self.viol_count.load(Ordering::Relaxed) >= 12
  }
  pub fn viol(&mut self, key: impl Into<String>, what: impl Into<String>, detail: Value) {
    let key: String = key.into();
    if !is_known_key(&key) {
      self.viol_count.fetch_add(1, Ordering::Relaxed);
    }
    // keep a few observations PER KEY: thousands of observations of one key (a recorded known finding, say)
    // must never crowd out the first observation of another key
    let same = self.viols.iter().filter(|v| v.key == key).count();
    if same < 8 && self.viols.len() < 512 {
      self.viols.push(Viol { key, what: what.into(), detail });
    }
    *self.counts.entry("violating_observations").or_insert(0) += 1;
  }
  pub fn count(&mut self, name: &'static str, n: u64) {
    *self.counts.entry(name).or_insert(0) += n;
  }
  /// one execution of real code whose result was judged by an oracle
  pub fn eval(&mut self) {
    self.count("evaluations", 1);
  }
  pub fn evals(&mut self, n: u64) {
    self.count("evaluations", n);
  }
  pub fn outcome(&mut self, s: impl Into<String>) {
    if self.outcomes.len() < 4096 {
      self.outcomes.insert(s.into());
    }
  }
  /// register a distinct non-trivial case (hash of its defining data)
  pub fn nontrivial(&mut self, h: u64) {
    self.distinct.insert(h);
  }
  pub fn sample(&mut self, v: Value) {
    if self.samples.len() < 2 {
      self.samples.push(v);
    }
  }
  pub fn note(&mut self, s: impl Into<String>) {
    self.notes.insert(s.into());
  }
  /// a scratch context with the same identity (for work done on other threads inside this case)
  pub fn scratch(&self) -> CaseCx {
    let mut c = CaseCx::new(self.tier, self.seed, self.check, self.case_key);
    c.viol_count = self.viol_count.clone();
    c.deadline = self.deadline;
    c
  }
  pub fn absorb(&mut self, other: CaseCx) {
    for v in other.viols {
      let same = self.viols.iter().filter(|w| w.key == v.key).count();
      if same < 8 && self.viols.len() < 512 {
        self.viols.push(v);
      }
    }
    for (k, v) in other.counts {
      *self.counts.entry(k).or_insert(0) += v;
    }
    for o in other.outcomes {
      self.outcome(o);
    }
    self.distinct.extend(other.distinct);
    for s in other.samples {
      self.sample(s);
    }
    self.notes.extend(other.notes);
  }
  /// fresh deterministic entropy for a sub-execution of this case
  pub fn entropy(&self, sub: u64) {
    getrandom::verif::reset(self.seed ^ self.case_key.rotate_left(17) ^ sub.wrapping_mul(0x9E3779B97F4A7C15));
  }
}

// ---------------------------------------------------------------- checks and driver

pub struct Check {
  pub name: &'static str,
  /// how cases are enumerated and what makes one non-trivial
  pub rule: &'static str,
  pub gen: fn(Tier) -> Vec<Value>,
  pub run: fn(&mut CaseCx, &Value),
  /// vacuity guards: counters that must reach a minimum over the whole check
  pub min_counts: &'static [(&'static str, u64)],
}

pub struct PropSpec {
  pub id: &'static str,
  pub level: &'static str,
  pub checks: Vec<Check>,
  pub assumptions: Vec<&'static str>,
  /// wall-clock budget for the thorough tier (seconds); quick tier is never capped
  pub thorough_budget_s: u64,
}

#[derive(Default)]
struct Agg {
  counts: BTreeMap<String, u64>,
  outcomes: BTreeSet<String>,
  distinct: HashSet<u64>,
  samples: Vec<Value>,
  notes: BTreeSet<String>,
  viols: Vec<(String, String, Value, &'static str, Value, std::sync::Arc<Vec<Value>>)>, // key, what, detail, check, case, earlier cases of the same worker thread
  harness_errors: Vec<String>,
  cases_run: u64,
  cases_capped: u64,
}

pub struct Options {
  pub tier: Tier,
  pub seed: u64,
  pub replay: Option<String>,
  pub only: Option<String>,
  pub verif_dir: String,
  /// where replays/ and evidence/ are written (VERIF_OUT; default: verif_dir)
  pub out_dir: String,
  pub write_evidence: bool,
}

fn threads() -> usize {
  std::env::var("VERIF_THREADS").ok().and_then(|s| s.parse().ok()).unwrap_or_else(|| {
    std::thread::available_parallelism().map(|n| n.get()).unwrap_or(4)
  })
}

fn run_check(spec: &PropSpec, ck: &Check, opt: &Options, deadline: Option<Instant>, agg: &Mutex<Agg>) -> (u64, f64) {
  let t0 = Instant::now();
  let cases = match catch_unwind(AssertUnwindSafe(|| (ck.gen)(opt.tier))) {
    Ok(c) => c,
    Err(_) => {
      // building the cases of a check calls into the code under test (base encodings, honest reports): a panic
      // there is recorded as a harness error (exit 2 unless a violation is confirmed elsewhere), never a crash
      let msg = LAST_PANIC.with(|p| p.borrow_mut().take()).unwrap_or_default();
      eprintln!("note: generating the cases of {}/{} panicked: {}", spec.id, ck.name, msg);
      agg.lock().unwrap().harness_errors.push(format!("case generation of {}/{} panicked: {}", spec.id, ck.name, msg));
      vec![]
    }
  };
  let next = AtomicUsize::new(0);
  let nthreads = threads().min(cases.len().max(1));
  std::thread::scope(|s| {
    for _ in 0..nthreads {
      s.spawn(|| {
        let mut local = Agg::default();
        let mut history: Vec<Value> = vec![];
        let mut unknown_viols = 0usize;
        loop {
          let i = next.fetch_add(1, Ordering::Relaxed);
          if i >= cases.len() {
            break;
          }
          if let Some(d) = deadline {
            if Instant::now() > d {
              local.cases_capped += 1;
              continue;
            }
          }
          let case = &cases[i];
          let ck_key = fnv_str(&format!("{}/{}/{}", spec.id, ck.name, case));
          let mut cx = CaseCx::new(opt.tier, opt.seed, ck.name, ck_key);
          cx.deadline = deadline;
          cx.entropy(0);
          let r = catch_unwind(AssertUnwindSafe(|| (ck.run)(&mut cx, case)));
          if r.is_err() {
            let msg = LAST_PANIC.with(|p| p.borrow_mut().take()).unwrap_or_default();
            local.harness_errors.push(format!("harness panic in {}/{} case {}: {}", spec.id, ck.name, case, msg));
          }
          local.cases_run += 1;
          for (k, v) in cx.counts {
            *local.counts.entry(format!("{}", k)).or_insert(0) += v;
            *local.counts.entry(format!("{}::{}", ck.name, k)).or_insert(0) += v;
          }
          local.outcomes.extend(cx.outcomes.into_iter().map(|o| format!("{}: {}", ck.name, o)));
          local.distinct.extend(cx.distinct.into_iter().map(|h| h ^ fnv_str(ck.name)));
          if local.samples.len() < 2 {
            for smp in cx.samples {
              local.samples.push(json!({"check": ck.name, "case": case, "observed": smp}));
            }
          }
          local.notes.extend(cx.notes);
          let new_unknown = cx.viols.iter().filter(|v| !is_known_key(&v.key)).count();
          unknown_viols += new_unknown;
          if !cx.viols.is_empty() {
            let hist = std::sync::Arc::new(if new_unknown > 0 { history.clone() } else { vec![] });
            for v in cx.viols {
              // per key, so that many observations of one key never crowd out another key
              if local.viols.iter().filter(|w| w.0 == v.key).count() < 32 && local.viols.len() < 2048 {
                local.viols.push((v.key, v.what, v.detail, ck.name, case.clone(), hist.clone()));
              }
            }
          }
          if history.len() < 4096 {
            history.push(case.clone());
          }
          // enough counterexamples: the remaining cases of this check are skipped (reported, not exhaustive)
          if unknown_viols >= 64 {
            local.cases_capped += (cases.len().saturating_sub(next.swap(cases.len(), Ordering::Relaxed))) as u64;
            break;
          }
        }
        let mut a = agg.lock().unwrap();
        for (k, v) in local.counts {
          *a.counts.entry(k).or_insert(0) += v;
        }
        a.outcomes.extend(local.outcomes);
        a.distinct.extend(local.distinct);
        a.samples.extend(local.samples);
        a.notes.extend(local.notes);
        a.viols.extend(local.viols);
        a.harness_errors.extend(local.harness_errors);
        a.cases_run += local.cases_run;
        a.cases_capped += local.cases_capped;
      });
    }
  });
  (cases.len() as u64, t0.elapsed().as_secs_f64())
}

#[derive(serde::Deserialize)]
struct KnownFinding {
  property: String,
  key: String,
  status: String,
  what: String,
}
#[derive(serde::Deserialize)]
struct KnownFile {
  findings: Vec<KnownFinding>,
}

fn load_known(verif_dir: &str, prop: &str) -> Vec<KnownFinding> {
  let p = format!("{}/known_findings.json", verif_dir);
  match std::fs::read_to_string(&p) {
    Ok(s) => {
      let k: KnownFile = serde_json::from_str(&s).unwrap_or_else(|e| {
        eprintln!("machinery error: cannot parse {}: {}", p, e);
        std::process::exit(2)
      });
      k.findings.into_iter().filter(|f| f.property == prop && f.status == "known").collect()
    }
    Err(_) => vec![],
  }
}

/// Re-run one case outside the explorer; returns the violation keys it produces.
fn rerun_case(spec: &PropSpec, check: &str, case: &Value, opt: &Options) -> Result<Vec<(String, String)>, String> {
  let ck = spec.checks.iter().find(|c| c.name == check).ok_or_else(|| format!("no check {} in {}", check, spec.id))?;
  let ck_key = fnv_str(&format!("{}/{}/{}", spec.id, ck.name, case));
  let mut cx = CaseCx::new(opt.tier, opt.seed, ck.name, ck_key);
  cx.entropy(0);
  let r = catch_unwind(AssertUnwindSafe(|| (ck.run)(&mut cx, case)));
  if r.is_err() {
    return Err(format!("harness panic during replay: {:?}", LAST_PANIC.with(|p| p.borrow_mut().take())));
  }
  Ok(cx.viols.into_iter().map(|v| (v.key, v.what)).collect())
}

/// Re-run a case after the cases that preceded it on its worker thread, on a fresh thread (fresh
/// thread-locals): reproduces violations that depend on state the code under test carries between calls.
fn rerun_with_history(spec: &PropSpec, check: &str, history: &[Value], case: &Value, opt: &Options) -> Result<Vec<(String, String)>, String> {
  std::thread::scope(|s| {
    s.spawn(|| {
      for h in history {
        let _ = rerun_case(spec, check, h, opt);
      }
      rerun_case(spec, check, case, opt)
    })
    .join()
    .unwrap_or_else(|_| Err("replay thread panicked".into()))
  })
}

pub fn run_property(spec: PropSpec, opt: Options) -> i32 {
  install_silent_panic_hook();
  let known = load_known(&opt.verif_dir, spec.id);
  let _ = KNOWN_KEYS.set(known.iter().map(|k| k.key.clone()).collect());

  // ---- replay mode: one recorded case, no explorer
  if let Some(path) = &opt.replay {
    let txt = match std::fs::read_to_string(path) {
      Ok(t) => t,
      Err(e) => {
        eprintln!("machinery error: cannot read replay {}: {}", path, e);
        return 2;
      }
    };
    let v: Value = serde_json::from_str(&txt).expect("replay json");
    let check = v["check"].as_str().unwrap_or("").to_string();
    let seed = v["seed"].as_u64().unwrap_or(opt.seed);
    let tier = if v["tier"].as_str() == Some("thorough") { Tier::Thorough } else { Tier::Quick };
    let o2 = Options { tier, seed, replay: None, only: None, verif_dir: opt.verif_dir.clone(), out_dir: opt.out_dir.clone(), write_evidence: false };
    let hist: Vec<Value> = v["thread_history"].as_array().cloned().unwrap_or_default();
    let res = if hist.is_empty() { rerun_case(&spec, &check, &v["case"], &o2) } else { rerun_with_history(&spec, &check, &hist, &v["case"], &o2) };
    match res {
      Err(e) => {
        eprintln!("machinery error: {}", e);
        return 2;
      }
      Ok(keys) => {
        let mut rc = 0;
        if keys.is_empty() {
          println!("replay {}: no violation on this tree", path);
        }
        let mut seen = BTreeSet::new();
        for (k, what) in keys {
          if !seen.insert(k.clone()) {
            continue;
          }
          if let Some(kf) = known.iter().find(|f| f.key == k) {
            println!("KNOWN-FINDING: property={} {} [{}]", spec.id, kf.what, k);
          } else {
            println!("replayed violation [{}]: {}", k, what);
            println!("VIOLATION property={} replay={}", spec.id, path);
            rc = 1;
          }
        }
        return rc;
      }
    }
  }

  let t0 = Instant::now();
  let deadline = if opt.tier.thorough() {
    let b = std::env::var("VERIF_BUDGET_S").ok().and_then(|s| s.parse().ok()).unwrap_or(spec.thorough_budget_s);
    Some(t0 + Duration::from_secs(b))
  } else {
    None
  };
  let agg = Mutex::new(Agg::default());
  let mut per_check = vec![];
  for ck in &spec.checks {
    if let Some(o) = &opt.only {
      if !ck.name.contains(o.as_str()) {
        continue;
      }
    }
    let (ncases, secs) = run_check(&spec, ck, &opt, deadline, &agg);
    let a = agg.lock().unwrap();
    let ev = a.counts.get(&format!("{}::evaluations", ck.name)).copied().unwrap_or(0);
    let vi = a.counts.get(&format!("{}::violating_observations", ck.name)).copied().unwrap_or(0);
    println!("[{}] {:<28} cases={:<8} evaluations={:<10} violating_observations={:<6} {:.1}s", spec.id, ck.name, ncases, ev, vi, secs);
    per_check.push(json!({"check": ck.name, "cases": ncases, "evaluations": ev, "violating_observations": vi, "wall_s": secs, "rule": ck.rule}));
  }
  let a = agg.into_inner().unwrap();
  let wall = t0.elapsed().as_secs_f64();

  // ---- machinery errors are never a verdict; they do not mask violations found (and replay-confirmed) elsewhere
  for e in a.harness_errors.iter().take(5) {
    eprintln!("machinery error: {}", e);
  }
  if !a.harness_errors.is_empty() && a.viols.is_empty() {
    return 2;
  }
  let mut vacuous = vec![];
  if opt.only.is_none() && a.cases_capped == 0 {
    for ck in &spec.checks {
      for (name, min) in ck.min_counts {
        let got = a.counts.get(&format!("{}::{}", ck.name, name)).copied().unwrap_or(0);
        if got < *min {
          vacuous.push(format!("{}::{} = {} < {}", ck.name, name, got, min));
        }
      }
    }
  }

  // ---- violations: group by key, classify against known findings, confirm by replay
  let mut by_key: BTreeMap<String, Vec<&(String, String, Value, &'static str, Value, std::sync::Arc<Vec<Value>>)>> = BTreeMap::new();
  for v in &a.viols {
    by_key.entry(v.0.clone()).or_default().push(v);
  }
  let mut rc = 0;
  let mut n_written = 0;
  let mut new_violations = 0u64;
  let mut known_hits = vec![];
  let mut unconfirmed: Vec<String> = vec![];
  let _ = std::fs::create_dir_all(format!("{}/replays", opt.out_dir));
  for (key, vs) in &by_key {
    let first = vs[0];
    let is_known = known.iter().find(|f| &f.key == key);
    // determinism: the recorded case must reproduce the same violation key
    let o2 = Options { tier: opt.tier, seed: opt.seed, replay: None, only: None, verif_dir: opt.verif_dir.clone(), out_dir: opt.out_dir.clone(), write_evidence: false };
    let mut needs_history = false;
    match rerun_case(&spec, first.3, &first.4, &o2) {
      Ok(keys) if keys.iter().any(|(k, _)| k == key) => {}
      Ok(_) => {
        // not reproducible in isolation: state carried between calls by the code under test? replay the
        // cases that preceded it on its worker thread, on a fresh thread
        match rerun_with_history(&spec, first.3, &first.5, &first.4, &o2) {
          Ok(keys) if keys.iter().any(|(k, _)| k == key) => needs_history = true,
          _ => {
            // not confirmed: never reported as a VIOLATION. (A re-run stops early once it has collected many
            // violations, so a key that the full run met late may simply not be reached again.) If some OTHER
            // violation of this run is confirmed the verdict stands on that one; if none is, the run is a
            // machinery error (below).
            eprintln!("note: violation [{}] of {} reproduced neither in isolation nor after the {} cases that preceded it on its worker thread; not reported; case {}", key, spec.id, first.5.len(), first.4);
            unconfirmed.push(key.clone());
            continue;
          }
        }
      }
      Err(e) => {
        eprintln!("machinery error: {}", e);
        return 2;
      }
    }
    let tag = if is_known.is_some() { "known" } else { "v" };
    let path = format!("{}/replays/{}-{}-{}.json", opt.out_dir, spec.id, tag, n_written);
    n_written += 1;
    let rec = json!({
      "property": spec.id, "check": first.3, "tier": opt.tier.name(), "seed": opt.seed,
      "key": key, "what": first.1, "detail": first.2, "case": first.4,
      "profile": if cfg!(debug_assertions) { "release" } else { "plain" },
      "occurrences_in_run": vs.len(),
      "replay_cmd": format!("./check {} --replay {}", spec.id, path),
      "thread_history": if needs_history { json!(first.5.as_ref()) } else { json!([]) },
      "note": if needs_history { "reproduces only after the listed earlier cases on the same thread: the code under test carries state between calls" } else { "reproduces in isolation" },
    });
    let _ = std::fs::write(&path, serde_json::to_string_pretty(&rec).unwrap());
    if let Some(kf) = is_known {
      println!("KNOWN-FINDING: property={} {} [{}; {} recorded occurrence(s); e.g. {}]", spec.id, kf.what, key, vs.len(), path);
      known_hits.push(key.clone());
    } else {
      new_violations += 1;
      if new_violations <= 20 {
        println!("  violation [{}]: {}", key, first.1);
        println!("VIOLATION property={} replay={}", spec.id, path);
      }
      rc = 1;
    }
  }

  // ---- evidence
  let evaluations = a.counts.get("evaluations").copied().unwrap_or(0);
  let states = a.counts.get("states").copied().unwrap_or(0);
  let transitions = a.counts.get("transitions").copied().unwrap_or(0);
  let traces = a.counts.get("traces_validated").copied().unwrap_or(0);
  let mut coverage = json!({
    "evaluations": evaluations,
    "distinct_nontrivial": a.distinct.len(),
    "rule": spec.checks.iter().map(|c| format!("[{}] {}", c.name, c.rule)).collect::<Vec<_>>().join(" || "),
    "samples": a.samples.iter().take(8).collect::<Vec<_>>(),
    "exhaustive": a.cases_capped == 0 && a.counts.get("bfs_levels_skipped_by_time_cap").copied().unwrap_or(0) == 0,
    "cases_run": a.cases_run,
    "cases_skipped_by_time_cap": a.cases_capped,
    "distinct_outcomes": a.outcomes.len(),
    "outcomes": a.outcomes.iter().take(60).collect::<Vec<_>>(),
    "counters": a.counts,
    "per_check": per_check,
    "notes": a.notes,
    "known_findings_hit": known_hits,
    "build_profile": if cfg!(debug_assertions) { "release (debug assertions and overflow checks on)" } else { "plain (debug assertions and overflow checks off)" },
    "other_profile_run": std::env::var("VERIF_PLAIN_SUMMARY").ok().map(|s| if s.starts_with("NOT RUN") { format!("second configuration (no debug assertions, no overflow checks, star-sharks without std): {}", s) } else { format!("the same checks were run first with the harness and the library built WITHOUT debug assertions and overflow checks and with star-sharks without std (profile 'plain'), no violation: {}", s) }),
  });
  if spec.level == "model_checking" {
    coverage["states"] = json!(states.max(1));
    coverage["transitions"] = json!(transitions.max(1));
    // there is no separate model whose traces would need binding to the code: the explorer drives the
    // implementation itself. Where a check re-executes recorded paths on fresh objects it reports that
    // number; otherwise every explored case IS an execution of the implementation (and replayable).
    coverage["traces_validated_against_impl"] = json!(if traces > 0 { traces } else { a.cases_run });
    coverage["explanation"] = json!("the explorer drives the implementation itself: states/transitions are those of the real objects (every transition is one call into the real code), compared step by step with an independent reference model. traces_validated_against_impl = recorded action paths re-executed from a fresh initial object and compared with the explored state where the check does that (C01, C10, C11, C14), else the number of explored cases, each of which is an execution of the real code and replayable with --replay");
  }
  let evidence = json!({
    "property_id": spec.id,
    "tier": opt.tier.name(),
    "seed": opt.seed,
    "level": spec.level,
    "coverage": coverage,
    "assumptions": spec.assumptions,
    "wall_s": wall,
    "violations": new_violations,
  });
  if opt.write_evidence && opt.only.is_none() {
    let _ = std::fs::create_dir_all(format!("{}/evidence", opt.out_dir));
    let p = format!("{}/evidence/{}.json", opt.out_dir, spec.id);
    if let Err(e) = std::fs::write(&p, serde_json::to_string_pretty(&evidence).unwrap()) {
      eprintln!("machinery error: cannot write {}: {}", p, e);
      return 2;
    }
  }
  println!(
    "[{}] tier={} cases={} evaluations={} distinct_nontrivial={} distinct_outcomes={} states={} transitions={} capped={} violations={} known={} wall={:.1}s",
    spec.id, opt.tier.name(), a.cases_run, evaluations, coverage["distinct_nontrivial"], a.outcomes.len(), states, transitions, a.cases_capped, new_violations, coverage["known_findings_hit"].as_array().map(|x| x.len()).unwrap_or(0), wall
  );
  if rc == 0 && !unconfirmed.is_empty() {
    eprintln!("machinery error: {} violation key(s) were observed but none reproduced on replay (process-wide state or uncaptured nondeterminism): {}", unconfirmed.len(), unconfirmed.join(", "));
    return 2;
  }
  if rc == 0 && !a.harness_errors.is_empty() {
    return 2;
  }
  if rc == 0 && !vacuous.is_empty() {
    eprintln!("machinery error: vacuity guard(s) tripped: {}", vacuous.join("; "));
    return 2;
  }
  rc
}

// ---------------------------------------------------------------- combinatorics

/// all index sequences over [0,n) of length 0..=max_len (short first, odometer order)
pub fn for_each_seq(n: usize, max_len: usize, mut f: impl FnMut(&[usize])) {
  for len in 0..=max_len {
    if len > 0 && n == 0 {
      break;
    }
    let mut buf = vec![0usize; len];
    'outer: loop {
      f(&buf);
      let mut i = len;
      loop {
        if i == 0 {
          break 'outer;
        }
        i -= 1;
        buf[i] += 1;
        if buf[i] < n {
          break;
        }
        buf[i] = 0;
      }
    }
  }
}
pub fn count_distinct(seq: &[usize]) -> usize {
  let mut m: u64 = 0;
  for &i in seq {
    m |= 1 << i;
  }
  m.count_ones() as usize
}
/// all k-subsets of [0,n)
pub fn for_each_subset(n: usize, k: usize, mut f: impl FnMut(&[usize])) {
  fn rec(n: usize, k: usize, start: usize, cur: &mut Vec<usize>, f: &mut dyn FnMut(&[usize])) {
    if cur.len() == k {
      f(cur);
      return;
    }
    let need = k - cur.len();
    for i in start..=(n - need) {
      cur.push(i);
      rec(n, k, i + 1, cur, f);
      cur.pop();
    }
  }
  if k > n {
    return;
  }
  let mut cur = vec![];
  rec(n, k, 0, &mut cur, &mut f);
}
/// all permutations of [0,n) (Heap's algorithm)
pub fn for_each_perm(n: usize, mut f: impl FnMut(&[usize])) {
  let mut a: Vec<usize> = (0..n).collect();
  let mut c = vec![0usize; n];
  f(&a);
  let mut i = 0;
  while i < n {
    if c[i] < i {
      if i % 2 == 0 {
        a.swap(0, i);
      } else {
        a.swap(c[i], i);
      }
      f(&a);
      c[i] += 1;
      i = 0;
    } else {
      c[i] = 0;
      i += 1;
    }
  }
}
/// structured selection family for large n: identity, reversal, rotations, every single duplicate
/// inserted at a few positions, leave-one-out and leave-two-out subsets
pub fn structured_selections(n: usize, t: usize) -> Vec<Vec<usize>> {
  let mut out: Vec<Vec<usize>> = vec![];
  let id: Vec<usize> = (0..n).collect();
  out.push(id.clone());
  out.push(id.iter().rev().copied().collect());
  let step = (n / 8).max(1);
  for r in (1..n).step_by(step) {
    let mut v = id.clone();
    v.rotate_left(r);
    out.push(v);
  }
  // exactly t, from the front / the back / strided
  out.push((0..t).collect());
  out.push((n - t..n).collect());
  out.push((n - t..n).rev().collect());
  // duplicates: each of a few elements duplicated at front, middle, end of a t-subset
  for &d in &[0usize, t / 2, t.saturating_sub(1)] {
    for &pos in &[0usize, 1, t / 2, t] {
      let mut v: Vec<usize> = (0..t).collect();
      v.insert(pos.min(v.len()), d);
      out.push(v);
    }
  }
  // t-1 distinct padded with duplicates (must fail)
  if t >= 2 {
    let mut v: Vec<usize> = (0..t - 1).collect();
    v.push(0);
    out.push(v);
    let mut v: Vec<usize> = (0..t - 1).collect();
    v.insert(0, t - 2);
    v.push(t - 2);
    out.push(v);
  }
  out
}

/// data-parallel map usable inside a single case (std threads; results in input order)
pub fn par_map<T: Sync, R: Send>(items: &[T], f: impl Fn(usize, &T) -> R + Sync) -> Vec<R> {
  let next = AtomicUsize::new(0);
  let n = threads().min(items.len().max(1));
  let mut chunks: Vec<Vec<(usize, R)>> = vec![];
  std::thread::scope(|s| {
    let hs: Vec<_> = (0..n)
      .map(|_| {
        s.spawn(|| {
          let mut out = vec![];
          loop {
            let i = next.fetch_add(1, Ordering::Relaxed);
            if i >= items.len() {
              break;
            }
            out.push((i, f(i, &items[i])));
          }
          out
        })
      })
      .collect();
    for h in hs {
      chunks.push(h.join().expect("par_map worker"));
    }
  });
  let mut all: Vec<(usize, R)> = chunks.into_iter().flatten().collect();
  all.sort_by_key(|x| x.0);
  all.into_iter().map(|x| x.1).collect()
}

// ---------------------------------------------------------------- explicit-state BFS over real objects

pub struct BfsStats {
  pub states: u64,
  pub transitions: u64,
  pub merges: u64,
  pub max_depth: usize,
  pub level_sizes: Vec<usize>,
}
/// Level-synchronous explicit-state search. `K` is the canonical digest of a state (its dedup key),
/// `S` holds the real object(s). `expand` executes every enabled real transition of one state and
/// returns the successor states; `visit` evaluates the invariant on each NEW unique state; `merge`
/// is called when an already-seen digest is reached again (merge check: the abstraction behind the
/// digest is verified on the real objects instead of trusted). Levels are processed on all cores.
pub fn bfs<K, S>(
  cx: &mut CaseCx,
  init: (K, S),
  max_depth: usize,
  expand: impl Fn(&K, &S, &mut CaseCx) -> Vec<(K, S)> + Sync,
  merge: impl Fn(&K, &S, &S, &mut CaseCx) + Sync,
  visit: impl Fn(&K, &S, &mut CaseCx) + Sync,
  mut keep: impl FnMut(&K, &S),
) -> BfsStats
where
  K: std::hash::Hash + Eq + Ord + Clone + Send + Sync,
  S: Send + Sync,
{
  use std::collections::HashMap;
  let mut stats = BfsStats { states: 0, transitions: 0, merges: 0, max_depth: 0, level_sizes: vec![] };
  let mut seen: HashSet<u64> = HashSet::new();
  let hk = |k: &K| {
    use std::hash::Hasher;
    let mut h = std::collections::hash_map::DefaultHasher::new();
    k.hash(&mut h);
    h.finish()
  };
  let mut frontier: Vec<(K, S)> = vec![init];
  seen.insert(hk(&frontier[0].0));
  {
    let mut sc = cx.scratch();
    visit(&frontier[0].0, &frontier[0].1, &mut sc);
    cx.absorb(sc);
  }
  stats.states = 1;
  stats.level_sizes.push(1);
  for depth in 0..max_depth {
    if frontier.is_empty() {
      break;
    }
    let base = cx.scratch();
    if base.should_stop() {
      cx.note("exploration stopped early: enough counterexamples recorded");
      break;
    }
    if let Some(dl) = cx.deadline {
      if Instant::now() > dl {
        cx.count("bfs_levels_skipped_by_time_cap", (max_depth - depth) as u64);
        cx.note(format!("time cap reached: breadth-first exploration stopped after depth {} of {} (fully covered below)", depth, max_depth));
        break;
      }
    }
    let results = par_map(&frontier, |_, (k, s)| {
      let mut sc = base.scratch();
      let succ = if sc.should_stop() { vec![] } else { expand(k, s, &mut sc) };
      (succ, sc)
    });
    let mut next: HashMap<K, S> = HashMap::new();
    let mut dup: Vec<(K, S)> = vec![];
    for (succ, sc) in results {
      cx.absorb(sc);
      for (k, s) in succ {
        stats.transitions += 1;
        if next.contains_key(&k) {
          dup.push((k, s));
        } else if seen.contains(&hk(&k)) {
          // a digest of an EARLIER level reached again (cannot happen for monotone systems; counted)
          stats.merges += 1;
        } else {
          next.insert(k, s);
        }
      }
    }
    // merge checks against the first arrival of this level
    let base = cx.scratch();
    let mres = par_map(&dup, |_, (k, s)| {
      let mut sc = base.scratch();
      if !sc.should_stop() {
        merge(k, &next[k], s, &mut sc);
      }
      sc
    });
    stats.merges += dup.len() as u64;
    for sc in mres {
      cx.absorb(sc);
    }
    drop(dup);
    for (k, s) in frontier.iter() {
      keep(k, s);
    }
    frontier = next.into_iter().collect();
    // deterministic order (std's HashMap iteration order is randomised per process)
    frontier.sort_by(|a, b| a.0.cmp(&b.0));
    for (k, _) in &frontier {
      seen.insert(hk(k));
    }
    let base = cx.scratch();
    let vres = par_map(&frontier, |_, (k, s)| {
      let mut sc = base.scratch();
      if !sc.should_stop() {
        visit(k, s, &mut sc);
      }
      sc
    });
    for sc in vres {
      cx.absorb(sc);
    }
    if !frontier.is_empty() {
      stats.states += frontier.len() as u64;
      stats.max_depth = depth + 1;
      stats.level_sizes.push(frontier.len());
    }
  }
  for (k, s) in frontier.iter() {
    keep(k, s);
  }
  stats
}
